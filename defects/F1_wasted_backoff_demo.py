"""Triage demo for finding F1 (property C03) - NOT a check.

max_attempts=2, always-TRANSIENT operation, shared budget of 10 tokens.  Pinned tree: two `retry`
events, two sleeps and two tokens, the last of each followed by no attempt.  Fixed tree: one each.
usage: PYTHONPATH=<repo>/src python F1_wasted_backoff_demo.py
"""
from redress import Budget, Retry
from redress.errors import ErrorClass

events, sleeps = [], []
budget = Budget(max_retries=10, window_s=60)
r = Retry(classifier=lambda e: ErrorClass.TRANSIENT, strategy=lambda ctx: 0.01, max_attempts=2, budget=budget,
          sleeper=lambda s: sleeps.append(s))
calls = [0]
def op():
    calls[0] += 1
    raise ValueError("x")
out = r.execute(op, on_metric=lambda ev, a, s, t: events.append(ev))
print("invocations", calls[0], "events", events, "sleeps", len(sleeps), "tokens spent", 10 - budget.remaining(), out.stop_reason)
ok = events.count("retry") == calls[0] - 1 and len(sleeps) == calls[0] - 1 and 10 - budget.remaining() == calls[0] - 1
print("ok" if ok else "WASTED: retry/sleep/token after the last permitted attempt")
raise SystemExit(0 if ok else 1)
