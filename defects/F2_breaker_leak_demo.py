"""Triage demo for findings F2a-F2d (property C08) - NOT a check, never run by MANIFEST commands.

Each scenario drives a real CircuitBreaker to HALF_OPEN, runs one admitted probe that ends in the
named way, then asks whether the *next* call is admitted once the probe is over.  On the pinned tree
(0de7baa) every scenario prints LEAK (the probe slot stays taken forever); with the `fix:` commit
each prints ok.   usage: PYTHONPATH=<repo>/src python F2_breaker_leak_demo.py
"""
import asyncio
from redress import CircuitBreaker, Policy, AsyncPolicy, Retry, AsyncRetry, default_classifier
from redress.errors import CircuitOpenError, ErrorClass
from redress.strategies import decorrelated_jitter


def half_open_breaker():
    now = [0.0]
    b = CircuitBreaker(failure_threshold=1, window_s=10, recovery_timeout_s=1, clock=lambda: now[0])
    b.record_failure(ErrorClass.TRANSIENT)
    now[0] = 5.0
    return b


def next_admitted(b):
    d = b.allow()
    return d.allowed


def mk_retry(cls=Retry, **kw):
    return cls(classifier=kw.pop("classifier", default_classifier), strategy=decorrelated_jitter(max_s=0.0), **kw)


results = {}

# F2a: execute() with retry, operation raises KeyboardInterrupt
b = half_open_breaker()
def op_ki():
    raise KeyboardInterrupt()
try:
    Policy(retry=mk_retry(), circuit_breaker=b).execute(op_ki)
except KeyboardInterrupt:
    pass
results["F2a execute+retry, operation raises KeyboardInterrupt"] = next_admitted(b)

# F2b: call(), operation raises a nested CircuitOpenError
b = half_open_breaker()
def op_nested():
    raise CircuitOpenError("open")
try:
    Policy(retry=None, circuit_breaker=b).call(op_nested)
except CircuitOpenError:
    pass
results["F2b call, operation raises nested CircuitOpenError"] = next_admitted(b)

# F2c: async call, coroutine closed (GeneratorExit) at the await of the probe
b = half_open_breaker()
async def op_wait():
    await asyncio.sleep(3600)
async def scenario_c():
    coro = AsyncPolicy(retry=None, circuit_breaker=b).call(op_wait)
    coro.send(None)      # run to the first suspension inside the operation
    coro.close()         # GeneratorExit thrown at that await
loop = asyncio.new_event_loop()
try:
    try:
        loop.run_until_complete(scenario_c())
    except BaseException:
        pass
finally:
    loop.close()
results["F2c async call, coroutine closed at the probe's await (GeneratorExit)"] = next_admitted(b)

# F2c': sync call, operation raises asyncio.CancelledError
b = half_open_breaker()
def op_cancelled():
    raise asyncio.CancelledError()
try:
    Policy(retry=None, circuit_breaker=b).call(op_cancelled)
except asyncio.CancelledError:
    pass
results["F2c sync call, operation raises CancelledError"] = next_admitted(b)

# F2d: call() without retry, operation fails and on_attempt_end raises
b = half_open_breaker()
def op_fail():
    raise ValueError("x")
def bad_hook(ctx):
    raise RuntimeError("hook")
try:
    Policy(retry=None, circuit_breaker=b).call(op_fail, on_attempt_end=bad_hook)
except (ValueError, RuntimeError):
    pass
results["F2d call, no retry, raising on_attempt_end after a failure"] = next_admitted(b) or b.state.value == "open"

# F2d': call() with retry, classifier raises while classifying the final failure for the breaker
b = half_open_breaker()
calls = [0]
def flaky_classifier(exc):
    calls[0] += 1
    if calls[0] > 1:
        raise RuntimeError("classifier")
    return ErrorClass.PERMANENT
try:
    Policy(retry=mk_retry(classifier=flaky_classifier), circuit_breaker=b).call(op_fail)
except (ValueError, RuntimeError):
    pass
results["F2d call+retry, classifier raises when classifying for the breaker"] = next_admitted(b) or b.state.value == "open"

bad = 0
for k, v in results.items():
    print(("ok   " if v else "LEAK ") + k)
    bad += not v
raise SystemExit(1 if bad else 0)
