"""Triage demo for findings F3 (C18) and F4a-c (C20) - NOT a check.  usage: PYTHONPATH=<repo>/src python F3_F4_...py"""
from redress.errors import ErrorClass
from redress.extras.http import http_retry_after_classifier
from redress.strategies import equal_jitter, token_backoff

bad = 0
def expect_total(label, fn):
    global bad
    try:
        fn()
        print("ok   ", label)
    except Exception as exc:  # noqa: BLE001
        bad += 1
        print("RAISES", label, "->", type(exc).__name__)

expect_total("F3  equal_jitter attempt=1024", lambda: equal_jitter()(1024, ErrorClass.TRANSIENT, None))
expect_total("F3  token_backoff attempt=1751", lambda: token_backoff()(1751, ErrorClass.TRANSIENT, None))

class E429(Exception):
    status = 429
def with_header(v):
    e = E429(); e.headers = {"Retry-After": v}; return e
def with_attr(v):
    e = E429(); e.retry_after = v; return e
expect_total("F4a Retry-After: 400 digits", lambda: http_retry_after_classifier(with_header("9" * 400)))
expect_total("F4b retry_after = 10**400", lambda: http_retry_after_classifier(with_attr(10**400)))
expect_total("F4c Retry-After: date with a 20-digit year", lambda: http_retry_after_classifier(with_header("Mon, 01 Jan 99999999999999999999 00:00:00 GMT")))
raise SystemExit(1 if bad else 0)
