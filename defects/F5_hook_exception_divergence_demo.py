"""Triage demo for finding F5 (property C12, fault model B) - NOT a check.
The result is classified PERMANENT; on_attempt_end raises once.  call() propagates the hook's exception
after ONE invocation; execute() catches it as if the operation had failed, handles it as an attempt
failure and invokes the operation AGAIN.   usage: PYTHONPATH=<repo>/src python F5_...py"""
from redress import Retry
from redress.errors import ErrorClass

def run(entry):
    calls = [0]
    fired = [False]
    def op():
        calls[0] += 1
        return "bad"
    def on_end(ctx):
        if not fired[0]:
            fired[0] = True
            raise RuntimeError("hook")
    r = Retry(classifier=lambda e: ErrorClass.TRANSIENT, result_classifier=lambda v: ErrorClass.PERMANENT,
              strategy=lambda ctx: 0.0, max_attempts=3, sleeper=lambda s: None)
    events = []
    try:
        out = getattr(r, entry)(op, on_attempt_end=on_end, on_metric=lambda ev, a, s, t: events.append(ev))
        how = f"returned stop_reason={getattr(out, 'stop_reason', None)}"
    except Exception as exc:  # noqa: BLE001
        how = f"raised {type(exc).__name__}"
    return calls[0], events, how

c = run("call")
e = run("execute")
print("call   : invocations", c[0], "events", c[1], c[2])
print("execute: invocations", e[0], "events", e[1], e[2])
raise SystemExit(0 if c[0] == e[0] else 1)
