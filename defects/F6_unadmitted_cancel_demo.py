"""Triage demo for finding F6 (property C07) - NOT a check.  usage: PYTHONPATH=<repo>/src python F6_...py
A half-open breaker has probe A in flight.  A no-retry policy sharing the breaker is called with
abort_if() == True: it was never admitted, yet it records a cancel, which frees A's probe slot;
a third call is then admitted as a *second* concurrent probe."""
from redress import CircuitBreaker, Policy
from redress.errors import AbortRetryError, ErrorClass

now = [0.0]
b = CircuitBreaker(failure_threshold=1, window_s=10, recovery_timeout_s=1, clock=lambda: now[0])
b.record_failure(ErrorClass.TRANSIENT)
now[0] = 5.0
assert b.allow().allowed            # probe A admitted, still running
assert not b.allow().allowed        # everyone else is rejected ... as specified
try:
    Policy(retry=None, circuit_breaker=b).call(lambda: 1, abort_if=lambda: True)
except AbortRetryError:
    pass
second = b.allow().allowed          # must still be rejected: probe A has not finished
print("second probe admitted while the first is in flight:", second)
raise SystemExit(1 if second else 0)
