"""Static analyser for aponysus/redress (stdlib only).  See /verif/DESIGN.md."""
