"""E3 - path-sensitive abstract interpreter (typestate / effect dataflow with summaries).

State = (env, cstate):
  env     constant facts on access paths  ("state","last_stop_reason") -> ("e","StopReason","ABORTED")
          (locals, attributes of locals / parameters, results of calls in flight)
  cstate  the *client's* finite typestate (settlement status, protocol state, counters...)

The interpreter explores (node, state) pairs of the E2 graph with a worklist; states are
not merged, so correlated branches (`if x is None` ... `if x is not None`) are followed
precisely as long as the tested path carries a constant fact; anything else is explored on
both edges (sound for must-rules).  Calls to repository functions apply a memoised summary
(entry state -> set of exits), computed by the same interpreter; the call graph of the
analysed code is acyclic (recursion is reported as AnalysisError).  Exceptions are finite
*kinds* (kinds.py); which event may raise which kind is the client's fault model.

Values:  ("c", const) | ("e", Enum, Member) | ("i", classqual, ((field, val), ...)) |
         ("t", (v1, ...)) | ("x", kind) | ("nn",) | None (= unknown)
"""

from __future__ import annotations

import ast
import os
from dataclasses import dataclass, field
from typing import Any, Callable, Iterable

from .cfg import CFG, CFGs, Node
from .kinds import Kinds
from .model import AnalysisError, FuncInfo, Program, Target

KILL = ("top",)
Path = tuple


def is_falsy_const(v: Any) -> bool | None:
    """truthiness of an abstract value: True / False / None (unknown)"""
    if v is None or v == KILL:
        return None
    if v[0] == "c":
        return bool(v[1])
    if v[0] in ("e", "i", "x", "tr"):
        return True
    if v[0] == "fa":
        return False
    if v[0] == "t":
        return len(v[1]) > 0
    return None


def is_temp(p: tuple) -> bool:
    return isinstance(p[0], str) and p[0].startswith("$")


@dataclass
class Event:
    kind: str  # call | await | store | test | return | raise | with_enter | with_exit | iter | handler
    node: Node
    cfg: CFG
    interp: "Interp"
    env: dict
    stack: tuple
    target: Target | None = None
    category: str | None = None
    real: bool = True

    @property
    def func(self) -> FuncInfo:
        return self.cfg.func

    @property
    def call(self) -> ast.Call:
        return self.node.ast

    def where(self) -> str:
        return f"{self.func.module.relpath}:{self.node.lineno}"

    def arg(self, index: int | None = None, kw: str | None = None) -> ast.expr | None:
        c = self.node.ast
        if not isinstance(c, ast.Call):
            return None
        if kw is not None:
            for k in c.keywords:
                if k.arg == kw:
                    return k.value
        if index is not None and index < len(c.args):
            return c.args[index]
        return None

    def arg_value(self, index: int | None = None, kw: str | None = None) -> Any:
        e = self.arg(index, kw)
        return None if e is None else self.interp.ev(e, self.env, self.cfg)

    def value(self, e: ast.expr) -> Any:
        return self.interp.ev(e, self.env, self.cfg)

    def label(self) -> str:
        if self.target is not None:
            return self.target.label()
        return self.kind


class Client:
    """Base class of rule clients.  Override what the rule needs."""

    name = "client"
    #: stop descending below this depth of repository calls (None = unlimited)
    max_depth: int | None = None

    def initial(self) -> Any:
        return None

    # ---- fault model -----------------------------------------------------------------
    def callback_kinds(self, category: str, ev: Event) -> Iterable[str]:
        """kinds a user callback of this category may raise"""
        return ()

    def await_kinds(self, category: str | None, ev: Event) -> Iterable[str]:
        """kinds raised at a real suspension point (awaiting a non-repo awaitable)"""
        return ()

    def lib_kinds(self, name: str, ev: Event) -> Iterable[str]:
        return ()

    def callback_results(self, category: str, ev: Event) -> list | None:
        """abstract values a callback may return (None = one unknown value)"""
        return None

    def opaque_kinds(self, fi: FuncInfo, ev: Event) -> Iterable[str]:
        """kinds an un-descended repository call may raise"""
        return ()

    # ---- structure -------------------------------------------------------------------
    def descend(self, fi: FuncInfo, ev: Event) -> bool:
        """apply the callee's summary (True) or treat the call as an opaque no-op"""
        return True

    def loop_edges(self, ev: Event) -> tuple[bool, bool]:
        """(may enter body, may finish) for a `for` head"""
        return True, True

    def relevant_iter(self, ev: Event) -> bool:
        """does this `for` head concern the client's typestate? (incidental loops in helpers - copying a dict,
        scanning a list - must not be mistaken for the loop the client reasons about)"""
        return True

    # ---- typestate -------------------------------------------------------------------
    def on_event(self, ev: Event, cs: Any) -> Any:
        """cstate after the event completes normally (before exceptions are considered
        the event has *started*; see on_event_exc)."""
        return cs

    def on_event_exc(self, ev: Event, cs: Any, kind: str) -> Any:
        """cstate when the event raises `kind` (default: unchanged)"""
        return cs

    def on_callee_exit(self, ev: Event, cs: Any, exit_kind: str) -> Any:
        return cs

    def track_attr(self, leaf: str) -> bool:
        """keep constant facts about attribute `leaf` at all (stores and tests)"""
        return True

    def refine_attr(self, leaf: str) -> bool:
        """record facts learned from *tests* of attribute `leaf` (stores are always recorded)"""
        return True

    def on_branch(self, ev: Event, cs: Any, branch: bool) -> Any:
        """cstate on the T/F edge of an atomic test (ev.env is the *refined* env)"""
        return cs


@dataclass
class Exit:
    how: str  # 'return' | 'raise'
    kind: str | None
    retval: Any
    env: frozenset  # facts rooted at parameters (frozen)
    cstate: Any
    witness: Any = None

    def key(self) -> tuple:
        return (self.how, self.kind, self.retval, self.env, self.cstate)


class Interp:
    def __init__(self, prog: Program, cfgs: CFGs, client: Client) -> None:
        self.prog = prog
        self.cfgs = cfgs
        self.kinds: Kinds = cfgs.kinds
        self.client = client
        self.memo: dict[tuple, list[Exit]] = {}
        self.active: list[str] = []
        self.stats = {"node_states": 0, "summaries": 0, "calls": 0, "events": 0}
        self.visited_funcs: set[str] = set()
        self.unknown_calls: list[str] = []
        self._items: list[tuple] = []  # witness storage: (parent index, description)

    # ================================================================== values
    def enum_value(self, e: ast.expr, fi: FuncInfo) -> Any:
        ec = self.prog.enum_const(e, fi)
        if ec is not None:
            return ("e", ec[0], ec[1])
        return None

    def _holder_refs(self, call: ast.Call, fi: FuncInfo) -> dict[str, ast.expr]:
        """field -> argument expression, for a constructor call of a class that did not exist when the rules were
        written and whose `__init__` only stores its parameters (`self.f = p`): the object refers to its arguments"""
        try:
            tg = self.prog.resolve_call(call, fi)
        except AnalysisError:
            return {}
        if len(tg) != 1 or tg[0].kind != "ctor" or tg[0].func is None or tg[0].cls is None or tg[0].func.qual in self._known_ctor_quals():
            return {}
        init = tg[0].func
        selfname = init.positional_params()[0]
        pnames = init.positional_params()[1:]
        fields: dict[str, str] = {}
        for st in init.node.body:
            if isinstance(st, ast.Expr) and isinstance(st.value, ast.Constant):
                continue
            tgt = val = None
            if isinstance(st, ast.Assign) and len(st.targets) == 1:
                tgt, val = st.targets[0], st.value
            elif isinstance(st, ast.AnnAssign) and st.value is not None:
                tgt, val = st.target, st.value
            if not (isinstance(tgt, ast.Attribute) and isinstance(tgt.value, ast.Name) and tgt.value.id == selfname and isinstance(val, ast.Name)):
                return {}
            fields[tgt.attr] = val.id
        byparam: dict[str, ast.expr] = {}
        for i, a in enumerate(call.args):
            if isinstance(a, ast.Starred):
                return {}
            if i < len(pnames):
                byparam[pnames[i]] = a
        for kw in call.keywords:
            if kw.arg is None:
                return {}
            byparam[kw.arg] = kw.value
        return {f: byparam[pn] for f, pn in fields.items() if pn in byparam}

    def _over_budget(self) -> bool:
        import time

        t0 = self.__dict__.setdefault("_t0", time.monotonic())
        return time.monotonic() - t0 > float(os.environ.get("VERIF_INTERP_BUDGET_S", "420"))

    def _known_ctor_quals(self) -> set[str]:
        kq = self.__dict__.get("_kq")
        if kq is None:
            import os

            try:
                with open(os.path.join(os.path.dirname(os.path.abspath(__file__)), "known_funcs.txt")) as fh:
                    kq = {ln.strip() for ln in fh if ln.strip().endswith(".__init__")}
            except OSError:
                kq = set()
            self.__dict__["_kq"] = kq
        return kq

    def _module_const(self, name: str, fi: FuncInfo) -> Any:
        """a module-level name bound exactly once to a constant / enum member (or its .value / .name): its value"""
        if name in self.prog.func_locals(fi) or any(name in self.prog.func_locals(f) for f in self._parents(fi)):
            return None
        k, pl = self.prog.lookup_name(name, fi, fi.module)
        if k != "assign":
            return None
        m, val = pl
        cache = self.__dict__.setdefault("_mconst", {})
        ck = (m.name, name)
        if ck not in cache:
            cache[ck] = None
            n_bind = sum(1 for n in ast.walk(m.tree) if (isinstance(n, ast.Name) and n.id == name and isinstance(n.ctx, (ast.Store, ast.Del))) or (isinstance(n, ast.Global) and name in n.names))
            if n_bind == 1:
                stub = FuncInfo(f"{m.name}:<module>", m, ast.parse("def _m(): pass").body[0])
                if isinstance(val, ast.Call) and ast.unparse(val.func).split(".")[-1] in ("MappingProxyType", "dict", "frozendict") and len(val.args) == 1 and not val.keywords and isinstance(val.args[0], ast.Dict):
                    val = val.args[0]  # a read-only / copied view of a dict display is that table
                if isinstance(val, ast.Constant) and (val.value is None or isinstance(val.value, (bool, int, float, str))):
                    cache[ck] = ("c", val.value)
                elif isinstance(val, ast.Attribute):
                    ec = self.enum_value(val, stub)
                    if ec is None and val.attr in ("value", "name") and isinstance(val.value, ast.Attribute):
                        ec = self.enum_value(val.value, stub)
                    cache[ck] = ec
                elif isinstance(val, ast.Dict) and val.keys and all(k is not None for k in val.keys):
                    # a dispatch table: {enum member / constant: module-level function or constant}
                    pairs = []
                    for k, v in zip(val.keys, val.values):
                        kk = self.enum_value(k, stub) if isinstance(k, ast.Attribute) else (("c", k.value) if isinstance(k, ast.Constant) else None)
                        vv = None
                        if isinstance(v, ast.Name):
                            k3, p3 = self.prog.lookup_name(v.id, None, m)
                            if k3 == "func":
                                vv = ("f", p3.qual)
                        elif isinstance(v, ast.Attribute):
                            vv = self.enum_value(v, stub)
                        elif isinstance(v, ast.Constant) and (v.value is None or isinstance(v.value, (bool, int, float, str))):
                            vv = ("c", v.value)
                        if kk is None or vv is None:
                            pairs = None
                            break
                        pairs.append((kk, vv))
                    if pairs:
                        cache[ck] = ("d", tuple(pairs))
                elif isinstance(val, ast.Call) and isinstance(val.func, ast.Name):
                    # `_STOP_X = _Stop(EventName.A, StopReason.B)`: a constant record (a row of a table written as data)
                    k2, p2 = self.prog.lookup_name(val.func.id, None, m)
                    if k2 == "class" and self._is_param_object(("c", p2.qual)) and "__init__" not in p2.methods:
                        order = self.prog.all_fields(p2)
                        fields: dict[str, Any] = {}
                        ok = len(val.args) <= len(order) and all(kw.arg is not None for kw in val.keywords)

                        def scalar(x: ast.expr) -> Any:
                            if isinstance(x, ast.Constant) and (x.value is None or isinstance(x.value, (bool, int, float, str))):
                                return ("c", x.value)
                            if isinstance(x, ast.Attribute):
                                return self.enum_value(x, stub)
                            return None

                        if ok:
                            for i, a in enumerate(val.args):
                                fields[order[i]] = scalar(a)
                            for kw in val.keywords:
                                fields[kw.arg] = scalar(kw.value)
                        if ok and all(v is not None for v in fields.values()):
                            cache[ck] = ("i", p2.qual, tuple(sorted(fields.items())))
        return cache[ck]

    @staticmethod
    def _parents(fi: FuncInfo):
        f = fi.parent
        while f is not None:
            yield f
            f = f.parent

    def path_of(self, e: ast.expr) -> Path | None:
        if isinstance(e, ast.Name):
            return (e.id,)
        if isinstance(e, ast.Attribute):
            b = self.path_of(e.value)
            return None if b is None else b + (e.attr,)
        return None

    @staticmethod
    def _canon(env: dict, path: Path) -> Path:
        """`h.f...` where the holder object `h` was built with its field `f` bound to the local `v`
        (`("$ref", h, f) -> ("al", (v,))`): the same object as `v...` - facts live under the one name"""
        for _ in range(3):
            if len(path) >= 2 and isinstance(path[0], str) and isinstance(path[1], str):
                r = env.get(("$ref", path[0], path[1]))
                if r is not None:
                    path = r[1] + path[2:]
                    continue
            break
        return path

    def record_at(self, env: dict, path: Path) -> Any:
        """value stored at `path` (flattened facts are re-assembled into a record)"""
        path = self._canon(env, path)
        v = env.get(path)
        if v is not None and v != KILL:
            return v
        ty = env.get(path + ("$type",))
        sub = {}
        n = len(path)
        for p, val in env.items():
            if len(p) == n + 1 and p[:n] == path and p[-1] != "$type" and val != KILL and val is not None:
                sub[p[-1]] = val
            elif len(p) > n + 1 and p[:n] == path and val != KILL:
                # nested: rebuild lazily
                sub.setdefault(p[n], None)
            elif n == 1 and len(p) == 3 and p[0] == "$ref" and p[1] == path[0]:
                sub.setdefault(p[2], None)  # a field that is another local, by reference
        if ty is None and not sub:
            return None
        fields = []
        for k in sorted(sub):
            val = sub[k] if sub[k] is not None else self.record_at(env, path + (k,))
            if val is not None:
                fields.append((k, val))
        if ty is None and not fields:
            return None
        return ("i", ty[1] if ty else None, tuple(fields))

    def ev(self, e: ast.expr | None, env: dict, cfg: CFG) -> Any:
        fi = cfg.func
        if e is None:
            return ("c", None)
        if isinstance(e, ast.Constant):
            v = e.value
            if v is None or isinstance(v, (bool, int, float, str)):
                return ("c", v)
            return None
        if isinstance(e, ast.Await):
            return self.ev(e.value, env, cfg)
        if isinstance(e, ast.Call):
            r = env.get(("$r", id(e)))
            return None if r == KILL else r
        if isinstance(e, (ast.Name, ast.Attribute)):
            p = self.path_of(e)
            if p is not None:
                # the root must be a local / parameter for path facts to apply
                v = self.record_at(env, p)
                if v is not None:
                    return v
                al = env.get(("$alias", p[0]))
                if al is not None:
                    # `x = a.b` with nothing known then: whatever is learnt about a.b later holds for x
                    v = self.record_at(env, al[1] + p[1:])
                    if v is not None:
                        return v
            if isinstance(e, ast.Name) and (e.id,) not in env:
                mc = self._module_const(e.id, fi)
                if mc is not None:
                    return mc
                if e.id not in self.prog.func_locals(fi):
                    k0, p0 = self.prog.lookup_name(e.id, fi, fi.module)
                    if k0 == "func" and p0.parent is None:
                        return ("f", p0.qual)  # a module-level function used as a value (default of a table lookup)
            if isinstance(e, ast.Attribute):
                ec = self.enum_value(e, fi)
                if ec is not None:
                    return ec
                base = self.ev(e.value, env, cfg)
                if base is not None and base[0] == "i":
                    for k, val in base[2]:
                        if k == e.attr:
                            return val
                if base is not None and base[0] == "e" and e.attr in ("value", "name"):
                    return base
            return None
        if isinstance(e, ast.Subscript):
            # `TABLE[key]` on a constant dispatch table with a known key
            tab = self.ev(e.value, env, cfg)
            key = self.ev(e.slice, env, cfg)
            if tab is not None and tab[0] == "d" and key is not None and key[0] in ("c", "e"):
                for k, v in tab[1]:
                    if k == key:
                        return v
            return None
        if isinstance(e, ast.Tuple):
            return ("t", tuple(self.ev(x, env, cfg) for x in e.elts))
        if isinstance(e, ast.UnaryOp) and isinstance(e.op, ast.Not):
            t = is_falsy_const(self.ev(e.operand, env, cfg))
            return None if t is None else ("c", not t)
        if isinstance(e, ast.BoolOp):
            last = None
            for i, v in enumerate(e.values):
                val = self.ev(v, env, cfg)
                if i == len(e.values) - 1:
                    return val
                t = is_falsy_const(val)
                if t is None:
                    return None
                if isinstance(e.op, ast.And) and not t:
                    return val
                if isinstance(e.op, ast.Or) and t:
                    return val
                last = val
            return last
        if isinstance(e, ast.IfExp):
            t = self.truth(e.test, env, cfg)
            if t is True:
                return self.ev(e.body, env, cfg)
            if t is False:
                return self.ev(e.orelse, env, cfg)
            a = self.ev(e.body, env, cfg)
            b = self.ev(e.orelse, env, cfg)
            return a if a == b else None
        if isinstance(e, ast.Compare):
            t = self.truth(e, env, cfg)
            return None if t is None else ("c", t)
        if isinstance(e, ast.NamedExpr):
            return self.ev(e.value, env, cfg)
        return None

    # ------------------------------------------------------------------ conditions
    def truth(self, cond: ast.expr, env: dict, cfg: CFG) -> bool | None:
        """definite truth value of an atomic condition under env, else None"""
        if isinstance(cond, ast.Compare) and len(cond.ops) == 1:
            op = cond.ops[0]
            a = self.ev(cond.left, env, cfg)
            b = self.ev(cond.comparators[0], env, cfg)
            if isinstance(op, (ast.Is, ast.IsNot, ast.Eq, ast.NotEq)):
                r = self._same(a, b)
                if r is None:
                    return None
                return r if isinstance(op, (ast.Is, ast.Eq)) else (not r)
            if isinstance(op, (ast.In, ast.NotIn)):
                comp = cond.comparators[0]
                if isinstance(comp, (ast.Tuple, ast.Set, ast.List)) and a is not None:
                    vals = [self.ev(x, env, cfg) for x in comp.elts]
                    if all(v is not None for v in vals) and a[0] in ("c", "e"):
                        r = any(self._same(a, v) for v in vals)
                        return r if isinstance(op, ast.In) else (not r)
                return None
            return None
        if isinstance(cond, ast.Call) and isinstance(cond.func, ast.Name) and cond.func.id == "isinstance" and len(cond.args) == 2:
            v = self.ev(cond.args[0], env, cfg)
            r = self._isinstance(v, cond.args[1], cfg)
            if r is None and v is None:
                r = self._isinstance_by_type(cond.args[0], cond.args[1], cfg)
            return r
        if isinstance(cond, ast.UnaryOp) and isinstance(cond.op, ast.Not):
            t = self.truth(cond.operand, env, cfg)
            return None if t is None else (not t)
        return is_falsy_const(self.ev(cond, env, cfg))

    @staticmethod
    def _same(a: Any, b: Any) -> bool | None:
        if a is None or b is None:
            return None
        if a[0] in ("nn", "tr", "fa") or b[0] in ("nn", "tr", "fa"):
            other, me = (b, a) if a[0] in ("nn", "tr", "fa") else (a, b)
            if other == ("c", None) and me[0] in ("nn", "tr"):
                return False
            if other[0] == "c" and me[0] == "tr" and not other[1]:
                return False
            if other[0] == "c" and me[0] == "fa" and other[1]:
                return False
            return None
        if a[0] in ("c", "e") and b[0] in ("c", "e"):
            if a[0] == "e" and b[0] == "e":
                return a == b
            if a[0] == "c" and b[0] == "c":
                return a[1] == b[1] and type(a[1]) is type(b[1])
            return False  # str-enum vs its value is never compared in the analysed code
        if (a[0] in ("i", "x", "t")) != (b[0] in ("i", "x", "t")):
            if ("c", None) in (a, b):
                return False
            return None
        return None

    def _isinstance(self, v: Any, cls_expr: ast.expr, cfg: CFG) -> bool | None:
        if v is None:
            return None
        names: list[str] = []
        exprs = cls_expr.elts if isinstance(cls_expr, ast.Tuple) else [cls_expr]
        if v[0] == "x":
            try:
                classes = [self.kinds.resolve_class_expr(x, cfg.func) for x in exprs]
            except AnalysisError:
                return None
            return self.kinds.catches(classes, v[1])
        if v[0] == "i" and v[1] is not None:
            ci = self.prog.classes.get(v[1])
            if ci is None:
                return None
            mro = {c.qual for c in self.prog.mro(ci)}
            hit = False
            for x in exprs:
                t = self.prog.type_of(x, cfg.func)
                quals = {a[1] for a in t if a[0] == "type"}
                if not quals:
                    return None
                if quals & mro:
                    hit = True
            return hit
        if v == ("c", None):
            return False
        return None

    def _isinstance_by_type(self, e: ast.expr, cls_expr: ast.expr, cfg: CFG) -> bool | None:
        """nothing is known about the value, but its declared type is a repository class (not Optional, not a union
        with anything else) that is a subclass of the tested class: the test holds (annotations are trusted, as in
        call resolution).  Never answers False."""
        try:
            t = self.prog.type_of(e, cfg.func)
        except AnalysisError:
            return None
        if not t or not all(a[0] == "cls" and a[1] in self.prog.classes for a in t):
            return None
        exprs = cls_expr.elts if isinstance(cls_expr, ast.Tuple) else [cls_expr]
        tested: set[str] = set()
        for x in exprs:
            tx = self.prog.type_of(x, cfg.func)
            tested |= {a[1] for a in tx if a[0] == "type"}
        if not tested:
            return None
        if all(tested & {c.qual for c in self.prog.mro(self.prog.classes[a[1]])} for a in t):
            return True
        return None

    def refine(self, cond: ast.expr, branch: bool, env: dict, cfg: CFG) -> dict | None:
        """env refined by knowing cond == branch; None if infeasible"""
        t = self.truth(cond, env, cfg)
        if t is not None:
            return env if t == branch else None
        new = None
        if isinstance(cond, ast.Compare) and len(cond.ops) == 1:
            op = cond.ops[0]
            left, right = cond.left, cond.comparators[0]
            if isinstance(op, (ast.Is, ast.IsNot, ast.Eq, ast.NotEq)):
                positive = isinstance(op, (ast.Is, ast.Eq)) == branch
                for pe, ce in ((left, right), (right, left)):
                    if isinstance(pe, ast.NamedExpr):
                        pe = pe.target
                    p = self.path_of(pe)
                    cv = self.ev(ce, env, cfg)
                    if p is None or cv is None or cv[0] not in ("c", "e"):
                        continue
                    cur = self.ev(pe, env, cfg)
                    if cur is not None and cur[0] not in ("nn", "tr", "fa"):
                        continue
                    if len(p) > 1 and not self.client.refine_attr(p[-1]):
                        continue
                    al = env.get(("$alias", p[0]))
                    if positive:
                        new = dict(env)
                        self._assign(new, p, cv)
                    elif cv == ("c", None) and cur is None:
                        new = dict(env)
                        self._assign(new, p, ("nn",))
                    if new is not None and al is not None:
                        ap = al[1] + p[1:]
                        if self.client.refine_attr(ap[-1]) or len(ap) == 1:
                            self._assign(new, ap, new.get(p, cv if positive else ("nn",)))
                            new[("$alias", p[0])] = al
                    break
        elif isinstance(cond, (ast.Name, ast.Attribute, ast.NamedExpr)):
            if isinstance(cond, ast.NamedExpr):
                cond = cond.target
            p = self.path_of(cond)
            cur = self.ev(cond, env, cfg)
            if p is not None and (cur is None or cur == ("nn",)) and (len(p) == 1 or self.client.refine_attr(p[-1])):
                al = env.get(("$alias", p[0]))
                new = dict(env)
                self._assign(new, p, ("tr",) if branch else ("fa",))
                if al is not None and (len(al[1] + p[1:]) == 1 or self.client.refine_attr((al[1] + p[1:])[-1])):
                    self._assign(new, al[1] + p[1:], ("tr",) if branch else ("fa",))
                    new[("$alias", p[0])] = al
        return new if new is not None else env

    # ================================================================== env updates
    def _clear(self, env: dict, path: Path) -> None:
        path = self._canon(env, path)
        n = len(path)
        for p in [p for p in env if p[:n] == path]:
            del env[p]
        if n == 1:
            for k in [k for k, v in env.items() if k[0] == "$ref" and (k[1] == path[0] or v[1][0] == path[0])]:
                del env[k]
        if not is_temp(path):
            for k in [k for k, v in env.items() if k[0] == "$alias" and ((n == 1 and k[1] == path[0]) or v[1][:n] == path or path[: len(v[1])] == v[1])]:
                del env[k]

    def _kill(self, env: dict, path: Path) -> None:
        path = self._canon(env, path)
        self._clear(env, path)
        env[path] = KILL

    def _assign(self, env: dict, path: Path, val: Any) -> None:
        path = self._canon(env, path)
        self._clear(env, path)
        if len(path) >= 2 and path[-1] != "$type" and not is_temp(path) and not self.client.track_attr(path[-1]):
            if val is not None and val != KILL and val[0] == "i":
                pass  # keep the structure of records (their fields are filtered recursively)
            elif self._is_param_object(env.get(path[:-1] + ("$type",))):
                pass  # fields of a parameter object introduced by a refactoring carry what the parameters carried
            else:
                return
        if val is None or val == KILL:
            env[path] = KILL
            return
        if val[0] == "i":
            if val[1] is not None:
                env[path + ("$type",)] = ("c", val[1])
            for k, sub in val[2]:
                self._assign(env, path + (k,), sub)
            if val[1] is None and not val[2]:
                env[path] = KILL
            return
        env[path] = val

    def _is_param_object(self, ty: Any) -> bool:
        if ty is None or ty[0] != "c" or not isinstance(ty[1], str):
            return False
        known = self.__dict__.get("_known_classes")
        if known is None:
            import os

            try:
                with open(os.path.join(os.path.dirname(os.path.abspath(__file__)), "known_classes.txt")) as fh:
                    known = {ln.strip() for ln in fh if ln.strip()}
            except OSError:
                known = set(self.prog.classes)
            # a known class moved to another module is still that class (name unique among the known ones)
            tails = [k.split(":", 1)[-1] for k in known]
            known |= {q for q in self.prog.classes if q not in known and tails.count(q.split(":", 1)[-1]) == 1 and not any(k != q and k in self.prog.classes and k.split(":", 1)[-1] == q.split(":", 1)[-1] for k in known)}
            self.__dict__["_known_classes"] = known
        if ty[1] not in self.prog.classes or ty[1] in known:
            return False
        ci = self.prog.classes[ty[1]]
        return any(ast.unparse(d).split("(")[0].split(".")[-1] == "dataclass" for d in ci.node.decorator_list) or any(ast.unparse(b).split(".")[-1] == "NamedTuple" for b in ci.node.bases)

    def _assign_target(self, env: dict, tgt: ast.expr, val: Any, cfg: CFG) -> None:
        if isinstance(tgt, (ast.Tuple, ast.List)):
            for i, e in enumerate(tgt.elts):
                sub = None
                if val is not None and val[0] == "t" and i < len(val[1]):
                    sub = val[1][i]
                elif val is not None and val[0] == "i" and val[1] in self.prog.classes:
                    # unpacking a record (NamedTuple parameter object): fields in declaration order
                    fields = self.prog.all_fields(self.prog.classes[val[1]])
                    if i < len(fields):
                        sub = dict(val[2]).get(fields[i])
                self._assign_target(env, e, sub, cfg)
            return
        p = self.path_of(tgt)
        if p is not None:
            self._assign(env, p, val)

    # ================================================================== run
    def freeze(self, env: dict) -> frozenset:
        return frozenset(env.items())

    def run(self, fi: FuncInfo, env0: dict | None = None, cstate: Any = None, stack: tuple = ()) -> list[Exit]:
        env0 = dict(env0 or {})
        key = (fi.qual, self.freeze(env0), cstate)
        if key in self.memo:
            return self.memo[key]
        if fi.qual in self.active:
            raise AnalysisError(f"recursion through {fi.qual}: summaries assume an acyclic call graph")
        self.active.append(fi.qual)
        try:
            exits = self._run(fi, env0, cstate, stack)
        finally:
            self.active.pop()
        self.memo[key] = exits
        self.stats["summaries"] += 1
        return exits

    def _witness(self, parent: int, desc: Any) -> int:
        self._items.append((parent, desc))
        return len(self._items) - 1

    def witness_path(self, idx: int | None, limit: int = 400) -> list[Any]:
        out = []
        while idx is not None and idx >= 0 and len(out) < limit:
            parent, desc = self._items[idx]
            if desc is not None:
                out.append(desc)
            idx = parent
        out.reverse()
        return out

    def _run(self, fi: FuncInfo, env0: dict, cstate0: Any, stack: tuple) -> list[Exit]:
        cfg = self.cfgs.get(fi)
        self.visited_funcs.add(fi.qual)
        params = set(fi.param_names())
        exits: dict[tuple, Exit] = {}
        seen: set[tuple] = set()
        w0 = self._witness(-1, ("enter", fi.qual, fi.where()))
        work: list[tuple[int, dict, Any, int]] = [(cfg.entry, env0, cstate0, w0)]

        def add_exit(how: str, kind: str | None, retval: Any, env: dict, cs: Any, w: int) -> None:
            penv = {p: v for p, v in env.items() if p[0] in params and len(p) >= 2}
            ex = Exit(how, kind, retval, self.freeze(penv), cs, w)
            exits.setdefault(ex.key(), ex)

        def raise_from(node: Node, kind: str, env: dict, cs: Any, w: int) -> None:
            where, payload = cfg.dispatch(kind, node.ctx)
            w2 = self._witness(w, ("raise", kind, f"{fi.module.relpath}:{node.lineno}", fi.qual, self._node_label(cfg, node)))
            if where == "handler":
                env2 = dict(env)
                self._drop_temps(env2)
                env2[("$exc", payload.id)] = ("x", kind)
                if payload.name:
                    self._assign(env2, (payload.name,), ("x", kind))
                push(payload.entry, env2, cs, w2)
            elif where == "finally":
                env2 = dict(env)
                self._drop_temps(env2)
                env2[("$pend", payload.pend)] = ("x", kind)
                push(payload.entry, env2, cs, w2)
            else:
                add_exit("raise", kind, None, env, cs, w2)

        live = cfg.live_in()

        def push(nid: int, env: dict, cs: Any, w: int) -> None:
            lv = live[nid]
            refs = [(p, v) for p, v in env.items() if p[0] == "$ref"]
            if refs:
                # what a live holder object refers to stays live with it
                lv = lv | {"$ref"} | {v[1][0] for p, v in refs if p[1] in lv or p[1] in params}
                refs_dead = [p for p, v in refs if p[1] not in lv and p[1] not in params]
            else:
                refs_dead = []
            dead = [
                p
                for p, v in env.items()
                if p[0] not in params and ((v == KILL) or (not is_temp(p) and p[0] not in lv) or (p[0] == "$alias" and (p[1] not in lv or (v[1][0] not in lv and v[1][0] not in params))))
            ] + refs_dead
            if dead:
                env = dict(env)
                for p in dead:
                    del env[p]
            k = (nid, self.freeze(env), cs)
            if k in seen:
                return
            seen.add(k)
            work.append((nid, env, cs, w))

        def go(node: Node, env: dict, cs: Any, w: int, label: str = "n") -> None:
            for lab, t in node.succ:
                if lab == label:
                    push(t, env, cs, w)

        seen.add((cfg.entry, self.freeze(env0), cstate0))
        while work:
            nid, env, cs, w = work.pop()
            node = cfg.nodes[nid]
            self.stats["node_states"] += 1
            if self.stats["node_states"] > 700_000 or (self.stats["node_states"] % 4096 == 0 and self._over_budget()):
                # the pinned tree needs at most ~300 000 states (C11); beyond that the analysis gives up instead of
                # running for a quarter of an hour: no verdict (exit 2), never a silent pass
                raise AnalysisError("state explosion in abstract interpreter")
            k = node.kind
            if k in ("entry", "nop", "def"):
                go(node, env, cs, w)
            elif k == "exit":
                rv = env.get(("$ret",))
                add_exit("return", None, None if rv == KILL else rv, env, cs, w)
            elif k == "call":
                self._do_call(cfg, node, env, cs, w, stack, go, raise_from)
            elif k == "await":
                self._do_await(cfg, node, env, cs, w, stack, go, raise_from)
            elif k == "store":
                env2 = dict(env)
                val = self.ev(node.info["value"], env, cfg)
                ev = Event("store", node, cfg, self, env, stack)
                cs2 = self.client.on_event(ev, cs)
                if node.info["aug"] is not None:
                    for t in node.info["targets"]:
                        p = self.path_of(t)
                        if p is not None:
                            self._kill(env2, p)
                else:
                    for t in node.info["targets"]:
                        self._assign_target(env2, t, val, cfg)
                    src = node.info["value"]
                    if isinstance(src, ast.Call) and len(node.info["targets"]) == 1 and isinstance(node.info["targets"][0], ast.Name):
                        h = node.info["targets"][0].id
                        for fld, arg in self._holder_refs(src, fi).items():
                            if isinstance(arg, ast.Name) and arg.id != h and (arg.id in params or arg.id in self.prog.func_locals(fi)):
                                for q in [q for q in env2 if q[:2] == (h, fld)]:
                                    del env2[q]
                                env2[("$ref", h, fld)] = ("al", (arg.id,))
                    if val is None and len(node.info["targets"]) == 1 and isinstance(node.info["targets"][0], ast.Name) and isinstance(src, ast.Attribute):
                        sp = self.path_of(src)
                        if sp is not None and sp[0] != node.info["targets"][0].id and (sp[0] in params or sp[0] in self.prog.func_locals(fi)):
                            env2[("$alias", node.info["targets"][0].id)] = ("al", sp)
                if not isinstance(node.ast, ast.NamedExpr):
                    self._drop_temps(env2)  # a walrus sits inside a larger expression: its temporaries stay live
                go(node, env2, cs2, w)
            elif k == "test":
                cond = node.info["cond"]
                ev = Event("test", node, cfg, self, env, stack)
                for br, lab in ((True, "T"), (False, "F")):
                    if not br and node.info.get("assert"):
                        continue
                    env2 = self.refine(cond, br, env, cfg)
                    if env2 is None:
                        continue
                    if env2 is env:
                        env2 = dict(env)
                    cs2 = self.client.on_branch(Event("test", node, cfg, self, env2, stack), cs, br)
                    if not node.info.get("value_ctx"):
                        self._drop_temps(env2, keep_from=cond)
                    w2 = self._witness(w, ("branch", ast.unparse(cond), br, f"{fi.module.relpath}:{node.lineno}"))
                    go(node, env2, cs2, w2, lab)
            elif k == "iter":
                ev = Event("iter", node, cfg, self, env, stack)
                if self.client.relevant_iter(ev):
                    body, done = self.client.loop_edges(ev)
                    cs2 = self.client.on_event(ev, cs)
                else:
                    body, done, cs2 = True, True, cs
                if body:
                    env2 = dict(env)
                    self._assign_target(env2, node.info["target"], None, cfg)
                    go(node, env2, cs2, w, "body")
                if done:
                    go(node, dict(env), cs2, w, "done")
            elif k == "return":
                env2 = dict(env)
                val = self.ev(node.info["value"], env, cfg) if node.info["value"] is not None else ("c", None)
                ev = Event("return", node, cfg, self, env, stack)
                cs2 = self.client.on_event(ev, cs)
                self._drop_temps(env2)
                env2[("$ret",)] = val if val is not None else KILL
                go(node, env2, cs2, w)
            elif k == "raise":
                ev = Event("raise", node, cfg, self, env, stack)
                cs2 = self.client.on_event(ev, cs)
                for kind in self._raise_kinds(cfg, node, env):
                    raise_from(node, kind, env, cs2, w)
            elif k == "handler":
                ev = Event("handler", node, cfg, self, env, stack)
                cs2 = self.client.on_event(ev, cs)
                go(node, env, cs2, w)
            elif k == "finally_exc":
                go(node, env, cs, w)
            elif k == "reraise_pending":
                pk = env.get(("$pend", node.info["pend"]))
                if pk is None:
                    raise AnalysisError("finally without pending exception")
                env2 = dict(env)
                del env2[("$pend", node.info["pend"])]
                raise_from(node, pk[1], env2, cs, w)
            elif k in ("with_enter", "with_exit"):
                ev = Event(k, node, cfg, self, env, stack)
                cs2 = self.client.on_event(ev, cs)
                go(node, env, cs2, w)
            else:
                raise AnalysisError(f"unknown node kind {k}")
        return list(exits.values())

    def _node_label(self, cfg: CFG, node: Node) -> str:
        if node.kind == "call":
            tgs = self.prog.resolve_call(node.ast, cfg.func)
            return "call " + "/".join(t.label() for t in tgs)
        if node.kind == "raise":
            return "reraise" if node.info["exc"] is None else "raise " + ast.unparse(node.info["exc"])[:60]
        if node.kind == "await":
            return "await " + ast.unparse(node.ast.value)[:60]
        if node.kind == "reraise_pending":
            return "reraise"
        return node.kind

    def _drop_temps(self, env: dict, keep_from: ast.AST | None = None) -> None:
        keep: set[int] = set()
        if keep_from is not None:
            for n in ast.walk(keep_from):
                if isinstance(n, ast.Call):
                    keep.add(id(n))
        for p in [p for p in env if p[0] == "$r" and p[1] not in keep]:
            del env[p]

    def _raise_kinds(self, cfg: CFG, node: Node, env: dict) -> list[str]:
        exc = node.info["exc"]
        if exc is None:
            hid = node.info["handler"]
            v = env.get(("$exc", hid)) if hid is not None else None
            if v is None:
                raise AnalysisError(f"{cfg.func.where(node.ast)}: bare raise outside handler")
            return [v[1]]
        k = self.kinds.raise_kind(exc, cfg.func)
        if k is not None:
            return [k]
        v = self.ev(exc, env, cfg)
        if v is None and isinstance(exc, ast.Call) and isinstance(exc.func, ast.Attribute) and exc.func.attr == "with_traceback":
            v = self.ev(exc.func.value, env, cfg)  # e.with_traceback(tb) is e
        if v is not None and v[0] == "x":
            return [v[1]]
        if v is not None and v[0] == "i" and v[1] is not None:
            ci = self.prog.classes.get(v[1])
            if ci is not None and ci.name in self.kinds.parent:
                return [ci.name]
        # an exception *value* of unknown kind (state.last_exc...): any Exception kind
        return [k for k in self.kinds.parent if self.kinds.is_sub(k, "Exception") and k != "Exception"]

    # ------------------------------------------------------------------ calls
    def _bind(self, call: ast.Call, target: Target, env: dict, cfg: CFG) -> tuple[dict, list[tuple[str, Path]]]:
        """callee entry env and the by-reference (param, caller path) links"""
        fi = target.func
        assert fi is not None
        pos = fi.positional_params()
        names = fi.param_names()
        new: dict = {}
        links: list[tuple[str, Path]] = []
        bound: set[str] = set()

        def bind(pname: str, e: ast.expr | None, val: Any = None) -> None:
            bound.add(pname)
            if e is not None:
                val = self.ev(e, env, cfg)
                p = self.path_of(e)
                if p is not None and not (isinstance(val, tuple) and val and val[0] in ("c", "e")):
                    links.append((pname, p))
            self._assign(new, (pname,), val)
            if new.get((pname,)) == KILL:
                del new[(pname,)]

        i0 = 0
        if target.kind == "ctor":
            bind(pos[0], None, ("i", target.cls.qual, ()))  # type: ignore[union-attr]
            i0 = 1
        elif fi.is_method and not fi.is_staticmethod:
            if target.self_expr is not None:
                if fi.is_classmethod:
                    bound.add(pos[0])
                else:
                    bind(pos[0], target.self_expr)
                i0 = 1
            elif fi.is_classmethod:
                bound.add(pos[0])
                i0 = 1
        for j, a in enumerate(call.args):
            if isinstance(a, ast.Starred):
                continue
            if i0 + j < len(pos):
                bind(pos[i0 + j], a)
        for kw in call.keywords:
            if kw.arg is not None and kw.arg in names:
                bind(kw.arg, kw.value)
        for pname, d in fi.param_defaults().items():
            if pname not in bound:
                cfg_callee = self.cfgs.get(fi)
                v = self.ev(d, {}, cfg_callee)
                if v is not None:
                    self._assign(new, (pname,), v)
        if fi.parent is not None and fi.parent is cfg.func:
            # a closure of the calling function: its free variables are the caller's locals, read (and written through)
            # at the time of the call
            own = set(self.prog.func_locals(fi))
            outer = self.prog.func_locals(cfg.func)
            free = {n.id for n in ast.walk(fi.node) if isinstance(n, ast.Name) and isinstance(n.ctx, ast.Load) and n.id not in own and n.id in outer}
            for name in sorted(free):
                if name not in bound:
                    bind(name, ast.copy_location(ast.Name(id=name, ctx=ast.Load()), call))
        return new, links

    def _apply_exit_env(self, env: dict, ex: Exit, links: list[tuple[str, Path]]) -> dict:
        env2 = dict(env)
        exenv = dict(ex.env)
        for pname, cpath in links:
            n = 1
            for p, v in exenv.items():
                if p[0] != pname or len(p) < 2:
                    continue
                tgt = self._canon(env2, cpath + p[1:])
                if v == KILL:
                    self._clear(env2, tgt)
                    env2[tgt] = KILL
                else:
                    # exact path write (do not clear siblings)
                    for q in [q for q in env2 if q[: len(tgt)] == tgt and len(q) > len(tgt)]:
                        if v[0] in ("c", "e", "nn", "x", "t"):
                            del env2[q]
                    env2[tgt] = v
        return env2

    def _do_call(self, cfg: CFG, node: Node, env: dict, cs: Any, w: int, stack: tuple, go, raise_from) -> None:
        call: ast.Call = node.ast
        fi = cfg.func
        self.stats["calls"] += 1
        targets = self.prog.resolve_call(call, fi)
        if isinstance(call.func, ast.Name) and all(t.kind in ("unknown", "callback") for t in targets):
            fv = self.ev(call.func, env, cfg)
            if fv is not None and fv[0] == "f" and fv[1] in self.prog.funcs:
                targets = [Target("repo", func=self.prog.funcs[fv[1]], via="function value")]
        for tg in targets:
            ev = Event("call", node, cfg, self, env, stack, target=tg, category=tg.category)
            self.stats["events"] += 1
            if tg.kind in ("repo", "ctor") and tg.func is not None:
                callee = tg.func
                if callee.is_async and not node.info.get("awaited") and tg.kind == "repo":
                    # creates a coroutine object; nothing runs
                    cs2 = self.client.on_event(Event("call_noawait", node, cfg, self, env, stack, target=tg), cs)
                    env2 = dict(env)
                    go(node, env2, cs2, w)
                    continue
                depth_ok = self.client.max_depth is None or len(stack) < self.client.max_depth
                if depth_ok and self.client.descend(callee, ev):
                    cs_in = self.client.on_event(Event("enter", node, cfg, self, env, stack, target=tg), cs)
                    cenv, links = self._bind(call, tg, env, cfg)
                    rd = self.prog.reads(callee)
                    if tg.kind != "ctor" or callee.qual in self._known_ctor_quals():
                        # (a constructor that did not exist when the rules were written keeps everything: the object it
                        # builds may capture its arguments, and what is known about them must survive inside it)
                        cenv = {p: v for p, v in cenv.items() if len(p) < 2 or p[-1] in rd or p[-1] == "$type" or self._is_param_object(cenv.get(p[:-1] + ("$type",)))}
                    w1 = self._witness(w, ("call", callee.qual, f"{fi.module.relpath}:{node.lineno}"))
                    exits = self.run(callee, cenv, cs_in, stack + ((fi.qual, node.lineno),))
                    for ex in exits:
                        env2 = self._apply_exit_env(env, ex, links)
                        w2 = self._witness(w1, ("callee-exit", callee.qual, ex.how, ex.kind, ex.witness))
                        if ex.how == "return":
                            rv = ex.retval
                            if tg.kind == "ctor":
                                rec = dict(ex.env)
                                selfname = callee.positional_params()[0]
                                tmp: dict = {}
                                for p, v in rec.items():
                                    if p[0] == selfname:
                                        tmp[("$o",) + p[1:]] = v
                                rv = self.record_at(tmp, ("$o",)) or ("i", tg.cls.qual, ())  # type: ignore[union-attr]
                            cs2 = self.client.on_callee_exit(ev, ex.cstate, "return")
                            env2[("$r", id(call))] = rv if rv is not None else KILL
                            go(node, env2, cs2, w2)
                        else:
                            cs2 = self.client.on_callee_exit(ev, ex.cstate, ex.kind or "")
                            raise_from(node, ex.kind, env2, cs2, w2)  # type: ignore[arg-type]
                    continue
                # opaque repository call
                cs2 = self.client.on_event(ev, cs)
                for kind in self.client.opaque_kinds(callee, ev):
                    raise_from(node, kind, env, self.client.on_event_exc(ev, cs, kind), w)
                env2 = dict(env)
                env2[("$r", id(call))] = KILL
                go(node, env2, cs2, self._witness(w, ("opaque-call", callee.qual, f"{fi.module.relpath}:{node.lineno}")))
                continue
            if tg.kind == "ctor":
                # dataclass / plain class without __init__: record of constant fields
                ci = tg.cls
                assert ci is not None
                cs2 = self.client.on_event(ev, cs)
                fields = {}
                order = self.prog.all_fields(ci)
                for j, a in enumerate(call.args):
                    if j < len(order):
                        fields[order[j]] = self.ev(a, env, cfg)
                for kw in call.keywords:
                    if kw.arg:
                        fields[kw.arg] = self.ev(kw.value, env, cfg)
                for f in order:
                    if f not in fields:
                        d = self.prog.field_default(ci, f)
                        if d is not None:
                            fields[f] = self.ev(d, {}, cfg)
                rec = ("i", ci.qual, tuple(sorted((k, v) for k, v in fields.items() if v is not None)))
                env2 = dict(env)
                env2[("$r", id(call))] = rec
                go(node, env2, cs2, w)
                continue
            if tg.kind == "callback":
                cat = tg.category or "?"
                cs_ok = self.client.on_event(ev, cs)
                for kind in self.client.callback_kinds(cat, ev):
                    raise_from(node, kind, env, self.client.on_event_exc(ev, cs, kind), w)
                for rv in self.client.callback_results(cat, ev) or [None]:
                    env2 = dict(env)
                    env2[("$r", id(call))] = rv if rv is not None else ("cbret", cat)  # an opaque value that remembers whose result it is
                    go(node, env2, cs_ok, self._witness(w, ("callback", cat, f"{fi.module.relpath}:{node.lineno}", rv)))
                continue
            # lib / unknown
            name = tg.name or "?"
            if tg.kind == "unknown":
                self.unknown_calls.append(f"{fi.module.relpath}:{node.lineno}:{name}")
            ev.category = None
            cs_ok = self.client.on_event(ev, cs)
            for kind in self.client.lib_kinds(name, ev):
                raise_from(node, kind, env, self.client.on_event_exc(ev, cs, kind), w)
            env2 = dict(env)
            rv = self._lib_value(call, name, env, cfg)
            env2[("$r", id(call))] = rv if rv is not None else KILL
            go(node, env2, cs_ok, w)

    def _lib_value(self, call: ast.Call, name: str, env: dict, cfg: CFG) -> Any:
        if name == "typing.cast" and len(call.args) == 2:
            return self.ev(call.args[1], env, cfg)
        if isinstance(call.func, ast.Attribute) and call.func.attr == "get" and 1 <= len(call.args) <= 2 and not call.keywords:
            # lookup in a constant dispatch table with a known key
            tab = self.ev(call.func.value, env, cfg)
            key = self.ev(call.args[0], env, cfg)
            if tab is not None and tab[0] == "d" and key is not None and key[0] in ("c", "e"):
                for k, v in tab[1]:
                    if k == key:
                        return v
                return self.ev(call.args[1], env, cfg) if len(call.args) == 2 else ("c", None)
        if name.endswith(("dataclasses.replace", "._replace")) or name == "replace":
            # dataclasses.replace(rec, f=v, ...) / namedtuple._replace(f=v): a copy of the record with those fields changed
            base_e = call.args[0] if call.args and not name.endswith("._replace") else (call.func.value if isinstance(call.func, ast.Attribute) else None)
            base = self.ev(base_e, env, cfg) if base_e is not None else None
            if base is not None and base[0] == "i":
                fields = dict(base[2])
                for kw in call.keywords:
                    if kw.arg is None:
                        return None
                    v = self.ev(kw.value, env, cfg)
                    if v is None:
                        fields.pop(kw.arg, None)
                    else:
                        fields[kw.arg] = v
                return ("i", base[1], tuple(sorted(fields.items())))
        return None

    def _do_await(self, cfg: CFG, node: Node, env: dict, cs: Any, w: int, stack: tuple, go, raise_from) -> None:
        of = node.info.get("of")
        fi = cfg.func
        category: str | None = None
        more_cats: list[str] = []
        real = True
        aw: ast.Await = node.ast
        if of is not None:
            callnode = cfg.nodes[of]
            tgs = self.prog.resolve_call(callnode.ast, fi)
            if all(t.kind == "repo" and t.func is not None and t.func.is_async for t in tgs):
                real = False
            else:
                for t in tgs:
                    if t.kind == "callback":
                        category = t.category
                if category is None:
                    # lib awaitable wrapping a callback call: asyncio.wait_for(func(), ...)
                    for sub in ast.walk(callnode.ast):
                        if isinstance(sub, ast.Call) and sub is not callnode.ast:
                            for t in self.prog.resolve_call(sub, fi):
                                if t.kind == "callback":
                                    category = t.category
        else:
            # what is awaited: first by value (the result of a user callable carries its role through parameters and
            # helpers - exact per calling context), then by declared type, then by def-use in this function
            val = self.ev(aw.value, env, cfg)
            if val is not None and val[0] == "cbret":
                category = val[1]
            else:
                t = self.prog.type_of(aw.value, fi)
                cats = sorted({a[1][6:] for a in t if a[0] == "ext" and a[1].startswith("cbret:")})
                if len(cats) == 1:
                    category = cats[0]
                elif len(cats) > 1:
                    more_cats = cats  # several roles reach this await: the faults of each of them (never an arbitrary one)
                if category is None and not more_cats:
                    category = self._await_category_by_defuse(cfg, aw.value)
        ev = Event("await", node, cfg, self, env, stack, category=category, real=real)
        env2 = dict(env)
        if of is not None:
            rv = env.get(("$r", id(cfg.nodes[of].ast)))
            env2[("$r", id(aw))] = rv if rv is not None else KILL
        if not real:
            go(node, env2, cs, w)
            return
        cs_ok = self.client.on_event(ev, cs)
        kinds: list[str] = []
        for c in (more_cats or [category]):
            for kind in self.client.await_kinds(c, ev):
                if kind not in kinds:
                    kinds.append(kind)
        for kind in kinds:
            raise_from(node, kind, env, self.client.on_event_exc(ev, cs, kind), w)
        go(node, env2, cs_ok, w)

    def _await_category_by_defuse(self, cfg: CFG, e: ast.expr) -> str | None:
        """`result = hook(...); await result` -> category of hook (flow-insensitive)"""
        if not isinstance(e, ast.Name):
            return None
        cats = set()
        for n in self.prog._own_nodes(cfg.func.node):
            if isinstance(n, ast.Assign) and len(n.targets) == 1 and isinstance(n.targets[0], ast.Name) and n.targets[0].id == e.id:
                if isinstance(n.value, ast.Call):
                    for t in self.prog.resolve_call(n.value, cfg.func):
                        if t.kind == "callback":
                            cats.add(t.category)
        return sorted(cats)[0] if len(cats) == 1 else None
