"""E8 (small) - bounds of symbolic terms built from min / max / + / * / conditional.

No numbers are computed from the program: the functions return *which terms* bound a
term from above, and the greatest *constant* known to bound it from below, given facts
read off the path (terms known to be > 0 / >= 0, terms known to be finite).
Real arithmetic; IEEE rounding and NaN are outside (the callers establish finiteness
through the path's `math.isfinite` literal first).
"""

from __future__ import annotations

from fractions import Fraction
from typing import Any, Iterable


def is_call(t: Any, name: str) -> bool:
    return isinstance(t, tuple) and t and t[0] == "pure" and t[1] == name


def lower_bounds(t: Any, order: Iterable[tuple] = ()) -> set:
    """terms l with l <= t; `order` lists known facts (a, b) meaning a <= b"""
    out = {t}
    for a, b in order:
        if b == t:
            out |= lower_bounds(a, [o for o in order if o != (a, b)])
    if is_call(t, "max"):
        for a in t[2]:
            out |= lower_bounds(a, order)
    elif is_call(t, "min"):
        common = None
        for a in t[2]:
            lb = lower_bounds(a, order)
            common = lb if common is None else (common & lb)
        out |= common or set()
    elif isinstance(t, tuple) and t and t[0] == "ite":
        out |= lower_bounds(t[2], order) & lower_bounds(t[3], order)
    return out


def upper_bounds_o(t: Any, order: Iterable[tuple] = ()) -> set:
    out = upper_bounds(t)
    more = set()
    for u in out:
        for a, b in order:
            if a == u:
                more.add(b)
    return out | more


def upper_bounds(t: Any) -> set:
    """terms u with t <= u (over the reals)"""
    out = {t}
    if is_call(t, "min"):
        for a in t[2]:
            out |= upper_bounds(a)
    elif is_call(t, "max"):
        common = None
        for a in t[2]:
            ub = upper_bounds(a)
            common = ub if common is None else (common & ub)
        out |= common or set()
    elif isinstance(t, tuple) and t and t[0] == "ite":
        out |= upper_bounds(t[2]) & upper_bounds(t[3])
    return out


def lower_const(t: Any, nonneg: Iterable[Any] = (), call_args=None) -> Fraction | None:
    """greatest constant c known with c <= t; `nonneg` are terms known to be >= 0;
    `call_args(term)` gives the arguments of a random.uniform call term"""
    nn = set(nonneg)
    if t in nn:
        return Fraction(0)
    if not isinstance(t, tuple) or not t:
        return None
    if t[0] == "const" and isinstance(t[1], (int, float)) and not isinstance(t[1], bool):
        if t[1] != t[1] or t[1] in (float("inf"), float("-inf")):
            return None
        return Fraction(t[1])
    if is_call(t, "max"):
        vals = [lower_const(a, nn, call_args) for a in t[2]]
        vals = [v for v in vals if v is not None]
        return max(vals) if vals else None
    if is_call(t, "min"):
        vals = [lower_const(a, nn, call_args) for a in t[2]]
        return None if any(v is None for v in vals) or not vals else min(vals)
    if is_call(t, "float") or is_call(t, "abs"):
        if is_call(t, "abs"):
            return Fraction(0)
        return lower_const(t[2][0], nn, call_args) if t[2] else None
    if t[0] == "ite":
        a, b = lower_const(t[2], nn, call_args), lower_const(t[3], nn, call_args)
        return None if a is None or b is None else min(a, b)
    if t[0] == "op" and t[1] == "+":
        a, b = lower_const(t[2], nn, call_args), lower_const(t[3], nn, call_args)
        return None if a is None or b is None else a + b
    if t[0] == "op" and t[1] in ("*", "/"):
        a, b = lower_const(t[2], nn, call_args), lower_const(t[3], nn, call_args)
        if a is not None and b is not None and a >= 0 and b >= 0:
            return Fraction(0)
        return None
    if t[0] == "call" and str(t[2]) == "lib:random.uniform" and call_args is not None:
        args = call_args(t)
        if args and len(args) == 2:
            a, b = lower_const(args[0], nn, call_args), lower_const(args[1], nn, call_args)
            return None if a is None or b is None else min(a, b)
        return None
    if t[0] == "bool" and t[1] == "or":
        vals = [lower_const(a, nn, call_args) for a in t[2]]
        return None if any(v is None for v in vals) else min(vals)
    return None
