"""E2 - control-flow graph with exception contexts.

One graph per function, built by a syntax-directed translation of the statement kinds
the repository uses.  Nodes are *evaluation events* in Python's evaluation order:

    entry, exit (normal), exit_exc (exception escapes)
    call      one per ast.Call (arguments already evaluated); info['awaited']
    await     one per ast.Await (a suspension point unless it awaits a repo coroutine)
    store     assignment (after the right-hand side events)
    test      atomic condition with successors labelled 'T' / 'F'
              (and/or/not and conditional expressions are decomposed)
    iter      `for` head with successors 'body' / 'done'
    return, raise (bare raise carries the id of its lexically enclosing handler)
    handler   entry of an except clause (binds the exception kind)
    finally_exc / reraise_pending   exceptional copy of a `finally` body
    with_enter / with_exit, def, nop

Exception flow is not encoded as explicit edges: every node carries the id of its
*exception context* (chain of enclosing try/finally frames) and `dispatch(kind, ctx)`
computes where an exception of that kind raised at that node continues.  `finally`
bodies are duplicated per continuation (normal, exceptional, return/break/continue).
"""

from __future__ import annotations

import ast
from dataclasses import dataclass, field
from typing import Any

from .kinds import Kinds
from .model import AnalysisError, FuncInfo, Program

End = tuple[int, str]  # dangling out-edge (node id, label)


@dataclass
class Node:
    id: int
    kind: str
    ast: Any
    ctx: int | None
    info: dict = field(default_factory=dict)
    succ: list[tuple[str, int]] = field(default_factory=list)

    @property
    def lineno(self) -> int:
        return getattr(self.ast, "lineno", 0) if self.ast is not None else 0


@dataclass
class Handler:
    id: int
    classes: list[str]
    name: str | None
    entry: int
    node: ast.ExceptHandler


@dataclass
class Ctx:
    id: int
    parent: int | None
    type: str  # 'try' | 'finally' | 'with'
    handlers: list[Handler] = field(default_factory=list)
    entry: int | None = None  # finally: entry of the exceptional copy
    pend: int | None = None
    with_item: Any = None


def _is_event(n: ast.AST) -> bool:
    return isinstance(n, (ast.Call, ast.Await, ast.Yield, ast.YieldFrom, ast.NamedExpr))


def has_events(e: ast.AST | None) -> bool:
    if e is None:
        return False
    stack = [e]
    while stack:
        n = stack.pop()
        if isinstance(n, ast.Lambda):
            continue
        if _is_event(n):
            return True
        stack.extend(ast.iter_child_nodes(n))
    return False


class CFG:
    def __init__(self, prog: Program, kinds: Kinds, fi: FuncInfo) -> None:
        self.prog = prog
        self.kinds = kinds
        self.func = fi
        self.nodes: list[Node] = []
        self.ctxs: list[Ctx] = []
        self.handlers: dict[int, Handler] = {}
        self._frames: list[dict] = []
        self._cur_ctx: int | None = None
        self._handler_stack: list[int] = []
        self._nh = 0
        self.call_node: dict[int, int] = {}  # id(ast.Call) -> node id
        self.entry = self._new("entry", fi.node)
        self.exit = self._new("exit", None)
        self.exit_exc = self._new("exit_exc", None)
        body = fi.node.body
        if isinstance(fi.node, ast.Lambda):
            raise AnalysisError("lambda CFG not supported")
        ends = self._stmts(body, [(self.entry, "n")])
        if ends:
            r = self._new("return", None, implicit=True, value=None)
            self._connect(ends, r)
            self._edge(r, "n", self.exit)

    # ------------------------------------------------------------------ plumbing
    def _new(self, kind: str, node: Any, **info: Any) -> int:
        n = Node(len(self.nodes), kind, node, self._cur_ctx, dict(info))
        self.nodes.append(n)
        return n.id

    def _edge(self, a: int, label: str, b: int) -> None:
        self.nodes[a].succ.append((label, b))

    def _connect(self, ends: list[End], target: int) -> None:
        for a, lab in ends:
            self._edge(a, lab, target)

    def _then(self, ends: list[End], kind: str, node: Any, **info: Any) -> list[End]:
        n = self._new(kind, node, **info)
        self._connect(ends, n)
        return [(n, "n")]

    def _new_ctx(self, type_: str, **kw: Any) -> Ctx:
        c = Ctx(len(self.ctxs), self._cur_ctx, type_, **kw)
        self.ctxs.append(c)
        return c

    # ------------------------------------------------------------------ expressions
    def _expr(self, e: ast.AST | None, ends: list[End]) -> list[End]:
        if e is None or not has_events(e):
            return ends
        if isinstance(e, ast.Lambda):
            return ends
        if isinstance(e, ast.Call):
            f = e.func
            if isinstance(f, ast.Attribute):
                ends = self._expr(f.value, ends)
            elif not isinstance(f, ast.Name):
                ends = self._expr(f, ends)
            for a in e.args:
                ends = self._expr(a, ends)
            for k in e.keywords:
                ends = self._expr(k.value, ends)
            n = self._new("call", e, awaited=False)
            self.call_node[id(e)] = n
            self._connect(ends, n)
            return [(n, "n")]
        if isinstance(e, ast.Await):
            ends = self._expr(e.value, ends)
            of = None
            if isinstance(e.value, ast.Call):
                of = self.call_node[id(e.value)]
                self.nodes[of].info["awaited"] = True
            return self._then(ends, "await", e, of=of)
        if isinstance(e, ast.BoolOp):
            # value-level and/or whose operands contain events
            out: list[End] = []
            cur = ends
            for i, v in enumerate(e.values):
                cur = self._expr(v, cur)
                if i == len(e.values) - 1:
                    out.extend(cur)
                    break
                t = self._new("test", v, cond=v, value_ctx=True)
                self._connect(cur, t)
                if isinstance(e.op, ast.And):
                    cur = [(t, "T")]
                    out.append((t, "F"))
                else:
                    cur = [(t, "F")]
                    out.append((t, "T"))
            return out
        if isinstance(e, ast.IfExp):
            t_ends, f_ends = self._cond(e.test, ends, value_ctx=True)
            a = self._expr(e.body, t_ends)
            b = self._expr(e.orelse, f_ends)
            return a + b
        if isinstance(e, (ast.ListComp, ast.SetComp, ast.GeneratorExp, ast.DictComp)):
            cur = ends
            for g in e.generators:
                cur = self._expr(g.iter, cur)
            # element / condition events may run any number of times: model as an
            # optional loop around them
            head = self._new("nop", e, comp=True)
            self._connect(cur, head)
            inner: list[End] = [(head, "n")]
            for g in e.generators:
                for c in g.ifs:
                    # a filter is a branch: the element expression runs under it (`f(x) for x in xs if isinstance(x, str)`)
                    inner, skipped = self._cond(c, inner)
                    self._connect(skipped, head)
            if isinstance(e, ast.DictComp):
                inner = self._expr(e.key, inner)
                inner = self._expr(e.value, inner)
            else:
                inner = self._expr(e.elt, inner)
            self._connect(inner, head)
            return [(head, "n")]
        if isinstance(e, ast.NamedExpr):
            ends = self._expr(e.value, ends)
            return self._then(ends, "store", e, targets=[e.target], value=e.value, aug=None)
        if isinstance(e, (ast.Yield, ast.YieldFrom)):
            raise AnalysisError(f"{self.func.where(e)}: generators are not modelled")
        for ch in ast.iter_child_nodes(e):
            ends = self._expr(ch, ends)
        return ends

    def _cond(self, e: ast.expr, ends: list[End], value_ctx: bool = False) -> tuple[list[End], list[End]]:
        if isinstance(e, ast.BoolOp):
            if isinstance(e.op, ast.And):
                f_all: list[End] = []
                cur = ends
                for v in e.values:
                    t, f = self._cond(v, cur, value_ctx)
                    f_all.extend(f)
                    cur = t
                return cur, f_all
            t_all: list[End] = []
            cur = ends
            for v in e.values:
                t, f = self._cond(v, cur, value_ctx)
                t_all.extend(t)
                cur = f
            return t_all, cur
        if isinstance(e, ast.UnaryOp) and isinstance(e.op, ast.Not):
            t, f = self._cond(e.operand, ends, value_ctx)
            return f, t
        ends = self._expr(e, ends)
        n = self._new("test", e, cond=e, value_ctx=value_ctx)
        self._connect(ends, n)
        return [(n, "T")], [(n, "F")]

    def _desugar_match(self, st: ast.Match) -> list[ast.stmt]:
        """`match` over value / singleton / or / class() / wildcard patterns as the equivalent if-chain
        (value patterns compare with ==, singletons with `is`, class patterns with isinstance)"""
        pre: list[ast.stmt] = []
        subj: ast.expr = st.subject
        def simple(x: ast.expr) -> bool:
            # re-evaluating these in every case test is the same as evaluating them once
            if isinstance(x, (ast.Name, ast.Constant)):
                return True
            if isinstance(x, ast.Attribute):
                return simple(x.value)
            if isinstance(x, ast.Tuple):
                return all(simple(y) for y in x.elts)
            return isinstance(x, ast.Call) and isinstance(x.func, ast.Name) and x.func.id == "len" and len(x.args) == 1 and not x.keywords and isinstance(x.args[0], ast.Name)

        if not simple(subj):
            tmp = ast.Name(id=f"__match_{st.lineno}", ctx=ast.Store())
            pre.append(ast.copy_location(ast.Assign(targets=[tmp], value=subj, lineno=st.lineno), st))
            subj = ast.Name(id=tmp.id, ctx=ast.Load())

        def conj(parts: list[ast.expr | None]) -> ast.expr | None:
            parts = [x for x in parts if x is not None]
            if not parts:
                return None
            return parts[0] if len(parts) == 1 else ast.BoolOp(op=ast.And(), values=parts)

        def test(p: ast.pattern, subj: ast.expr = subj, binds: list | None = None) -> ast.expr | None:
            """None = always matches; captures (`case C(x=name)`) are appended to `binds` as (name, expr)"""
            if isinstance(p, ast.MatchValue):
                return ast.Compare(left=subj, ops=[ast.Eq()], comparators=[p.value])
            if isinstance(p, ast.MatchSingleton):
                return ast.Compare(left=subj, ops=[ast.Is()], comparators=[ast.Constant(value=p.value)])
            if isinstance(p, ast.MatchOr):
                inner: list = []
                parts = [test(x, subj, inner) for x in p.patterns]
                if inner:
                    raise AnalysisError(f"{self.func.where(st)}: captures inside an or-pattern are not modelled")
                if any(x is None for x in parts):
                    return None
                return ast.BoolOp(op=ast.Or(), values=parts)
            if isinstance(p, ast.MatchClass):
                # `case C(a=P, ...)`: isinstance(subject, C) and each attribute matches its sub-pattern; positional
                # sub-patterns follow __match_args__, which for a dataclass / NamedTuple is the field order
                names: list[str] = list(p.kwd_attrs)
                subs: list[ast.pattern] = list(p.kwd_patterns)
                if p.patterns:
                    ty = self.prog.type_of(p.cls, self.func)
                    cls = [self.prog.classes[a[1]] for a in ty if a[0] == "type" and a[1] in self.prog.classes]
                    order = self.prog.all_fields(cls[0]) if len(cls) == 1 else []
                    if len(order) < len(p.patterns):
                        raise AnalysisError(f"{self.func.where(st)}: positional class pattern of {ast.unparse(p.cls)}: __match_args__ unknown")
                    names = order[: len(p.patterns)] + names
                    subs = list(p.patterns) + subs
                parts = [ast.Call(func=ast.Name(id="isinstance", ctx=ast.Load()), args=[subj, p.cls], keywords=[])]
                for nm, sp in zip(names, subs):
                    parts.append(test(sp, ast.Attribute(value=subj, attr=nm, ctx=ast.Load()), binds))
                return conj(parts)
            if isinstance(p, ast.MatchAs):
                inner_t = test(p.pattern, subj, binds) if p.pattern is not None else None
                if p.name is not None:
                    if binds is None:
                        raise AnalysisError(f"{self.func.where(st)}: capture pattern `{p.name}` is not modelled here")
                    binds.append((p.name, subj))
                return inner_t
            raise AnalysisError(f"{self.func.where(st)}: match pattern {type(p).__name__} is not modelled")

        chain: list[ast.stmt] = []
        cur = chain
        for case in st.cases:
            binds: list = []
            t = test(case.pattern, subj, binds)
            body = [ast.copy_location(ast.Assign(targets=[ast.Name(id=nm, ctx=ast.Store())], value=ex, lineno=case.pattern.lineno), case.pattern) for nm, ex in binds] + list(case.body)
            if case.guard is not None:
                if binds:
                    raise AnalysisError(f"{self.func.where(st)}: a guard over captured names is not modelled")
                t = case.guard if t is None else ast.BoolOp(op=ast.And(), values=[t, case.guard])
            if t is None:
                cur.extend(body)
                break
            node = ast.If(test=t, body=body, orelse=[])
            ast.copy_location(node, case.pattern)
            ast.fix_missing_locations(node)
            cur.append(node)
            cur = node.orelse
        for n in pre + chain:
            ast.fix_missing_locations(n)
        return pre + chain

    # ------------------------------------------------------------------ statements
    def _stmts(self, body: list[ast.stmt], ends: list[End]) -> list[End]:
        for st in body:
            if not ends:
                break  # unreachable code after return/raise
            ends = self._stmt(st, ends)
        return ends

    def _unwind(self, ends: list[End], until: dict | None, what: str) -> list[End]:
        """Inline the finally bodies crossed by return/break/continue."""
        saved_frames = self._frames
        saved_ctx = self._cur_ctx
        i = len(saved_frames) - 1
        while i >= 0:
            fr = saved_frames[i]
            if fr is until:
                break
            if fr["type"] == "finally" and not fr.get("in_finally"):
                self._frames = saved_frames[:i]
                self._cur_ctx = fr["outer_ctx"]
                ends = self._stmts(fr["body"], ends)
            elif fr["type"] == "with":
                self._frames = saved_frames[:i]
                self._cur_ctx = fr["outer_ctx"]
                ends = self._then(ends, "with_exit", fr["node"], how=what)
            i -= 1
        self._frames = saved_frames
        self._cur_ctx = saved_ctx
        return ends

    def _first_match(self, st: ast.stmt) -> list[ast.stmt] | None:
        """`x = next((E for T in TABLE if C), D)` / `return next(...)` with TABLE a name, E and C without effects:
        the search loop it abbreviates - `x = D; for T in TABLE: if C: x = E; break` (first match wins)"""
        val = st.value if isinstance(st, (ast.Assign, ast.AnnAssign, ast.Return)) else None
        if not (isinstance(val, ast.Call) and isinstance(val.func, ast.Name) and val.func.id == "next" and len(val.args) == 2 and not val.keywords and isinstance(val.args[0], ast.GeneratorExp)):
            return None
        g = val.args[0]
        if len(g.generators) != 1 or g.generators[0].is_async or has_events(val.args[1]) or any(isinstance(n, (ast.Await, ast.NamedExpr, ast.Yield, ast.YieldFrom, ast.Lambda, ast.GeneratorExp, ast.ListComp, ast.SetComp, ast.DictComp)) for n in ast.walk(g.generators[0].iter)):
            return None  # (the iterable may be any plain expression: a `for` evaluates it once, like the generator does)
        gen = g.generators[0]

        def effect_free(e: ast.AST) -> bool:
            for n in ast.walk(e):
                if isinstance(n, (ast.Await, ast.NamedExpr, ast.Yield, ast.YieldFrom, ast.Lambda, ast.GeneratorExp, ast.ListComp, ast.SetComp, ast.DictComp)):
                    return False
                if isinstance(n, ast.Call) and not (isinstance(n.func, ast.Name) and n.func.id in ("isinstance", "len", "str", "int", "type", "callable", "getattr", "hasattr")) and not (isinstance(n.func, ast.Attribute) and n.func.attr in ("startswith", "endswith", "lower", "upper", "strip", "get")):
                    return False
            return True

        if not effect_free(g.elt) or not all(effect_free(c) for c in gen.ifs):
            return None
        if isinstance(st, ast.Assign) and len(st.targets) == 1 and isinstance(st.targets[0], ast.Name):
            tgt = st.targets[0].id
        elif isinstance(st, ast.AnnAssign) and isinstance(st.target, ast.Name):
            tgt = st.target.id
        elif isinstance(st, ast.Return):
            tgt = f"__first_{st.lineno}_{st.col_offset}"
            self.prog.func_locals(self.func)[tgt] = frozenset({("ext", "object")})
        else:
            return None
        name = lambda ctx: ast.Name(id=tgt, ctx=ctx)  # noqa: E731
        hit: list[ast.stmt] = [ast.Assign(targets=[name(ast.Store())], value=g.elt), ast.Break()]
        test: ast.expr = gen.ifs[0] if len(gen.ifs) == 1 else (ast.BoolOp(op=ast.And(), values=list(gen.ifs)) if gen.ifs else ast.Constant(value=True))
        loop = ast.For(target=gen.target, iter=gen.iter, body=[ast.If(test=test, body=hit, orelse=[])] if gen.ifs else hit, orelse=[])
        out: list[ast.stmt] = [ast.Assign(targets=[name(ast.Store())], value=val.args[1]), loop]
        if isinstance(st, ast.Return):
            out.append(ast.Return(value=name(ast.Load())))
        for n in out:
            for sub in ast.walk(n):
                if getattr(sub, "lineno", None) is None:
                    ast.copy_location(sub, st)
            ast.fix_missing_locations(n)
        return out

    def _table_dispatch(self, st: ast.stmt) -> list[ast.stmt] | None:
        """`x = TABLE.get(key, default)` with TABLE a dict display bound once at the top of this module (at most 12
        constant / enum keys) and `key` a plain name or attribute chain: the if-chain the table abbreviates
        (`if key == K1: x = V1 elif ... else: x = default`) - a decision written as data"""
        import copy

        val = st.value if isinstance(st, (ast.Assign, ast.AnnAssign)) else None
        if not (isinstance(val, ast.Call) and isinstance(val.func, ast.Attribute) and val.func.attr == "get" and isinstance(val.func.value, ast.Name) and 1 <= len(val.args) <= 2 and not val.keywords):
            return None
        tname = val.func.value.id
        if tname in self.prog.func_locals(self.func):
            return None
        m = self.func.module
        table = m.assigns.get(tname)
        if not isinstance(table, ast.Dict) or not table.keys or len(table.keys) > 12 or any(k is None for k in table.keys):
            return None
        if sum(1 for n in ast.walk(m.tree) if isinstance(n, ast.Name) and n.id == tname and isinstance(n.ctx, (ast.Store, ast.Del))) != 1:
            return None
        key = val.args[0]

        def chain(e: ast.expr) -> bool:
            return isinstance(e, ast.Name) or (isinstance(e, ast.Attribute) and chain(e.value))

        def const_like(e: ast.expr) -> bool:
            return isinstance(e, ast.Constant) or chain(e)

        if not chain(key) or not all(const_like(k) for k in table.keys) or not all(const_like(v) for v in table.values):
            return None
        if len(val.args) == 2 and has_events(val.args[1]):
            return None
        if isinstance(st, ast.Assign) and len(st.targets) == 1 and isinstance(st.targets[0], ast.Name):
            tgt = st.targets[0].id
        elif isinstance(st, ast.AnnAssign) and isinstance(st.target, ast.Name):
            tgt = st.target.id
        else:
            return None
        default: ast.expr = val.args[1] if len(val.args) == 2 else ast.Constant(value=None)
        store = lambda v: ast.Assign(targets=[ast.Name(id=tgt, ctx=ast.Store())], value=copy.deepcopy(v))  # noqa: E731
        node: list[ast.stmt] = [store(default)]
        for k, v in reversed(list(zip(table.keys, table.values))):
            test = ast.Compare(left=copy.deepcopy(key), ops=[ast.Eq()], comparators=[copy.deepcopy(k)])
            node = [ast.If(test=test, body=[store(v)], orelse=node)]
        for n in node:
            for sub in ast.walk(n):
                ast.copy_location(sub, st)
            ast.fix_missing_locations(n)
        return node

    def _stmt(self, st: ast.stmt, ends: list[End]) -> list[End]:
        fm = self._first_match(st)
        if fm is None:
            fm = self._table_dispatch(st)
        if fm is not None:
            return self._stmts(fm, ends)
        if isinstance(st, ast.Expr):
            if isinstance(st.value, ast.Constant):
                return ends
            return self._expr(st.value, ends)
        if isinstance(st, ast.Assign):
            ends = self._expr(st.value, ends)
            for t in st.targets:
                ends = self._target_events(t, ends)
            return self._then(ends, "store", st, targets=list(st.targets), value=st.value, aug=None)
        if isinstance(st, ast.AnnAssign):
            if st.value is None:
                return ends
            ends = self._expr(st.value, ends)
            ends = self._target_events(st.target, ends)
            return self._then(ends, "store", st, targets=[st.target], value=st.value, aug=None)
        if isinstance(st, ast.AugAssign):
            ends = self._target_events(st.target, ends)
            ends = self._expr(st.value, ends)
            return self._then(ends, "store", st, targets=[st.target], value=st.value, aug=st.op)
        if isinstance(st, ast.Return):
            ends = self._expr(st.value, ends)
            ends = self._then(ends, "return", st, value=st.value, implicit=False)
            ends = self._unwind(ends, None, "return")
            self._connect(ends, self.exit)
            return []
        if isinstance(st, ast.Raise):
            ends = self._expr(st.exc, ends)
            ends = self._expr(st.cause, ends)
            hid = self._handler_stack[-1] if self._handler_stack else None
            n = self._new("raise", st, exc=st.exc, cause=st.cause, handler=hid if st.exc is None else None)
            self._connect(ends, n)
            return []
        if isinstance(st, ast.If):
            t, f = self._cond(st.test, ends)
            a = self._stmts(st.body, t)
            b = self._stmts(st.orelse, f)
            return a + b
        if isinstance(st, ast.While):
            head = self._new("nop", st, loop_head=True)
            self._connect(ends, head)
            n0 = len(self.nodes)
            t, f = self._cond(st.test, [(head, "n")])
            for i in range(n0, len(self.nodes)):
                if self.nodes[i].kind == "test":
                    self.nodes[i].info["loop_test_of"] = head
            fr = {"type": "loop", "head": head, "breaks": []}
            self._frames.append(fr)
            body_ends = self._stmts(st.body, t)
            self._frames.pop()
            self._connect(body_ends, head)
            out = self._stmts(st.orelse, f) if st.orelse else f
            return out + fr["breaks"]
        if isinstance(st, (ast.For, ast.AsyncFor)):
            ends = self._expr(st.iter, ends)
            head = self._new("iter", st, target=st.target, iter=st.iter)
            self._connect(ends, head)
            fr = {"type": "loop", "head": head, "breaks": []}
            self._frames.append(fr)
            body_ends = self._stmts(st.body, [(head, "body")])
            self._frames.pop()
            self._connect(body_ends, head)
            done: list[End] = [(head, "done")]
            out = self._stmts(st.orelse, done) if st.orelse else done
            return out + fr["breaks"]
        if isinstance(st, ast.Continue):
            fr = self._loop_frame(st)
            ends = self._unwind(ends, fr, "continue")
            self._connect(ends, fr["head"])
            return []
        if isinstance(st, ast.Break):
            fr = self._loop_frame(st)
            ends = self._unwind(ends, fr, "break")
            fr["breaks"].extend(ends)
            return []
        if isinstance(st, ast.Try):
            return self._try(st, ends)
        if isinstance(st, ast.With) and len(st.items) == 1 and self._is_suppress(st.items[0].context_expr):
            # `with contextlib.suppress(A, B): body`  ==  try: body / except (A, B): pass
            call = st.items[0].context_expr
            typ: ast.expr = call.args[0] if len(call.args) == 1 else ast.Tuple(elts=list(call.args), ctx=ast.Load())
            handler = ast.ExceptHandler(type=typ, name=None, body=[ast.Pass()])
            synth = ast.Try(body=st.body, handlers=[handler], orelse=[], finalbody=[])
            for n in (handler, synth, typ):
                ast.copy_location(n, st)
            ast.fix_missing_locations(synth)
            return self._try(synth, ends)
        if isinstance(st, ast.With) and any(self._repo_cm(it.context_expr) for it in st.items):
            return self._stmts(self._desugar_with(st), ends)
        if isinstance(st, (ast.With, ast.AsyncWith)):
            for it in st.items:
                ends = self._expr(it.context_expr, ends)
            ends = self._then(ends, "with_enter", st, items=st.items)
            outer = self._cur_ctx
            c = self._new_ctx("with", with_item=st)
            fr = {"type": "with", "node": st, "outer_ctx": outer}
            self._frames.append(fr)
            self._cur_ctx = c.id
            ends = self._stmts(st.body, ends)
            self._cur_ctx = outer
            self._frames.pop()
            if ends:
                ends = self._then(ends, "with_exit", st, how="normal")
            return ends
        if isinstance(st, ast.Match):
            return self._stmts(self._desugar_match(st), ends)
        if isinstance(st, ast.Assert):
            ends = self._expr(st.test, ends)
            t, _f = self._cond(st.test, ends)
            for nid, _lab in _f:
                self.nodes[nid].info["assert"] = True
            return t
        if isinstance(st, (ast.FunctionDef, ast.AsyncFunctionDef, ast.ClassDef)):
            return self._then(ends, "def", st, name=st.name)
        if isinstance(st, (ast.Pass, ast.Import, ast.ImportFrom, ast.Global, ast.Nonlocal, ast.Delete)):
            return ends
        raise AnalysisError(f"{self.func.where(st)}: statement kind {type(st).__name__} is not modelled")

    def _repo_cm(self, e: ast.expr) -> bool:
        """the context expression is an instance of a repository class that defines __exit__ (not a lock, not a
        library context manager): what happens at the end of the block is code of the repository"""
        try:
            t = self.prog.type_of(e, self.func)
        except AnalysisError:
            return False
        cls = [self.prog.classes[a[1]] for a in t if a[0] == "cls" and a[1] in self.prog.classes]
        return bool(cls) and all(self.prog.find_method(c, "__exit__") is not None and self.prog.find_method(c, "__enter__") is not None for c in cls)

    def _desugar_with(self, st: ast.With) -> list[ast.stmt]:
        """PEP 343 expansion of `with CM() as v: body` for a repository context manager (outermost item first):

            cm = CM(); v = cm.__enter__(); ok = True
            try:
                try: body
                except BaseException as e:
                    ok = False
                    if not cm.__exit__(type(e), e, None): raise
            finally:
                if ok: cm.__exit__(None, None, None)
        """
        it, rest = st.items[0], st.items[1:]
        body: list[ast.stmt] = [ast.With(items=rest, body=st.body)] if rest else list(st.body)
        if not self._repo_cm(it.context_expr):
            inner = ast.With(items=rest, body=st.body)
            out = ast.With(items=[it], body=self._desugar_with(inner) if any(self._repo_cm(x.context_expr) for x in rest) else [inner])
            ast.copy_location(out, st)
            ast.fix_missing_locations(out)
            return [out]
        k = f"{st.lineno}_{st.col_offset}"
        cm, ok, ex = f"__cm_{k}", f"__ok_{k}", f"__exc_{k}"
        # the synthetic locals are typed like the expressions they stand for
        loc = self.prog.func_locals(self.func)
        loc[cm] = self.prog.type_of(it.context_expr, self.func)
        loc[ok] = frozenset({("ext", "bool")})
        loc[ex] = frozenset({("ext", "exception")})

        def name(n: str, store: bool = False) -> ast.Name:
            return ast.Name(id=n, ctx=ast.Store() if store else ast.Load())

        def call_exit(args: list[ast.expr]) -> ast.Call:
            return ast.Call(func=ast.Attribute(value=name(cm), attr="__exit__", ctx=ast.Load()), args=args, keywords=[])

        enter = ast.Call(func=ast.Attribute(value=name(cm), attr="__enter__", ctx=ast.Load()), args=[], keywords=[])
        pre: list[ast.stmt] = [ast.Assign(targets=[name(cm, True)], value=it.context_expr)]
        pre.append(ast.Assign(targets=[it.optional_vars], value=enter) if it.optional_vars is not None else ast.Expr(value=enter))
        pre.append(ast.Assign(targets=[name(ok, True)], value=ast.Constant(value=True)))
        handler = ast.ExceptHandler(
            type=name("BaseException"),
            name=ex,
            body=[
                ast.Assign(targets=[name(ok, True)], value=ast.Constant(value=False)),
                ast.If(test=ast.UnaryOp(op=ast.Not(), operand=call_exit([ast.Call(func=name("type"), args=[name(ex)], keywords=[]), name(ex), ast.Constant(value=None)])), body=[ast.Raise(exc=None, cause=None)], orelse=[]),
            ],
        )
        inner_try = ast.Try(body=body, handlers=[handler], orelse=[], finalbody=[])
        outer_try = ast.Try(body=[inner_try], handlers=[], orelse=[], finalbody=[ast.If(test=name(ok), body=[ast.Expr(value=call_exit([ast.Constant(value=None)] * 3))], orelse=[])])
        out = pre + [outer_try]
        for n in out:
            for sub in ast.walk(n):
                if not hasattr(sub, "lineno") or getattr(sub, "lineno", None) is None:
                    ast.copy_location(sub, st)
            ast.fix_missing_locations(n)
        return out

    def _is_suppress(self, e: ast.expr) -> bool:
        if not isinstance(e, ast.Call) or not e.args or e.keywords:
            return False
        t = self.prog.type_of(e.func, self.func)
        return any(a[0] == "ext" and a[1] in ("contextlib.suppress",) for a in t)

    def _target_events(self, t: ast.expr, ends: list[End]) -> list[End]:
        if isinstance(t, (ast.Attribute, ast.Subscript)):
            return self._expr(t, ends)
        if isinstance(t, (ast.Tuple, ast.List)):
            for e in t.elts:
                ends = self._target_events(e, ends)
        return ends

    def _loop_frame(self, st: ast.stmt) -> dict:
        for fr in reversed(self._frames):
            if fr["type"] == "loop":
                return fr
        raise AnalysisError(f"{self.func.where(st)}: break/continue outside loop")

    def _try(self, st: ast.Try, ends: list[End]) -> list[End]:
        outer_ctx = self._cur_ctx
        fin_ctx: Ctx | None = None
        fin_frame: dict | None = None
        if st.finalbody:
            # exceptional copy of the finally body, built in the outer context
            pend = len(self.ctxs)
            entry = self._new("finally_exc", st, pend=pend)
            f_ends = self._stmts(st.finalbody, [(entry, "n")])
            rr = self._new("reraise_pending", st, pend=pend)
            self._connect(f_ends, rr)
            fin_ctx = self._new_ctx("finally", entry=entry, pend=pend)
            fin_frame = {"type": "finally", "body": st.finalbody, "outer_ctx": outer_ctx}
            self._frames.append(fin_frame)
            self._cur_ctx = fin_ctx.id
        mid_ctx = self._cur_ctx
        try_ctx: Ctx | None = None
        if st.handlers:
            try_ctx = self._new_ctx("try")
            self._cur_ctx = try_ctx.id
        body_ends = self._stmts(st.body, ends)
        self._cur_ctx = mid_ctx
        if st.orelse:
            body_ends = self._stmts(st.orelse, body_ends)
        out = list(body_ends)
        if try_ctx is not None:
            for h in st.handlers:
                self._nh += 1
                hid = self._nh * 1000 + self.func.node.lineno  # unique within function
                classes = self.kinds.handler_classes(h.type, self.func)
                entry = self._new("handler", h, handler=hid, name=h.name, classes=classes)
                hd = Handler(hid, classes, h.name, entry, h)
                try_ctx.handlers.append(hd)
                self.handlers[hid] = hd
                self._handler_stack.append(hid)
                h_ends = self._stmts(h.body, [(entry, "n")])
                self._handler_stack.pop()
                out.extend(h_ends)
        if fin_ctx is not None:
            self._frames.pop()
            self._cur_ctx = outer_ctx
            if out:
                out = self._stmts(st.finalbody, out)
        self._cur_ctx = outer_ctx
        return out

    # ------------------------------------------------------------------ exception dispatch
    def dispatch(self, kind: str, ctx: int | None) -> tuple[str, Any]:
        """Where does an exception of `kind` raised in context `ctx` go?

        -> ('handler', Handler) | ('finally', Ctx) | ('escape', None)
        """
        c = ctx
        while c is not None:
            cx = self.ctxs[c]
            if cx.type == "try":
                for h in cx.handlers:
                    if self.kinds.catches(h.classes, kind):
                        return ("handler", h)
            elif cx.type == "finally":
                return ("finally", cx)
            c = cx.parent
        return ("escape", None)

    def ctx_chain(self, ctx: int | None) -> list[Ctx]:
        out = []
        c = ctx
        while c is not None:
            out.append(self.ctxs[c])
            c = self.ctxs[c].parent
        return out

    def in_with(self, node: Node) -> list[Any]:
        """with-statements (ast) lexically enclosing the node."""
        return [c.with_item for c in self.ctx_chain(node.ctx) if c.type == "with"]

    # ------------------------------------------------------------------ liveness of locals
    def _use_def(self, n: Node) -> tuple[set[str], set[str]]:
        uses: set[str] = set()
        defs: set[str] = set()

        def names(e: Any, into: set[str]) -> None:
            if e is None:
                return
            for x in ast.walk(e):
                if isinstance(x, ast.Name):
                    into.add(x.id)

        def target(t: Any) -> None:
            if isinstance(t, ast.Name):
                defs.add(t.id)
            elif isinstance(t, (ast.Tuple, ast.List)):
                for e in t.elts:
                    target(e)
            elif isinstance(t, ast.Starred):
                target(t.value)
            else:
                names(t, uses)

        k = n.kind
        if k == "call":
            names(n.ast, uses)
            f = n.ast.func if isinstance(n.ast, ast.Call) else None
            if isinstance(f, ast.Name) and f.id in self.func.nested:
                # a closure reads its free variables when it is called, not where it is defined
                for sub in self.func.nested.values():
                    names(sub.node, uses)
        elif k == "await":
            names(n.ast, uses)
        elif k == "store":
            names(n.info["value"], uses)
            for t in n.info["targets"]:
                target(t)
                if n.info["aug"] is not None:
                    names(t, uses)
        elif k == "test":
            names(n.info["cond"], uses)
        elif k == "iter":
            names(n.info["iter"], uses)
            target(n.info["target"])
        elif k == "return":
            names(n.info.get("value"), uses)
        elif k == "raise":
            names(n.info.get("exc"), uses)
            names(n.info.get("cause"), uses)
        elif k == "handler":
            pass  # the `as name` binding is made on the exception edge, before the handler node
        elif k == "with_enter":
            for it in n.info["items"]:
                names(it.context_expr, uses)
                if it.optional_vars is not None:
                    target(it.optional_vars)
        elif k == "def":
            names(n.ast, uses)
            defs.add(n.info["name"])
        return uses, defs

    def live_in(self) -> list[set[str]]:
        """classic backward liveness of local names; exception edges go to every handler
        entry / finally copy of the enclosing contexts (over-approximation = keeps more)"""
        if getattr(self, "_live", None) is not None:
            return self._live
        n = len(self.nodes)
        ud = [self._use_def(x) for x in self.nodes]
        succs: list[set[int]] = [set(t for _l, t in x.succ) for x in self.nodes]
        for x in self.nodes:
            if x.kind in ("call", "await", "raise", "reraise_pending", "store", "test", "iter", "return", "with_enter"):
                for c in self.ctx_chain(x.ctx):
                    if c.type == "try":
                        for h in c.handlers:
                            succs[x.id].add(h.entry)
                    elif c.type == "finally" and c.entry is not None:
                        succs[x.id].add(c.entry)
        live: list[set[str]] = [set() for _ in range(n)]
        changed = True
        while changed:
            changed = False
            for i in range(n - 1, -1, -1):
                out: set[str] = set()
                for t in succs[i]:
                    out |= live[t]
                new = ud[i][0] | (out - ud[i][1])
                if new != live[i]:
                    live[i] = new
                    changed = True
        self._live = live
        return live

    # ------------------------------------------------------------------ debugging
    def dump(self) -> str:
        lines = []
        for n in self.nodes:
            desc = ""
            if n.kind == "call":
                desc = ast.unparse(n.ast.func)
            elif n.kind == "test":
                desc = ast.unparse(n.info["cond"])
            elif n.kind in ("store",):
                desc = ast.unparse(n.ast)[:60]
            elif n.kind == "handler":
                desc = ",".join(n.info["classes"])
            lines.append(
                f"{n.id:3d} {n.kind:10s} L{n.lineno:<4d} ctx={n.ctx} {desc} -> "
                + " ".join(f"{lab}:{t}" for lab, t in n.succ)
            )
        return "\n".join(lines)


class CFGs:
    def __init__(self, prog: Program, kinds: Kinds | None = None) -> None:
        self.prog = prog
        self.kinds = kinds or Kinds(prog)
        self._cache: dict[str, CFG] = {}

    def get(self, fi: FuncInfo) -> CFG:
        g = self._cache.get(fi.qual)
        if g is None:
            g = CFG(self.prog, self.kinds, fi)
            self._cache[fi.qual] = g
        return g
