"""Shared lazily-built analysis context."""

from __future__ import annotations

from .cfg import CFGs
from .kinds import Kinds
from .model import Program, program
from .paths import PathEngine

_C: dict = {}


def cfgs(prog: Program | None = None) -> CFGs:
    prog = prog or program()
    if "cfgs" not in _C:
        _C["cfgs"] = CFGs(prog, Kinds(prog))
    return _C["cfgs"]


def engine(prog: Program | None = None) -> PathEngine:
    prog = prog or program()
    if "engine" not in _C:
        _C["engine"] = PathEngine(prog, cfgs(prog))
    return _C["engine"]
