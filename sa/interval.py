"""E8 - symbolic intervals with linear endpoints over non-negative symbols.

An endpoint is a linear form  c0 + sum ci * si  (Fractions) over named symbols that are all
known to be >= 0.  f <= g is decided when g - f has only non-negative coefficients and
constant; min / max of incomparable forms is `None` (unknown).  Real arithmetic.
"""

from __future__ import annotations

from fractions import Fraction
from typing import Any, Callable

Form = tuple  # (const, frozenset((sym, coeff)))


def form(c: Any = 0, **syms: Any) -> Form:
    return (Fraction(c), frozenset((k, Fraction(v)) for k, v in syms.items() if v != 0))


def add(f: Form, g: Form, sign: int = 1) -> Form:
    d = dict(f[1])
    for k, v in g[1]:
        d[k] = d.get(k, 0) + sign * v
    return (f[0] + sign * g[0], frozenset((k, v) for k, v in d.items() if v != 0))


def scale(f: Form, c: Fraction) -> Form:
    return (f[0] * c, frozenset((k, v * c) for k, v in f[1] if v * c != 0))


def le(f: Form, g: Form) -> bool:
    d = add(g, f, -1)
    return d[0] >= 0 and all(v >= 0 for _, v in d[1])


def fmin(f: Form | None, g: Form | None) -> Form | None:
    if f is None or g is None:
        return None
    if le(f, g):
        return f
    if le(g, f):
        return g
    return None


def fmax(f: Form | None, g: Form | None) -> Form | None:
    if f is None or g is None:
        return None
    if le(f, g):
        return g
    if le(g, f):
        return f
    return None


def interval(t: Any, syms: dict, call_args: Callable[[Any], list | None]) -> tuple[Form | None, Form | None]:
    """(lo, hi) of term t; `syms` maps terms to symbol names (each symbol >= 0);
    `call_args(term)` returns the arguments of a `random.uniform` call term"""
    if t in syms:
        f = form(0, **{syms[t]: 1})
        return f, f
    if not isinstance(t, tuple) or not t:
        return None, None
    if t[0] == "const" and isinstance(t[1], (int, float)) and not isinstance(t[1], bool):
        if t[1] != t[1] or abs(t[1]) == float("inf"):
            return None, None
        f = form(Fraction(t[1]))
        return f, f
    if t[0] == "op" and t[1] in ("+", "-"):
        a, b = interval(t[2], syms, call_args), interval(t[3], syms, call_args)
        if None in a or None in b:
            return None, None
        if t[1] == "+":
            return add(a[0], b[0]), add(a[1], b[1])
        return add(a[0], b[1], -1), add(a[1], b[0], -1)
    if t[0] == "op" and t[1] in ("*", "/"):
        a, b = interval(t[2], syms, call_args), interval(t[3], syms, call_args)
        if None in a or None in b:
            return None, None
        # one operand must be a non-negative constant
        for x, y in ((a, b), (b, a)):
            if not y[0][1] and y[0] == y[1] and y[0][0] >= 0 and (t[1] == "*" or y is b):
                c = y[0][0]
                if t[1] == "/":
                    if c == 0:
                        return None, None
                    c = 1 / c
                return scale(x[0], c), scale(x[1], c)
        return None, None
    if t[0] == "pure" and t[1] in ("min", "max") and len(t[2]) == 2:
        a, b = interval(t[2][0], syms, call_args), interval(t[2][1], syms, call_args)
        f = fmin if t[1] == "min" else fmax
        return f(a[0], b[0]), f(a[1], b[1])
    if t[0] == "pure" and t[1] == "float" and len(t[2]) == 1:
        return interval(t[2][0], syms, call_args)
    if t[0] == "call" and str(t[2]) == "lib:random.uniform":
        args = call_args(t)
        if args is None or len(args) != 2:
            return None, None
        a, b = interval(args[0], syms, call_args), interval(args[1], syms, call_args)
        return fmin(a[0], b[0]), fmax(a[1], b[1])
    return None, None
