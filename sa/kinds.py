"""Exception *kinds*: a finite partition of all exception objects.

Every concrete exception is represented by the most specific *named* class it is an
instance of, where the named classes are the ones below (builtins, asyncio and the
repository's own error types).  Two open kinds stand for everything else:

    OtherException   an Exception subclass instance that is not an instance of any named
                     Exception subclass
    OtherBase        a BaseException instance that is neither an Exception nor one of the
                     named BaseException subclasses

Handler matching is exact under this partition: `except C` catches kind K iff K is a
subclass of C in the table (the open kinds have Exception resp. BaseException as parent).
The true CPython 3.12 subclass relation is used; in particular CancelledError,
KeyboardInterrupt, SystemExit and GeneratorExit are *not* below Exception, and
concurrent.futures.TimeoutError / asyncio.TimeoutError are the builtin TimeoutError.
"""

from __future__ import annotations

import ast

from .model import AnalysisError, ClassInfo, FuncInfo, Program

# name -> parent
PARENT = {
    "BaseException": None,
    "Exception": "BaseException",
    "KeyboardInterrupt": "BaseException",
    "SystemExit": "BaseException",
    "GeneratorExit": "BaseException",
    "CancelledError": "BaseException",
    "OtherBase": "BaseException",
    "OtherException": "Exception",
    "ArithmeticError": "Exception",
    "OverflowError": "ArithmeticError",
    "ZeroDivisionError": "ArithmeticError",
    "AssertionError": "Exception",
    "AttributeError": "Exception",
    "ImportError": "Exception",
    "ModuleNotFoundError": "ImportError",
    "LookupError": "Exception",
    "IndexError": "LookupError",
    "KeyError": "LookupError",
    "OSError": "Exception",
    "TimeoutError": "OSError",
    "ConnectionError": "OSError",
    "RuntimeError": "Exception",
    "NotImplementedError": "RuntimeError",
    "RecursionError": "RuntimeError",
    "StopIteration": "Exception",
    "StopAsyncIteration": "Exception",
    "TypeError": "Exception",
    "ValueError": "Exception",
    "UnicodeError": "ValueError",
}

EXT_ALIASES = {
    "asyncio.CancelledError": "CancelledError",
    "asyncio.exceptions.CancelledError": "CancelledError",
    "concurrent.futures.CancelledError": "OtherException",  # distinct class, an Exception (via Error)
    "asyncio.TimeoutError": "TimeoutError",
    "concurrent.futures.TimeoutError": "TimeoutError",
    "concurrent.futures._base.TimeoutError": "TimeoutError",
    "builtins.TimeoutError": "TimeoutError",
}

CANCEL_KINDS = ("CancelledError", "KeyboardInterrupt", "SystemExit", "GeneratorExit")


class Kinds:
    def __init__(self, prog: Program) -> None:
        self.prog = prog
        self.parent: dict[str, str | None] = dict(PARENT)
        # repository exception classes
        for ci in prog.classes.values():
            for b in prog.ext_bases(ci) + [c.name for c in prog.mro(ci)[1:]]:
                pass
        changed = True
        while changed:
            changed = False
            for ci in prog.classes.values():
                if ci.name in self.parent:
                    continue
                par = self._class_parent(ci)
                if par is not None and par in self.parent:
                    self.parent[ci.name] = par
                    changed = True

    def _class_parent(self, ci: ClassInfo) -> str | None:
        for b in self.prog.bases(ci):
            if isinstance(b, ClassInfo):
                if b.name in self.parent:
                    return b.name
            else:
                n = b.split(".")[-1]
                if b in EXT_ALIASES:
                    return EXT_ALIASES[b]
                if n in self.parent:
                    return n
        return None

    # ------------------------------------------------------------------
    def is_sub(self, k: str, c: str) -> bool:
        cur: str | None = k
        while cur is not None:
            if cur == c:
                return True
            cur = self.parent.get(cur)
        return False

    def leaves_under(self, c: str) -> list[str]:
        return [k for k in self.parent if self.is_sub(k, c)]

    def resolve_class_expr(self, e: ast.expr, fi: FuncInfo) -> str:
        """Exception class expression -> kind name (AnalysisError if unknown)."""
        if isinstance(e, ast.Call):  # raise X(...)
            e = e.func
        if isinstance(e, ast.Name):
            k, p = self.prog.lookup_name(e.id, fi, fi.module)
            if k == "class":
                if p.name in self.parent:
                    return p.name
                raise AnalysisError(f"{fi.where(e)}: class {p.name} is not an exception class")
            if k == "ext":
                if p in EXT_ALIASES:
                    return EXT_ALIASES[p]
                n = p.split(".")[-1]
                if n in self.parent:
                    return n
                # unknown external exception class: an Exception we do not name
                return "OtherException"
            if k == "func" and getattr(p.node, "returns", None) is not None:
                # `raise build_error(...)`: a repository function declared to return an exception object
                ann = p.node.returns
                if isinstance(ann, ast.Constant) and isinstance(ann.value, str):
                    try:
                        ann = ast.parse(ann.value, mode="eval").body
                    except SyntaxError:
                        ann = None
                if isinstance(ann, (ast.Name, ast.Attribute)):
                    return self.resolve_class_expr(ann, p)
        if isinstance(e, ast.Attribute):
            dotted = ast.unparse(e)
            t = self.prog.type_of(e, fi)
            for a in t:
                if a[0] == "ext":
                    if a[1] in EXT_ALIASES:
                        return EXT_ALIASES[a[1]]
                    n = a[1].split(".")[-1]
                    if n in self.parent:
                        return n
                if a[0] == "type" and self.prog.classes[a[1]].name in self.parent:
                    return self.prog.classes[a[1]].name
            if dotted in EXT_ALIASES:
                return EXT_ALIASES[dotted]
            return "OtherException"
        raise AnalysisError(f"{fi.where(e)}: cannot resolve exception class {ast.unparse(e)}")

    def handler_classes(self, type_expr: ast.expr | None, fi: FuncInfo) -> list[str]:
        if type_expr is None:
            return ["BaseException"]
        if isinstance(type_expr, ast.Tuple):
            return [c for x in type_expr.elts for c in self.handler_classes(x, fi)]
        if isinstance(type_expr, ast.Name) and type_expr.id not in self.prog.func_locals(fi):
            # a module-level constant naming the class(es): `_STOP = (KeyboardInterrupt, SystemExit)`
            k, p = self.prog.lookup_name(type_expr.id, fi, fi.module)
            if k == "assign":
                m, val = p
                n_bind = sum(1 for n in ast.walk(m.tree) if (isinstance(n, ast.Name) and n.id == type_expr.id and isinstance(n.ctx, (ast.Store, ast.Del))) or (isinstance(n, ast.Global) and type_expr.id in n.names))
                if n_bind == 1 and isinstance(val, (ast.Tuple, ast.Name, ast.Attribute)):
                    stub = FuncInfo(f"{m.name}:<module>", m, ast.parse("def _m(): pass").body[0])
                    return self.handler_classes(val, stub)
        return [self.resolve_class_expr(type_expr, fi)]

    def catches(self, classes: list[str], kind: str) -> bool:
        return any(self.is_sub(kind, c) for c in classes)

    def raise_kind(self, exc: ast.expr, fi: FuncInfo) -> str | None:
        """Kind raised by `raise <exc>`; None when the operand is a value (variable)."""
        if isinstance(exc, ast.Call):
            f = exc.func
            if isinstance(f, ast.Attribute) and f.attr == "with_traceback":
                return None
            return self.resolve_class_expr(f, fi)
        if isinstance(exc, ast.Name):
            k, p = self.prog.lookup_name(exc.id, fi, fi.module)
            if k in ("class", "ext"):
                # `raise X` with a class
                loc = self.prog.func_locals(fi)
                if exc.id not in loc:
                    return self.resolve_class_expr(exc, fi)
        return None
