"""E7 - may-raise analysis with type guards over symbolic paths.

For a pure-ish function the engine walks every path of sa/paths.py in order, keeps *type
facts* about symbolic terms (from the declared input domain, annotations, `isinstance` /
`is None` / truthiness / `callable` guards on the path) and, for every operation that can
raise on the property's input domain, decides whether the operand types exclude the raising
case, whether a dominating guard excludes it, or whether the operation sits in a `try` whose
handlers catch the kind it may raise (cfg.dispatch).  What remains is a finding naming the
expression and the exception kind.

The table of raising operations is read off the CPython 3.12 documentation / source and was
spot-confirmed by hand (see DESIGN.md E7).  Pure library calls not in the table are assumed
not to raise (no MemoryError / RecursionError).
"""

from __future__ import annotations

import ast
import math
from dataclasses import dataclass, field
from fractions import Fraction
from typing import Any, Callable, Iterable

from .bounds import upper_bounds
from .cfg import CFG
from .model import AnalysisError, FuncInfo, Program
from .paths import PEvent, SymPath, linear, norm_less, show, subterms

# type atoms
N, B, I, F, S, Y, T, L, D, E, X, O, C, K, DT, TD, M, RE, Q = (
    "None", "Bool", "Int", "Float", "Str", "Bytes", "Tuple", "List", "Dict", "Set", "Exc", "Obj", "Callable", "Enum",
    "Datetime", "Timedelta", "UserContainer", "Match", "Deque",
)
ANY = frozenset({N, B, I, F, S, Y, T, L, D, E, X, O, C, K, DT, TD, RE, Q})
NUM = frozenset({B, I, F})
HASHABLE = frozenset({N, B, I, F, S, Y, X, O, C, K, DT, TD, RE})
SIZED = frozenset({S, Y, T, L, D, E, Q})
ITERABLE = frozenset({S, Y, T, L, D, E, Q})

STR_METHODS = {".lower", ".upper", ".strip", ".lstrip", ".rstrip", ".startswith", ".endswith", ".split", ".isdigit", ".encode", ".find", ".join", ".format"}
FLOAT_MAX = Fraction(1.7976931348623157e308)


def ann_type(prog: Program, ann: ast.expr | None, fi: FuncInfo) -> frozenset:
    """value types admitted by an annotation (numeric tower: float admits int)"""
    if ann is None:
        return ANY
    if isinstance(ann, ast.Constant):
        if ann.value is None:
            return frozenset({N})
        if isinstance(ann.value, str):
            try:
                return ann_type(prog, ast.parse(ann.value, mode="eval").body, fi)
            except SyntaxError:
                return ANY
    if isinstance(ann, ast.BinOp) and isinstance(ann.op, ast.BitOr):
        return ann_type(prog, ann.left, fi) | ann_type(prog, ann.right, fi)
    if isinstance(ann, ast.Subscript):
        base = ast.unparse(ann.value).split(".")[-1]
        if base in ("deque",):
            return frozenset({Q})
        if base in ("dict", "Mapping", "Dict", "defaultdict"):
            return frozenset({D})
        if base in ("tuple", "Tuple"):
            return frozenset({T})
        if base in ("list", "List"):
            return frozenset({L})
        if base in ("set", "Set", "frozenset"):
            return frozenset({E})
        if base in ("Callable",):
            return frozenset({C})
        if base in ("Iterable", "Sequence"):
            return frozenset({T, L})
        if base in ("Literal",):
            return frozenset({S})
        if base in ("Optional",):
            return ann_type(prog, ann.slice, fi) | {N}
        return ann_type(prog, ann.value, fi)
    if isinstance(ann, (ast.Name, ast.Attribute)):
        n = ast.unparse(ann).split(".")[-1]
        simple = {
            "int": {I, B}, "float": {F}, "str": {S}, "bool": {B}, "bytes": {Y}, "object": ANY, "Any": ANY,
            "BaseException": {X}, "Exception": {X}, "timedelta": {TD}, "datetime": {DT}, "None": {N}, "T": ANY,
        }
        if n in simple:
            return frozenset(simple[n])
        if isinstance(ann, ast.Name):
            k, p = prog.lookup_name(ann.id, fi, fi.module)
            if k == "class":
                if prog.is_enum(p):
                    return frozenset({K})
                if p.name in ("BackoffContext", "Classification") or p.is_dataclass or any(ast.unparse(b).split(".")[-1] == "NamedTuple" for b in p.node.bases):
                    return frozenset({("dc", p.qual)})  # (a NamedTuple is a record like a dataclass: annotated fields)
                if inst_fields(prog, p) is not None:
                    return frozenset({("inst", p.qual)})  # a plain class of the library whose fields are set in __init__
                return frozenset({O})
            if k == "assign":
                m2, val = p
                t = prog.parse_ann(ann, fi.module, fi=fi)
                if any(a[0] == "cb" for a in t):
                    return frozenset({C})
                return ann_type(prog, val, fi)
    return ANY


def inst_fields(prog: Program, ci: Any) -> dict | None:
    """field -> annotation (or None) of a plain class of the library: every `self.f = ...` / `self.f: T = ...` of its
    own `__init__`; None when the class customises attribute access or has no `__init__` of its own"""
    init = ci.methods.get("__init__")
    if init is None or any(m in ci.methods for m in ("__getattr__", "__getattribute__", "__setattr__")) or len(prog.mro(ci)) > 1:
        return None
    sn = init.param_names()[0] if init.param_names() else None
    out: dict = {}
    for n in prog._own_nodes(init.node):
        if isinstance(n, ast.AnnAssign) and isinstance(n.target, ast.Attribute) and isinstance(n.target.value, ast.Name) and n.target.value.id == sn:
            out[n.target.attr] = n.annotation
        elif isinstance(n, ast.Assign):
            for t in n.targets:
                if isinstance(t, ast.Attribute) and isinstance(t.value, ast.Name) and t.value.id == sn:
                    out.setdefault(t.attr, None)
    return out or None


@dataclass
class Obligation:
    node: Any
    expr: str
    kinds: tuple
    why: str
    discharged_by: str | None = None
    caught: tuple = ()
    escaping: tuple = ()
    cfg: Any = None
    frames: tuple = ()


class MayRaise:
    def __init__(self, prog: Program, cfg: CFG, fi: FuncInfo, domain: dict[str, frozenset] | None = None,
                 nonneg: Iterable[Any] = (), call_types: dict[str, frozenset] | None = None,
                 free_types: dict[str, frozenset] | None = None, trusted: dict[str, frozenset] | None = None) -> None:
        self.trusted = dict(trusted or {})
        self.prog = prog
        self.cfg = cfg
        self.fi = fi
        self.domain = dict(domain or {})
        self.nonneg = set(nonneg)
        self.call_types = dict(call_types or {})
        self.free_types = dict(free_types or {})
        self.K = cfg.kinds
        self.examined: dict[str, str] = {}

    def note(self, t: Any, kind: str) -> None:
        self.examined.setdefault(f"{kind}: {show(t)[:90]}", kind)

    # ------------------------------------------------------------------ typing
    def base_type(self, t: Any, facts: dict, events: dict) -> frozenset:
        if t in facts:
            return facts[t]
        if not isinstance(t, tuple) or not t:
            return ANY
        k = t[0]
        if k == "const":
            v = t[1]
            if v is None:
                return frozenset({N})
            return frozenset({{bool: B, int: I, float: F, str: S, bytes: Y}.get(type(v), O)})
        if k == "enum":
            return frozenset({K})
        if k == "global" and str(t[1]) in ("math.inf", "math.nan", "math.pi", "math.e", "math.tau"):
            return frozenset({F})
        if k == "global" and ":" in str(t[1]):
            mod, name = t[1].split(":", 1)
            m = self.prog.modules.get(mod)
            val = m.assigns.get(name) if m is not None else None
            if isinstance(val, ast.Dict):
                return frozenset({D})
            if isinstance(val, (ast.Set,)):
                return frozenset({E})
            if isinstance(val, (ast.Tuple,)):
                return frozenset({T})
            return ANY
        if k == "param":
            if t[1] in self.domain:
                return self.domain[t[1]]
            for p in self.fi.params():
                if p.arg == t[1]:
                    return ann_type(self.prog, p.annotation, self.fi)
            return ANY
        if k == "free":
            if t[1] in self.free_types:
                return self.free_types[t[1]]
            f = self.fi.parent
            while f is not None:
                for p in f.params():
                    if p.arg == t[1]:
                        return ann_type(self.prog, p.annotation, f)
                f = f.parent
            return self.comp_target_type(t[1])
        if k == "attr":
            bt = self.type_of(t[1], facts, events)
            out: set = set()
            for a in bt:
                if isinstance(a, tuple) and a[0] == "dc":
                    ci = self.prog.classes[a[1]]
                    ann = None
                    for c in self.prog.mro(ci):
                        if t[2] in c.field_ann:
                            ann = c.field_ann[t[2]]
                            break
                    meth = self.prog.find_method(ci, t[2])
                    if ann is not None:
                        out |= ann_type(self.prog, ann, ci.methods.get("__init__") or self.fi)
                    elif meth is not None and meth.is_property:
                        out |= ann_type(self.prog, meth.node.returns, meth)
                    else:
                        out |= ANY
                elif isinstance(a, tuple) and a[0] == "inst":
                    ci = self.prog.classes[a[1]]
                    flds = inst_fields(self.prog, ci) or {}
                    if flds.get(t[2]) is not None:
                        out |= ann_type(self.prog, flds[t[2]], ci.methods["__init__"])
                    else:
                        out |= ANY
                elif a == X and t[2] == "args":
                    out.add(T)
                elif a == DT and t[2] == "tzinfo":
                    out |= {N, O}
                elif a == K and t[2] in ("name", "value"):
                    out.add(S)
                elif t[2] == "__name__" and t[1][0] == "pure" and t[1][1] == "type":
                    out.add(S)
                else:
                    out |= ANY
            if t[1] == ("param", "self") and self.fi.cls is not None:
                ci = self.fi.cls
                ann = None
                for c in self.prog.mro(ci):
                    if t[2] in c.field_ann:
                        ann = c.field_ann[t[2]]
                if ann is not None:
                    return ann_type(self.prog, ann, self.fi)
            return frozenset(out) if out else ANY
        if k == "pure":
            return self.pure_type(t, facts, events)
        if k in ("cmp", "not", "truth"):
            return frozenset({B})
        if k == "bool":
            out = set()
            for i, x in enumerate(t[2]):
                tx = self.type_of(x, facts, events)
                if t[1] == "or" and i < len(t[2]) - 1:
                    tx = tx - {N}  # `None or y` evaluates to y
                out |= tx
            return frozenset(out)
        if k == "ite":
            return self.type_of(t[2], facts, events) | self.type_of(t[3], facts, events)
        if k == "op":
            a, b = self.type_of(t[2], facts, events), self.type_of(t[3], facts, events)
            if t[1] == "/":
                return frozenset({F})
            if a <= NUM and b <= NUM:
                return frozenset({F}) if (F in a or F in b) and not (a <= {I, B} and b <= {I, B}) else (frozenset({I}) if a <= {I, B} and b <= {I, B} else frozenset({I, F}))
            if a <= {DT} and b <= {DT} and t[1] == "-":
                return frozenset({TD})
            if a <= {S} and b <= {S} and t[1] == "+":
                return frozenset({S})
            return ANY
        if k == "un":
            return self.type_of(t[2], facts, events)
        if k == "tuple":
            return frozenset({T})
        if k in ("set",):
            return frozenset({E})
        if k in ("dict",):
            return frozenset({D})
        if k == "call":
            lab = str(t[2])
            for suffix, ty in self.call_types.items():
                if lab.endswith(suffix):
                    return ty
            if lab == "lib:time.monotonic" or lab == "lib:random.uniform" or lab == "lib:random.random":
                return frozenset({F})
            for cat, ty in self.trusted.items():
                if lab == f"callback:{cat}" or lab.startswith(f"callback:{cat}/"):
                    return ty
            if lab == "lib:email.utils.parsedate_to_datetime":
                return frozenset({DT, N})
            if lab.startswith("lib:datetime.datetime.now"):
                return frozenset({DT})
            ev = events.get(t)
            if ev is not None:
                for tg in ev.targets:
                    if tg.func is not None:
                        return ann_type(self.prog, tg.func.node.returns, tg.func)
            return ANY
        if k == "sub":
            ann = self.elem_ann(t)
            if ann is not None:
                return ann_type(self.prog, ann, self.fi)
            return ANY
        if k == "fresh":
            return facts.get(("elem", t), ANY)
        if k == "exc":
            return frozenset({X})
        if k in ("comp", "lambda"):
            return ANY
        return ANY

    def comp_target_type(self, name: str) -> frozenset:
        """type of a comprehension variable: the element type of what it iterates over - a parameter annotated
        `Iterable[X]` / `list[X]`, or a local bound once to a comprehension whose element is a regex search"""
        def comps_of(fn: FuncInfo) -> list:
            return [(fn, g) for n in ast.walk(fn.node) if isinstance(n, (ast.ListComp, ast.SetComp, ast.GeneratorExp, ast.DictComp)) for g in n.generators if isinstance(g.target, ast.Name) and g.target.id == name]

        comps = comps_of(self.fi)
        if not comps:
            # the variable of a comprehension in a helper that was inlined here (same package)
            pkg = self.fi.module.name.rsplit(".", 1)[0]
            comps = [c for fn in {id(f): f for f in self.prog.funcs.values()}.values() if fn is not self.fi and fn.module.name.rsplit(".", 1)[0] == pkg for c in comps_of(fn)]
        if len(comps) != 1:
            return ANY
        owner, g0 = comps[0]
        it = g0.iter
        if isinstance(it, ast.Name):
            binds = [n.value for n in self.prog._own_nodes(owner.node) if isinstance(n, ast.Assign) and len(n.targets) == 1 and isinstance(n.targets[0], ast.Name) and n.targets[0].id == it.id]
            if len(binds) == 1:
                it = binds[0]
            else:
                for p in owner.params():
                    if p.arg == it.id and isinstance(p.annotation, ast.Subscript) and ast.unparse(p.annotation.value).split(".")[-1] in ("Iterable", "Sequence", "list", "List", "Iterator", "Collection"):
                        return ann_type(self.prog, p.annotation.slice, owner)
                return ANY
        if isinstance(it, (ast.ListComp, ast.SetComp, ast.GeneratorExp)):
            elt = it.elt
            if isinstance(elt, ast.Call) and isinstance(elt.func, ast.Attribute) and elt.func.attr in ("search", "match", "fullmatch") and not elt.keywords:
                return frozenset({RE, N})
            if isinstance(elt, ast.Call) and isinstance(elt.func, ast.Name) and elt.func.id == "str":
                return frozenset({S})
        return ANY

    def term_ann(self, t: Any) -> ast.expr | None:
        """annotation AST of a term, when it is an annotated attribute of self / a dataclass"""
        if t[0] == "attr" and t[1] == ("param", "self") and self.fi.cls is not None:
            for c in self.prog.mro(self.fi.cls):
                if t[2] in c.field_ann:
                    return c.field_ann[t[2]]
            for m in self.fi.cls.methods.values():
                for n in self.prog._own_nodes(m.node):
                    if isinstance(n, ast.AnnAssign) and isinstance(n.target, ast.Attribute) and n.target.attr == t[2]:
                        return n.annotation
        if t[0] == "param":
            for p in self.fi.params():
                if p.arg == t[1]:
                    return p.annotation
        if t[0] == "sub":
            return self.elem_ann(t)
        if t[0] == "attr":
            # a field of a plain library class reached through an annotated field (`self._events._times`)
            ba = self.term_ann(t[1])
            if isinstance(ba, ast.Name):
                k2, p2 = self.prog.lookup_name(ba.id, self.fi, self.fi.module)
                if k2 == "class":
                    flds = inst_fields(self.prog, p2) or {}
                    return flds.get(t[2])
        return None

    def elem_ann(self, t: Any) -> ast.expr | None:
        base = self.term_ann(t[1])
        for _ in range(3):
            # a module-level type alias (`_Outcome = tuple[float, bool]`) stands for what it names
            if isinstance(base, ast.Name):
                k, p = self.prog.lookup_name(base.id, self.fi, self.fi.module)
                if k == "assign" and isinstance(p[1], (ast.Subscript, ast.Name, ast.BinOp)):
                    base = p[1]
                    continue
            break
        if isinstance(base, ast.Subscript):
            head = ast.unparse(base.value).split(".")[-1]
            sl = base.slice
            if head in ("deque", "list", "List", "Sequence", "Iterable"):
                return sl
            if head in ("tuple", "Tuple") and isinstance(sl, ast.Tuple) and t[2][0] == "const" and isinstance(t[2][1], int) and t[2][1] < len(sl.elts):
                return sl.elts[t[2][1]]
            if head in ("dict", "Dict", "Mapping") and isinstance(sl, ast.Tuple) and len(sl.elts) == 2:
                return sl.elts[1]
        return None

    def type_of(self, t: Any, facts: dict, events: dict) -> frozenset:
        ty = self.base_type(t, facts, events)
        return ty

    def pure_type(self, t: Any, facts: dict, events: dict) -> frozenset:
        name = t[1]
        args = t[2]
        if name == "str" or name in STR_METHODS or name in (".lower", ".strip", ".group"):
            return frozenset({S}) if name != ".group" else frozenset({S, N})
        if name in (".startswith", ".endswith", "isinstance", "callable", "hasattr", "math.isfinite", "bool", "inspect.isawaitable"):
            return frozenset({B})
        if name == "float":
            return frozenset({F})
        if name in ("int", "len", "id"):
            return frozenset({I})
        if name in ("max", "min"):
            out: set = set()
            for a in args:
                out |= self.type_of(a, facts, events)
            return frozenset(out)
        if name == "abs":
            return self.type_of(args[0], facts, events) if args else ANY
        if name == "getattr":
            return ANY
        if name == "type":
            return frozenset({O})
        if name == ".total_seconds":
            return frozenset({F})
        if name == "datetime.timedelta":
            return frozenset({TD})
        if name == ".replace":
            return self.type_of(args[0], facts, events) if args else ANY
        if name == ".search" or name == ".match":
            return frozenset({RE, N})
        if name == ".get":
            return ANY
        if name in ("tuple",):
            return frozenset({T})
        if name in ("dict",):
            return frozenset({D})
        if name in ("set", "frozenset"):
            return frozenset({E})
        if name in ("list", "sorted"):
            return frozenset({L})
        if name == "collections.deque" or name == "deque":
            return frozenset({Q})
        if name == "sum":
            return frozenset({I, F})
        if name.startswith("new "):
            cn = name[4:]
            if cn in self.K.parent:
                return frozenset({X})
            for ci in self.prog.classes.values():
                if ci.name == cn and ci.is_dataclass:
                    return frozenset({("dc", ci.qual)})
            return frozenset({O})
        if name == "typing.cast" and len(args) == 2:
            return self.type_of(args[1], facts, events)
        return ANY

    # ------------------------------------------------------------------ guards -> facts
    def class_types(self, c: Any) -> frozenset | None:
        if c[0] == "global":
            n = c[1].split(".")[-1].split(":")[-1]
            m = {
                "int": {I, B}, "float": {F}, "str": {S}, "bool": {B}, "bytes": {Y}, "tuple": {T}, "list": {L}, "dict": {D},
                "set": {E}, "Mapping": {D}, "type": {O},
            }
            if n in m:
                return frozenset(m[n])
            if n in self.K.parent:
                return frozenset({X})
            for ci in self.prog.classes.values():
                if ci.qual == c[1] or ci.name == n:
                    if self.prog.is_enum(ci):
                        return frozenset({K})
                    if ci.name in self.K.parent:
                        return frozenset({X})
                    return frozenset({("dc", ci.qual)}) if ci.is_dataclass else frozenset({O})
            if ":" in c[1]:
                # a module constant naming the classes: `_NUMBER_TYPES = (int, float)` / `_Number = int | float`
                mname, cname = c[1].split(":", 1)
                m2 = self.prog.modules.get(mname)
                val = m2.assigns.get(cname) if m2 is not None else None
                if isinstance(val, (ast.Tuple, ast.BinOp, ast.Name, ast.Attribute)):
                    def of_ast(v: ast.expr) -> frozenset | None:
                        if isinstance(v, ast.Tuple):
                            parts = [of_ast(x) for x in v.elts]
                            return None if any(x is None for x in parts) else frozenset().union(*parts)
                        if isinstance(v, ast.BinOp) and isinstance(v.op, ast.BitOr):
                            a2, b2 = of_ast(v.left), of_ast(v.right)
                            return None if a2 is None or b2 is None else a2 | b2
                        if isinstance(v, (ast.Name, ast.Attribute)):
                            nm = ast.unparse(v)
                            if nm == cname:
                                return None
                            return self.class_types(("global", nm if "." in nm else nm))
                        return None

                    return of_ast(val)
            return None
        if c[0] == "op" and c[1] == "|":
            a, b = self.class_types(c[2]), self.class_types(c[3])
            return None if a is None or b is None else a | b
        if c[0] == "tuple":
            out: set = set()
            for x in c[1]:
                a = self.class_types(x)
                if a is None:
                    return None
                out |= a
            return frozenset(out)
        return None

    def learn(self, atom: Any, pol: bool, facts: dict, events: dict, pos: list) -> None:
        if atom[0] == "pure" and atom[1] == "isinstance" and len(atom[2]) == 2:
            t, c = atom[2]
            ct = self.class_types(c)
            if ct is not None:
                cur = self.type_of(t, facts, events)
                if X in ct and X in cur:
                    # isinstance against one exception class does not decide others
                    if pol:
                        facts[t] = frozenset({X})
                    return
                facts[t] = (cur & ct) if pol else (cur - ct)
                if pol and not facts[t]:
                    facts[t] = ct
            return
        if atom[0] == "cmp" and atom[1] == "is" and atom[3] == ("const", None):
            if atom[2][0] == "attr" and atom[2][2] == "tzinfo" and not pol:
                facts[("aware", atom[2][1])] = True
            cur = self.type_of(atom[2], facts, events)
            facts[atom[2]] = frozenset({N}) if pol else (cur - {N})
            return
        if atom[0] == "pure" and atom[1] == "callable" and pol:
            facts[atom[2][0]] = frozenset({C})
            return
        def is_len(x: Any) -> Any:
            return x[2][0] if isinstance(x, tuple) and x and x[0] == "pure" and x[1] == "len" and len(x[2]) == 1 else None

        if atom[0] == "cmp" and atom[1] == "<":
            pos.append((atom, pol))
            # `len(xs) > 0` / `not len(xs) < 1`: the container is not empty
            if pol and atom[2] == ("const", 0) and is_len(atom[3]) is not None:
                pos.append((("nonempty", is_len(atom[3])), True))
            if not pol and atom[3] == ("const", 1) and is_len(atom[2]) is not None:
                pos.append((("nonempty", is_len(atom[2])), True))
            return
        if atom[0] == "cmp" and atom[1] == "==" and atom[3][0] == "const" and not pol:
            pos.append((atom, pol))
            if atom[3] == ("const", 0) and is_len(atom[2]) is not None:
                pos.append((("nonempty", is_len(atom[2])), True))  # `len(xs) != 0`
            return
        if atom[0] in ("param", "attr", "call", "pure", "bool", "free", "fresh", "sub") or atom[0] == "cmp":
            if pol and atom[0] != "cmp":
                cur = self.type_of(atom, facts, events)
                facts[atom] = cur - {N}
                pos.append((("nonempty", atom), True))

    # ------------------------------------------------------------------ obligations
    def positive(self, term: Any, pos: list) -> bool:
        """term > 0 established by an ordering literal of the path (linear normal form)"""
        lt = linear(term)
        if lt is None:
            return False
        if not lt[1]:
            return lt[0] > 0
        for atom, pol in pos:
            if atom[0] != "cmp" or atom[1] != "<":
                continue
            nf = norm_less(atom, pol, integer=False)
            if nf is None:
                continue
            rel, terms, c = nf
            if rel == ">0" and dict(terms) == lt[1] and c == lt[0]:
                return True
        return False

    def nonzero(self, term: Any, pos: list) -> bool:
        if self.positive(term, pos):
            return True
        if term[0] == "const":
            return term[1] != 0
        for atom, pol in pos:
            if atom[0] == "cmp" and atom[1] == "==" and atom[2] == term and atom[3] == ("const", 0) and not pol:
                return True
        if term[0] == "pure" and term[1] == "len" and len(term[2]) == 1 and any(a == ("nonempty", term[2][0]) and pol for a, pol in pos):
            return True  # `if not xs: return ...` dominates: len(xs) != 0
        return False

    def check_term(self, t: Any, node: Any, facts: dict, events: dict, pos: list, out: list, seen: set) -> None:
        if not isinstance(t, tuple) or not t or t in seen:
            return
        seen.add(t)
        k = t[0]
        if k in ("const", "param", "free", "global", "enum", "fresh", "exc", "call", "lambda", "comp", "havoc", "fstr"):
            return
        # children first
        if k in ("cmp", "op"):
            for x in t[2:]:
                self.check_term(x, node, facts, events, pos, out, seen)
        elif k in ("not", "un", "truth"):
            self.check_term(t[-1], node, facts, events, pos, out, seen)
        elif k in ("bool", "tuple", "set"):
            for x in t[-1]:
                self.check_term(x, node, facts, events, pos, out, seen)
        elif k == "ite":
            for x in t[1:]:
                self.check_term(x, node, facts, events, pos, out, seen)
        elif k in ("attr", "sub"):
            self.check_term(t[1], node, facts, events, pos, out, seen)
            if k == "sub":
                self.check_term(t[2], node, facts, events, pos, out, seen)
        elif k == "pure":
            return  # checked at its own call event
        ty = lambda x: self.type_of(x, facts, events)  # noqa: E731
        if (k == "cmp" and t[1] in ("<", "in")) or k in ("op", "sub") or (k == "attr" and t[1][0] not in ("global",) and t[1] != ("param", "self")):
            self.note(t, {"cmp": "comparison", "op": "arithmetic", "sub": "indexing", "attr": "attribute"}[k])
        if k == "cmp" and t[1] == "<":
            a, b = ty(t[2]), ty(t[3])
            ok = (a <= NUM and b <= NUM) or (a <= {S} and b <= {S}) or (a <= {DT} and b <= {DT}) or (a <= {TD} and b <= {TD})
            if not ok:
                out.append(Obligation(node, show(t), ("TypeError",), f"ordering comparison between {sorted(map(str, a))} and {sorted(map(str, b))}"))
        elif k == "cmp" and t[1] == "in":
            left, right = t[2], t[3]
            rt = ty(right)
            if right[0] == "tuple":
                pass
            elif right[0] == "set" or rt <= {E, D} or right[0] == "attr":
                lt_ = ty(left)
                if not lt_ <= HASHABLE:
                    out.append(Obligation(node, show(t), ("TypeError",), f"membership test hashes a value of type {sorted(map(str, lt_ - HASHABLE))}"))
            elif rt <= {S}:
                if not ty(left) <= {S}:
                    out.append(Obligation(node, show(t), ("TypeError",), "`x in <str>` needs a str on the left"))
        elif k == "op":
            a, b = ty(t[2]), ty(t[3])
            op = t[1]
            if op == "/" or op == "//" or op == "%":
                if not (a <= NUM and b <= NUM):
                    out.append(Obligation(node, show(t), ("TypeError",), "division of non-numbers"))
                elif not self.nonzero(t[3], pos):
                    out.append(Obligation(node, show(t), ("ZeroDivisionError",), f"divisor {show(t[3])} is not known to be non-zero"))
            elif op == "**":
                if not self.pow_bounded(t[2], t[3]):
                    out.append(Obligation(node, show(t), ("OverflowError",), f"float power with an unbounded exponent {show(t[3])}"))
            elif op in ("+", "-", "*"):
                if a <= NUM and b <= NUM:
                    pass
                elif a <= {DT} and b <= {DT} and op == "-":
                    # aware - aware is total (both within year 1..9999, timedelta range is wider)
                    if not (self.aware(t[2], facts, events) and self.aware(t[3], facts, events)):
                        out.append(Obligation(node, show(t), ("TypeError",), "datetime subtraction may mix naive and aware values"))
                elif a <= {S} and b <= {S} and op == "+":
                    pass
                elif op == "|":
                    pass
                else:
                    out.append(Obligation(node, show(t), ("TypeError",), f"arithmetic on {sorted(map(str, a))} and {sorted(map(str, b))}"))
        elif k == "sub":
            bt = ty(t[1])
            fixed_tuple = False
            ba = self.term_ann(t[1])
            for _ in range(3):
                if isinstance(ba, ast.Name):  # a module-level type alias
                    k2, p2 = self.prog.lookup_name(ba.id, self.fi, self.fi.module)
                    if k2 == "assign" and isinstance(p2[1], (ast.Subscript, ast.Name)):
                        ba = p2[1]
                        continue
                break
            if isinstance(ba, ast.Subscript) and ast.unparse(ba.value).split(".")[-1] in ("tuple", "Tuple") and isinstance(ba.slice, ast.Tuple) and t[2][0] == "const" and isinstance(t[2][1], int) and t[2][1] < len(ba.slice.elts):
                fixed_tuple = True  # tuple[A, B][i] with i in range
            if fixed_tuple:
                pass
            elif t[1][0] == "call" or bt <= {Q, T, L, S}:
                # indexing position 0 needs a non-empty container (guarded by truthiness in the while-loops)
                if not any(a == ("nonempty", t[1]) for a, _ in pos) and t[1][0] != "call":
                    out.append(Obligation(node, show(t), ("IndexError",), "index into a possibly empty container"))
            elif t[1][0] == "global":
                out.append(Obligation(node, show(t), ("KeyError",), "lookup by key"))
        elif k == "attr":
            bt = ty(t[1])
            plain = all(isinstance(a, tuple) and (a[0] == "dc" or (a[0] == "inst" and t[2] in (inst_fields(self.prog, self.prog.classes[a[1]]) or {}))) for a in bt) or t[1] in (("param", "self"),) or (bt <= {X} and t[2] in ("args", "__traceback__", "__class__")) or bt <= {K, DT, TD, RE}
            if t[1][0] in ("global",):
                plain = True
            if t[2] == "__name__" and t[1][0] == "pure" and t[1][1] == "type":
                plain = True
            if not plain:
                out.append(Obligation(node, show(t), ("AttributeError",), f"attribute `{t[2]}` read from a value of type {sorted(map(str, bt))[:4]}"))

    def aware(self, t: Any, facts: dict, events: dict) -> bool:
        if facts.get(("aware", t)):
            return True
        if t[0] == "pure" and t[1] == ".replace" and any(k == "tzinfo" and v != ("const", None) for k, v in t[3]):
            return True
        if t[0] == "call" and str(t[2]).startswith("lib:datetime.datetime.now"):
            ev = events.get(t)
            return ev is not None and bool(ev.args or ev.kwargs)
        return False

    def pow_bounded(self, base: Any, exp: Any) -> bool:
        if base[0] != "const" or not isinstance(base[1], (int, float)) or base[1] <= 0:
            return False
        ubs = [u for u in upper_bounds(exp) if u[0] == "const" and isinstance(u[1], (int, float))]
        if not ubs:
            return False
        u = min(x[1] for x in ubs)
        try:
            return math.log(base[1]) * u < math.log(1.7976931348623157e308)
        except (ValueError, OverflowError):
            return False

    def check_call(self, e: PEvent, facts: dict, events: dict, pos: list, out: list) -> None:
        ty = lambda x: self.type_of(x, facts, events)  # noqa: E731
        node = e.node
        if e.pure:
            res = e.result
            name = res[1] if isinstance(res, tuple) and res[0] == "pure" else (e.lib() or "")
            args = list(e.args)
            recv = e.recv
            if name in ("int", "float", "math.isfinite", "max", "min", "len", ".search", ".match", "getattr", ".get", ".items", "math.ceil", "math.floor", "round") or name in STR_METHODS:
                self.note(res, "call")
            if name == "int" and args:
                a = ty(args[0])
                ks = []
                if S in a or Y in a:
                    ks.append("ValueError")
                if F in a:
                    ks += ["ValueError", "OverflowError"]
                if not a <= {B, I, F, S, Y}:
                    ks.append("TypeError")
                if ks:
                    out.append(Obligation(node, show(res), tuple(dict.fromkeys(ks)), f"int() of {sorted(map(str, a))}"))
            elif name == "float" and args:
                a = ty(args[0])
                ks = []
                if I in a and not self.int_bounded(args[0], pos):
                    ks.append("OverflowError")
                if S in a or Y in a:
                    ks.append("ValueError")
                if not a <= {B, I, F, S, Y}:
                    ks.append("TypeError")
                if ks:
                    out.append(Obligation(node, show(res), tuple(dict.fromkeys(ks)), f"float() of {sorted(map(str, a))}" + (" - an int beyond float range raises OverflowError" if "OverflowError" in ks else "")))
            elif name == "math.isfinite" and args:
                a = ty(args[0])
                if not a <= NUM:
                    out.append(Obligation(node, show(res), ("TypeError",), f"math.isfinite of {sorted(map(str, a - NUM))}"))
                elif I in a and not self.int_bounded(args[0], pos):
                    out.append(Obligation(node, show(res), ("OverflowError",), "math.isfinite of an int beyond float range"))
            elif name in ("math.ceil", "math.floor", "round", "math.trunc") and args:
                a = ty(args[0])
                if F in a:
                    out.append(Obligation(node, show(res), ("OverflowError", "ValueError"), f"{name}() of a float that may be inf / nan"))
                if not a <= NUM:
                    out.append(Obligation(node, show(res), ("TypeError",), f"{name}() of {sorted(map(str, a - NUM))[:3]}"))
            elif name in ("max", "min") and len(args) >= 2:
                tys = [ty(a) for a in args]
                if not (all(t <= NUM for t in tys) or all(t <= {S} for t in tys)):
                    out.append(Obligation(node, show(res), ("TypeError",), f"{name}() compares {[sorted(map(str, t)) for t in tys]}"))
            elif name == "len" and args:
                def sized_inst(a: Any) -> bool:
                    if not (isinstance(a, tuple) and a[0] == "inst"):
                        return False
                    ln = self.prog.classes[a[1]].methods.get("__len__")
                    if ln is None:
                        return False
                    body = [b for b in ln.node.body if not (isinstance(b, ast.Expr) and isinstance(b.value, ast.Constant))]
                    flds = inst_fields(self.prog, self.prog.classes[a[1]]) or {}
                    # `return len(self.<field of a sized library type>)`
                    return (len(body) == 1 and isinstance(body[0], ast.Return) and isinstance(body[0].value, ast.Call) and isinstance(body[0].value.func, ast.Name) and body[0].value.func.id == "len"
                            and len(body[0].value.args) == 1 and isinstance(body[0].value.args[0], ast.Attribute) and flds.get(body[0].value.args[0].attr) is not None
                            and ann_type(self.prog, flds[body[0].value.args[0].attr], ln) <= SIZED)

                if not (ty(args[0]) <= SIZED or all(sized_inst(a) for a in ty(args[0]))):
                    out.append(Obligation(node, show(res), ("TypeError",), "len() of an unsized value"))
            elif name in STR_METHODS and recv is not None:
                if not ty(recv) <= {S}:
                    out.append(Obligation(node, show(res), ("AttributeError",), f"str method on {sorted(map(str, ty(recv)))[:4]}"))
            elif name in (".decode", ".encode") and recv is not None:
                # strict codecs raise on arbitrary data (UnicodeDecodeError / UnicodeEncodeError are ValueErrors)
                err = e.kwargs.get("errors") or (e.args[1] if len(e.args) > 1 else None)
                lenient = isinstance(err, tuple) and err[0] == "const" and err[1] in ("replace", "ignore", "backslashreplace", "surrogateescape", "surrogatepass", "xmlcharrefreplace", "namereplace")
                if name == ".decode" and not lenient:
                    self.note(res, "call")
                    out.append(Obligation(node, show(res), ("ValueError",), "bytes.decode() with the strict error handler raises UnicodeDecodeError on arbitrary bytes"))
                elif name == ".encode" and not lenient and not ty(recv) <= {S}:
                    out.append(Obligation(node, show(res), ("AttributeError",), f"str method on {sorted(map(str, ty(recv)))[:4]}"))
            elif name in (".search", ".match") and args:
                if not ty(args[0]) <= {S}:
                    out.append(Obligation(node, show(res), ("TypeError",), "regex search on a non-string"))
            elif name in (".group", ".groups", ".groupdict", ".start", ".end", ".span") and recv is not None:
                if not ty(recv) <= {RE}:
                    out.append(Obligation(node, show(res), ("AttributeError",), f"match-object method on {sorted(map(str, ty(recv)))[:4]} (a search that found nothing returns None)"))
            elif name == "getattr" and len(args) == 2:
                out.append(Obligation(node, show(res), ("AttributeError",), "getattr without a default"))
            elif name in (".get", ".items", ".keys", ".values") and recv is not None:
                rt = ty(recv)
                if not rt <= {D}:
                    out.append(Obligation(node, show(res), ("Exception",), f"`{name}` on a user-supplied container ({sorted(map(str, rt))[:3]}): may raise anything"))
                elif name == ".get" and args and not ty(args[0]) <= HASHABLE:
                    out.append(Obligation(node, show(res), ("TypeError",), "dict.get with an unhashable key"))
            elif name in ("str", "repr"):
                a = ty(args[0]) if args else ANY
                if self.domain.get("$user_objects") and not a <= (ANY - {O}) | {O}:
                    pass
                if args and args[0] in self.domain.get("$raising_str", ()):
                    out.append(Obligation(node, show(res), ("Exception",), "str() of a user-supplied object"))
            return
        # impure calls
        lab = e.label
        cb = e.callback()
        if cb is not None or (e.lib() or "") == "email.utils.parsedate_to_datetime":
            self.note(("const", lab), "call")
        if cb is not None and cb in self.trusted:
            return
        if cb is not None or "unknown:" in lab or lab.startswith("lib:cbret"):
            out.append(Obligation(node, lab, ("Exception",), f"call of a user-supplied callable ({cb or lab}): may raise any Exception"))
            return
        lib = e.lib() or ""
        if lib == "email.utils.parsedate_to_datetime":
            out.append(Obligation(node, lab, ("TypeError", "ValueError", "IndexError", "OverflowError"), "parsedate_to_datetime on arbitrary text"))
        elif lib.endswith(".popleft") or lib.endswith(".pop"):
            pass

    def int_bounded(self, t: Any, pos: list) -> bool:
        """an Int term whose magnitude is bounded by path literals (both sides) or a small constant"""
        if t[0] == "const":
            return abs(t[1]) < 10**300
        lo = hi = False
        for atom, pol in pos:
            if atom[0] == "cmp" and atom[1] == "<":
                nf = norm_less(atom, pol, integer=False)
                if nf is None:
                    continue
                rel, terms, c = nf
                td = dict(terms)
                if set(td) == {t}:
                    if td[t] < 0:
                        hi = True
                    else:
                        lo = True
        return lo and hi

    # ------------------------------------------------------------------ driver
    def analyse(self, p: SymPath) -> list[Obligation]:
        facts: dict = {}
        pos: list = []
        events: dict = {}
        out: list[Obligation] = []
        seen: set = set()
        for t in self.nonneg:
            pos.append((("cmp", "<", t, ("const", 0)), False))
        for it in p.items:
            n_before = len(out)
            if it[0] == "cond":
                atom, pol, node = it[1], it[2], it[3]
                self.check_term(atom, node, facts, events, pos, out, seen)
                self.learn(atom, pol, facts, events, pos)
                for ob in out[n_before:]:
                    ob.cfg = it[4] if len(it) > 4 else self.cfg
                    ob.frames = it[5] if len(it) > 5 else ()
                continue
            e = it[1]
            self._cur = e
            if e.kind == "call":
                events[e.result] = e
                for a in list(e.args) + list(e.kwargs.values()) + ([e.recv] if e.recv is not None else []):
                    self.check_term(a, e.node, facts, events, pos, out, seen)
                self.check_call(e, facts, events, pos, out)
                if not e.pure:
                    # "this container is not empty" does not survive something that may take elements out of it: a
                    # removing method on that very container, or a call into the repository (a helper such as
                    # `self._prune(now)` may empty it) - only what is tested *after* such a call still holds
                    f = e.node.ast.func if isinstance(e.node.ast, ast.Call) else None
                    meth = f.attr if isinstance(f, ast.Attribute) else None
                    repo_call = any(t.kind in ("repo", "callback", "unknown") for t in e.targets)
                    if repo_call or meth in ("popleft", "pop", "clear", "remove", "popitem", "__delitem__"):
                        pos[:] = [(a, pl) for a, pl in pos if not (isinstance(a, tuple) and a and a[0] == "nonempty" and (repo_call or a[1] == e.recv))]
            elif e.kind in ("store", "lstore", "return"):
                self.check_term(e.value, e.node, facts, events, pos, out, seen)
                if e.kind == "store":
                    self.check_term(e.loc, e.node, facts, events, pos, out, seen)
            elif e.kind == "iter":
                rt = self.type_of(e.recv, facts, events)
                if e.value == "zero":
                    continue
                if not rt <= ITERABLE and not (e.recv[0] == "pure" and e.recv[1] in ("range", ".items", ".values", ".keys", "getattr", "typing.cast")) and e.recv[0] not in ("tuple",):
                    out.append(Obligation(e.node, show(e.recv), ("TypeError",), f"iteration over {sorted(map(str, rt))[:4]}"))
                if e.recv[0] == "pure" and e.recv[1] == "typing.cast" or (e.recv[0] in ("param",) and M in rt):
                    out.append(Obligation(e.node, show(e.recv), ("Exception",), "iteration over a user-supplied container: may raise anything"))
                if e.recv[0] == "tuple":
                    tys: set = set()
                    for x in e.recv[1]:
                        tys |= self.type_of(x, facts, events)
                    # element facts for the loop variable(s)
                    tgt = e.node.info["target"]
                    if isinstance(tgt, ast.Name):
                        facts[("fresh", e.node.id, tgt.id)] = frozenset(tys)
            elif e.kind == "raise":
                pass
            for ob in out[n_before:]:
                ob.cfg = e.cfg or self.cfg
                ob.frames = e.frames
        # discharge through enclosing handlers (of the function the operation lives in, then of
        # every inlined call site around it)
        for ob in out:
            escaping = []
            chain = [((ob.cfg or self.cfg), ob.node)] + list(reversed(ob.frames))
            for kname in ob.kinds:
                ks = [kname] if kname != "Exception" else ["OtherException", "TypeError", "ValueError", "AttributeError", "KeyError", "RuntimeError"]
                for kk in ks:
                    caught = any(c.dispatch(kk, n.ctx)[0] != "escape" for c, n in chain)
                    if not caught and kname not in escaping:
                        escaping.append(kname)
            ob.caught = tuple(k for k in ob.kinds if k not in escaping)
            ob.escaping = tuple(escaping)
            if not escaping:
                ob.discharged_by = "enclosing try/except"
        return out


def analyse_function(prog: Program, cfgs, engine, fi: FuncInfo, domain: dict | None = None, nonneg: Iterable[Any] = (),
                     call_types: dict | None = None, free_types: dict | None = None, rounds: int = 5, trusted: dict | None = None):
    """all obligations of a function, exploring handler paths of operations that may raise
    inside a try (fixpoint over the set of raising events)"""
    cfg = cfgs.get(fi)
    mr = MayRaise(prog, cfg, fi, domain, nonneg, call_types, free_types, trusted)
    raising: dict[int, tuple] = {}
    result: dict[tuple, Obligation] = {}
    paths: list[SymPath] = []
    for _ in range(rounds):
        def raises(ev, c, raising=raising):
            return raising.get((c.func.qual, ev.node.id), ())

        paths = engine.paths(fi, raises=raises if raising else None, key=f"mayraise{len(raising)}")
        new = dict(raising)
        result = {}
        for p in paths:
            for ob in mr.analyse(p):
                result[((ob.cfg or cfg).func.qual, ob.node.id, ob.expr, ob.kinds)] = ob
                if ob.caught and ob.node.kind in ("call", "await"):
                    ks: list[str] = []
                    for k in ob.caught:
                        ks += [k] if k != "Exception" else ["OtherException"]
                    rk = ((ob.cfg or cfg).func.qual, ob.node.id)
                    cur = tuple(dict.fromkeys(list(new.get(rk, ())) + ks))
                    new[rk] = cur
        if new == raising:
            break
        raising = new
    return list(result.values()), paths, mr
