"""E1 - program model and resolver.

Parses every module under <repo>/src/redress from the *working tree* and builds
symbol tables (modules, classes, functions incl. nested closures, dataclass fields,
instance attributes, module-level aliases).  Provides a small flow-insensitive type
inference (`type_of`) and a call resolver (`resolve_call`) that maps every call
expression to one of

    repo      a function / method defined in the repository (FuncInfo)
    ctor      construction of a repository class (ClassInfo, its __init__ if any)
    callback  a user supplied callable, with its *category* (classifier, strategy,
              on_metric, on_log, abort_if, attempt_hook, sleep_handler, before_sleep,
              sleeper, operation, clock, result_classifier, ...)
    lib       a standard-library / builtin symbol (dotted name)
    unknown   nothing of the above (the checks fail closed on these where it matters)

Nothing here imports or executes the analysed code.
"""

from __future__ import annotations

import ast
import hashlib
import os
from dataclasses import dataclass, field
from typing import Any, Iterable

REPO = os.environ.get("REDRESS_REPO", "/repo")
SRC_ROOT = os.path.join(REPO, "src")
PKG = "redress"


class AnalysisError(Exception):
    """The analyser cannot decide (anchor vanished, unknown construct): exit 2."""


# ---------------------------------------------------------------------------
# callable-alias categories (confirmed by reading types.py / sleep.py / strategies.py /
# config.py; model.load() verifies that each alias really is a Callable alias)
# ---------------------------------------------------------------------------

ALIAS_CATEGORY = {
    "ClassifierFn": "classifier",
    "ResultClassifierFn": "result_classifier",
    "StrategyFn": "strategy",
    "BackoffFn": "strategy",
    "ContextStrategyFn": "strategy",
    "LegacyStrategyFn": "strategy",
    "MetricHook": "on_metric",
    "LogHook": "on_log",
    "AbortPredicate": "abort_if",
    "AttemptHook": "attempt_hook",
    "SleepFn": "sleep_handler",
    "BeforeSleepHook": "before_sleep",
    "AsyncBeforeSleepHook": "before_sleep",
    "SleeperFn": "sleeper",
    "AsyncSleeperFn": "sleeper",
}

# raw Callable[...] annotations: category from the parameter / field name
RAW_CALLABLE_NAME_CATEGORY = {
    "func": "operation",
    "clock": "clock",
    "fallback": "strategy",
    "legacy": "strategy",
    "strategy": "strategy",
}


# ---------------------------------------------------------------------------
# types
# ---------------------------------------------------------------------------
# A type is a frozenset of atoms:
#   ("cls", qual)            instance of repository class
#   ("type", qual)           the repository class object itself
#   ("func", qual)           a repository function object
#   ("bound", qual, clsqual) bound method
#   ("cb", category)         user callable of that category
#   ("ext", dotted)          external symbol / instance of external class
#   ("mod", modname)         module object
#   ("none",) ("any",) ("tuple", (t1, t2, ...))

Ty = frozenset
ANY: Ty = frozenset({("any",)})
NONE: Ty = frozenset({("none",)})


@dataclass
class FuncInfo:
    qual: str
    module: "Module"
    node: ast.AST  # FunctionDef | AsyncFunctionDef | Lambda
    cls: "ClassInfo | None" = None
    parent: "FuncInfo | None" = None
    nested: dict[str, "FuncInfo"] = field(default_factory=dict)
    _locals: dict[str, Ty] | None = None
    local_imports: dict[str, tuple[str, str | None]] = field(default_factory=dict)

    @property
    def name(self) -> str:
        return getattr(self.node, "name", "<lambda>")

    @property
    def is_async(self) -> bool:
        return isinstance(self.node, ast.AsyncFunctionDef)

    @property
    def is_method(self) -> bool:
        return self.cls is not None and self.parent is None

    def decorators(self) -> list[str]:
        out = []
        for d in getattr(self.node, "decorator_list", []):
            out.append(ast.unparse(d))
        return out

    @property
    def is_classmethod(self) -> bool:
        return "classmethod" in self.decorators()

    @property
    def is_staticmethod(self) -> bool:
        return "staticmethod" in self.decorators()

    @property
    def is_property(self) -> bool:
        return "property" in self.decorators()

    def params(self) -> list[ast.arg]:
        a = self.node.args
        return list(a.posonlyargs) + list(a.args) + list(a.kwonlyargs)

    def param_names(self) -> list[str]:
        return [p.arg for p in self.params()]

    def positional_params(self) -> list[str]:
        a = self.node.args
        return [p.arg for p in list(a.posonlyargs) + list(a.args)]

    def param_defaults(self) -> dict[str, ast.expr]:
        a = self.node.args
        out: dict[str, ast.expr] = {}
        pos = list(a.posonlyargs) + list(a.args)
        for p, d in zip(pos[len(pos) - len(a.defaults):], a.defaults):
            out[p.arg] = d
        for p, d in zip(a.kwonlyargs, a.kw_defaults):
            if d is not None:
                out[p.arg] = d
        return out

    def __hash__(self) -> int:
        return hash(self.qual)

    def __eq__(self, other: object) -> bool:
        return isinstance(other, FuncInfo) and other.qual == self.qual

    def __repr__(self) -> str:
        return f"<func {self.qual}>"

    def where(self, node: ast.AST | None = None) -> str:
        n = node if node is not None else self.node
        return f"{self.module.relpath}:{getattr(n, 'lineno', 0)}"


@dataclass
class ClassInfo:
    qual: str
    module: "Module"
    node: ast.ClassDef
    base_exprs: list[ast.expr] = field(default_factory=list)
    methods: dict[str, FuncInfo] = field(default_factory=dict)
    # declared (class body annotations) and inferred (self.x = ... in methods) attributes
    field_ann: dict[str, ast.expr] = field(default_factory=dict)
    field_default: dict[str, ast.expr] = field(default_factory=dict)
    field_order: list[str] = field(default_factory=list)
    attr_types: dict[str, Ty] = field(default_factory=dict)
    class_consts: dict[str, ast.expr] = field(default_factory=dict)

    @property
    def name(self) -> str:
        return self.node.name

    @property
    def is_dataclass(self) -> bool:
        for d in self.node.decorator_list:
            s = ast.unparse(d)
            if s.startswith("dataclass"):
                return True
        return False

    def __hash__(self) -> int:
        return hash(self.qual)

    def __eq__(self, other: object) -> bool:
        return isinstance(other, ClassInfo) and other.qual == self.qual

    def __repr__(self) -> str:
        return f"<class {self.qual}>"


@dataclass
class Module:
    name: str
    path: str
    relpath: str
    src: str
    tree: ast.Module
    digest: str
    is_pkg: bool
    imports: dict[str, tuple[str, str | None]] = field(default_factory=dict)
    functions: dict[str, FuncInfo] = field(default_factory=dict)
    classes: dict[str, ClassInfo] = field(default_factory=dict)
    assigns: dict[str, ast.expr] = field(default_factory=dict)

    def __hash__(self) -> int:
        return hash(self.name)


@dataclass
class Target:
    kind: str  # repo | ctor | callback | lib | unknown
    func: FuncInfo | None = None
    cls: ClassInfo | None = None
    category: str | None = None
    name: str | None = None
    self_expr: ast.expr | None = None  # receiver expression for bound methods
    via: str = ""  # how it was resolved (for evidence)

    def label(self) -> str:
        if self.kind == "repo":
            return self.func.qual  # type: ignore[union-attr]
        if self.kind == "ctor":
            return f"new {self.cls.qual}"  # type: ignore[union-attr]
        if self.kind == "callback":
            return f"callback:{self.category}"
        if self.kind == "lib":
            return f"lib:{self.name}"
        return f"unknown:{self.name}"


class Program:
    def __init__(self, src_root: str = SRC_ROOT, pkg: str = PKG) -> None:
        self.src_root = src_root
        self.pkg = pkg
        self.modules: dict[str, Module] = {}
        self.funcs: dict[str, FuncInfo] = {}
        self.classes: dict[str, ClassInfo] = {}
        self._enclosing: dict[int, FuncInfo] = {}
        self._load()
        self._alias_inherited_methods()

    def _alias_inherited_methods(self) -> None:
        """a method pulled up into a (new) base class or mixin is still `Sub.method` to the rules: every class gets an
        alias key `module:Sub.method` for each method it inherits from a repository base, and a pulled-up method whose
        own qualified name is new takes the (known) name it had in the subclass"""
        import os as _os

        try:
            with open(_os.path.join(_os.path.dirname(_os.path.abspath(__file__)), "known_funcs.txt")) as fh:
                known = {ln.strip() for ln in fh if ln.strip()}
        except OSError:
            known = set()
        self.pulled_up: dict[str, str] = {}
        shared: dict[str, list[tuple[ClassInfo, str, str]]] = {}
        for ci in list(self.classes.values()):
            for base in self.mro(ci)[1:]:
                for m, fn in base.methods.items():
                    if self.find_method(ci, m) is not fn:
                        continue
                    alias = f"{ci.module.name}:{ci.name}.{m}"
                    if alias in self.funcs and self.funcs[alias] is not fn:
                        continue
                    self.funcs.setdefault(alias, fn)
                    if fn.qual not in known and alias in known:
                        self.pulled_up[fn.qual] = alias
                        shared.setdefault(fn.qual, []).append((ci, m, alias))
        for old, alias in sorted(self.pulled_up.items()):
            fn = self.funcs[old]
            subs = shared.get(old, [])
            if len(subs) > 1:
                # one body pulled up from several known classes: each of them gets its own view of it (same syntax
                # tree, `self` typed as that class - a field the base declares loosely and the subclass narrows,
                # `policy: Any` / `policy: "Policy"`, then resolves as it did before the pull-up)
                for ci, m, al in subs:
                    clone = FuncInfo(al, fn.module, fn.node, cls=ci, parent=None, nested=fn.nested, local_imports=fn.local_imports)
                    self.funcs[al] = clone
                    ci.methods[m] = clone
                continue
            if fn.qual == old:
                fn.qual = alias

    # ------------------------------------------------------------------ loading
    def _load(self) -> None:
        root = os.path.join(self.src_root, self.pkg)
        if not os.path.isdir(root):
            raise AnalysisError(f"package directory not found: {root}")
        for dirpath, dirnames, filenames in os.walk(root):
            dirnames[:] = sorted(d for d in dirnames if d != "__pycache__")
            for fn in sorted(filenames):
                if not fn.endswith(".py"):
                    continue
                path = os.path.join(dirpath, fn)
                rel = os.path.relpath(path, self.src_root)
                parts = rel[:-3].split(os.sep)
                is_pkg = parts[-1] == "__init__"
                if is_pkg:
                    parts = parts[:-1]
                name = ".".join(parts)
                with open(path, "rb") as fh:
                    raw = fh.read()
                src = raw.decode("utf-8")
                try:
                    tree = ast.parse(src, filename=path)
                except SyntaxError as exc:  # the build would fail too
                    raise AnalysisError(f"cannot parse {path}: {exc}") from exc
                from .normalise import desugar_partials, flatten_settings_records, normalise_module

                flat = flatten_settings_records(name, tree)
                ren = normalise_module(name, tree)
                for q, mp in flat.items():
                    ren.setdefault(q, {}).update(mp)
                desugar_partials(tree)
                if ren:
                    self.__dict__.setdefault("alpha_renamed", {}).update(ren)
                self.modules[name] = Module(
                    name=name,
                    path=path,
                    relpath=os.path.join("src", rel),
                    src=src,
                    tree=tree,
                    digest=hashlib.sha256(raw).hexdigest()[:16],
                    is_pkg=is_pkg,
                )
        try:
            with open(os.path.join(os.path.dirname(os.path.abspath(__file__)), "known_funcs.txt")) as fh:
                kf = {ln.strip() for ln in fh if ln.strip()}
        except OSError:
            kf = set()
        from .normalise import dissolve_subrecords, inline_generator_helpers, restore_param_names, unproperty_known_methods
        from .normalise import deque_wrappers_as_subclasses

        try:
            with open(os.path.join(os.path.dirname(os.path.abspath(__file__)), "known_classes.txt")) as fh:
                kc0 = {ln.strip() for ln in fh if ln.strip()}
        except OSError:
            kc0 = set()
        self.deque_wrappers = deque_wrappers_as_subclasses({m.name: m.tree for m in self.modules.values()}, kc0)

        self.expanded_generators = inline_generator_helpers({m.name: m.tree for m in self.modules.values()}, kf)
        from .normalise import inline_bound_method_locals, unwrap_lock_holders

        try:
            with open(os.path.join(os.path.dirname(os.path.abspath(__file__)), "known_classes.txt")) as fh:
                kc = {ln.strip() for ln in fh if ln.strip()}
        except OSError:
            kc = set()
        self.unwrapped_lock_holders = unwrap_lock_holders({m.name: m.tree for m in self.modules.values()}, kc)
        from .normalise import inline_tail_closures, tuple_result_records

        self.inlined_tail_closures = inline_tail_closures({m.name: m.tree for m in self.modules.values()}, kf)

        self.tupled_records = tuple_result_records({m.name: m.tree for m in self.modules.values()}, kc)

        self.inlined_method_locals = inline_bound_method_locals({m.name: m.tree for m in self.modules.values()})

        dis = dissolve_subrecords({m.name: m.tree for m in self.modules.values()})
        if dis:
            self.__dict__.setdefault("alpha_renamed", {}).update({q: {**self.__dict__.get("alpha_renamed", {}).get(q, {}), **mp} for q, mp in dis.items()})
        self.unpropertied = unproperty_known_methods({m.name: m.tree for m in self.modules.values()}, kf)
        self.restored_params = restore_param_names({m.name: m.tree for m in self.modules.values()})
        from .normalise import repack_dissolved_params

        self.repacked_params = repack_dissolved_params({m.name: m.tree for m in self.modules.values()})
        from .normalise import inline_predicates

        self.inlined_predicates = inline_predicates({m.name: m.tree for m in self.modules.values()}, kf, {m.name for m in self.modules.values() if m.is_pkg})
        for m in self.modules.values():
            self._index_module(m)
        self._expand_decorators()
        for c in self.classes.values():
            self._infer_attrs(c)

    # ------------------------------------------------------------------ decorators of the repository
    @staticmethod
    def _decorator_shape(d: FuncInfo) -> tuple[list[ast.arg] | None, str, ast.AST] | None:
        """(factory parameters | None, name of the decorated-function parameter, the wrapper `def`) when `d` is a plain
        decorator  `def d(fn): [@wraps(fn)] def inner(...): ...; return inner`  or a decorator factory
        `def d(p, ...): def decorate(fn): <plain shape>; return decorate`  - nothing else in the bodies"""

        def plain(fn_node: ast.AST) -> tuple[str, ast.AST] | None:
            body = [st for st in fn_node.body if not (isinstance(st, ast.Expr) and isinstance(st.value, ast.Constant))]
            a = fn_node.args
            if len(body) != 2 or len(a.args) != 1 or a.vararg or a.kwarg or a.kwonlyargs or a.posonlyargs:
                return None
            inner, ret = body
            if not (isinstance(inner, (ast.FunctionDef, ast.AsyncFunctionDef)) and isinstance(ret, ast.Return) and isinstance(ret.value, ast.Name) and ret.value.id == inner.name):
                return None
            for dec in inner.decorator_list:
                if not (isinstance(dec, ast.Call) and ast.unparse(dec.func).split(".")[-1] == "wraps"):
                    return None
            return a.args[0].arg, inner

        node = d.node
        if not isinstance(node, ast.FunctionDef):
            return None
        p = plain(node)
        if p is not None:
            return None, p[0], p[1]
        body = [st for st in node.body if not (isinstance(st, ast.Expr) and isinstance(st.value, ast.Constant))]
        if len(body) == 2 and isinstance(body[0], ast.FunctionDef) and isinstance(body[1], ast.Return) and isinstance(body[1].value, ast.Name) and body[1].value.id == body[0].name and not node.args.vararg and not node.args.kwarg:
            p = plain(body[0])
            if p is not None:
                return list(node.args.posonlyargs) + list(node.args.args) + list(node.args.kwonlyargs), p[0], p[1]
        return None

    def _expand_decorators(self) -> None:
        """A function or method of the library decorated with a decorator *of the library* is analysed as what the
        decoration makes of it: the decorator's wrapper with the decorated function substituted for its parameter
        (`@optional_classifier("x") def f(exc, mod)` -> `def f(exc): try: mod = import_module("x") ...; return
        f.__wrapped__(exc, mod)`).  The original body stays available as `<name>.__wrapped__`.  Only the plain
        shapes of `_decorator_shape` are expanded; anything else is left as written (an unknown decorator)."""
        import copy

        self.expanded_decorators: dict[str, str] = {}
        sites: list[tuple[Module, ClassInfo | None, dict, FuncInfo]] = []
        for m in self.modules.values():
            for fi in list(m.functions.values()):
                sites.append((m, None, m.functions, fi))
            for ci in m.classes.values():
                for fi in list(ci.methods.values()):
                    sites.append((m, ci, ci.methods, fi))
        for m, ci, table, fi in sites:
            node = fi.node
            decs = getattr(node, "decorator_list", [])
            # (`@property` stacked on top of a library decorator stays on the specialised wrapper)
            outer_decs = [d for d in decs[:-1]]
            if not decs or any(not (isinstance(d, ast.Name) and d.id == "property") for d in outer_decs):
                continue
            dexpr = decs[-1]
            dname = dexpr.func if isinstance(dexpr, ast.Call) else dexpr
            if not isinstance(dname, ast.Name):
                continue
            k, dfi = self.lookup_name(dname.id, None, m)
            if k != "func" or dfi is fi:
                continue
            shape = self._decorator_shape(dfi)
            if shape is None:
                continue
            fparams, fn_param, inner = shape
            if (fparams is None) != (not isinstance(dexpr, ast.Call)):
                continue
            if isinstance(node, ast.AsyncFunctionDef) != isinstance(inner, ast.AsyncFunctionDef):
                continue
            dm = dfi.module
            # ---- factory arguments
            subst: dict[str, ast.expr] = {}
            ok = True
            if fparams is not None:
                call = dexpr
                pos = [a.arg for a in list(dfi.node.args.posonlyargs) + list(dfi.node.args.args)]
                given: dict[str, ast.expr] = {}
                for i, a in enumerate(call.args):
                    if isinstance(a, ast.Starred) or i >= len(pos):
                        ok = False
                        break
                    given[pos[i]] = a
                for kw in call.keywords:
                    if kw.arg is None:
                        ok = False
                        break
                    given[kw.arg] = kw.value
                defaults = dfi.param_defaults()
                for a in fparams:
                    if a.arg in given:
                        e = given[a.arg]
                        if isinstance(e, ast.Constant):
                            subst[a.arg] = e
                        elif isinstance(e, ast.Name):
                            alias = f"__deco_{m.name.replace('.', '_')}_{e.id}"
                            dm.imports[alias] = (m.name, e.id)  # what the name means where the decorator is applied
                            subst[a.arg] = ast.Name(id=alias, ctx=ast.Load())
                        else:
                            ok = False
                    elif a.arg in defaults:
                        subst[a.arg] = defaults[a.arg]  # evaluated in the decorator's own module: resolves there
                    else:
                        ok = False
            if not ok:
                continue
            # ---- the wrapper, specialised
            new = copy.deepcopy(inner)
            new.name = node.name
            new.decorator_list = list(outer_decs)
            wrapped_name = f"{node.name}__wrapped__"
            ia = new.args
            is_method = ci is not None and not fi.is_staticmethod
            passthrough = ia.vararg is not None and ia.kwarg is not None and not ia.kwonlyargs and len(ia.posonlyargs) + len(ia.args) == (1 if is_method else 0)
            self_name = (ia.args[0].arg if ia.args else None) if is_method else None
            oa = node.args
            if passthrough:
                va, kwa = ia.vararg.arg, ia.kwarg.arg
                new.args = copy.deepcopy(oa)
                if is_method and oa.args:
                    new.args.args[0].arg = self_name or oa.args[0].arg
            if is_method:
                self_name = new.args.args[0].arg if new.args.args else None
                if self_name is None:
                    continue
            if is_method:
                orig_ref: ast.expr = ast.Attribute(value=ast.Name(id=self_name, ctx=ast.Load()), attr=wrapped_name, ctx=ast.Load())
            else:
                alias = f"__wrapped_{m.name.replace('.', '_')}_{node.name}"
                dm.imports[alias] = (m.name, wrapped_name)
                orig_ref = ast.Name(id=alias, ctx=ast.Load())
            bad = [False]

            class Sub(ast.NodeTransformer):
                def visit_Call(self, c: ast.Call) -> ast.AST:
                    self.generic_visit(c)
                    if isinstance(c.func, ast.Name) and c.func.id == "__DECORATED__":
                        args = list(c.args)
                        if is_method:
                            if not (args and isinstance(args[0], ast.Name) and args[0].id == self_name):
                                bad[0] = True
                                return c
                            args = args[1:]
                        if passthrough:
                            star = [a for a in args if isinstance(a, ast.Starred)]
                            dstar = [k for k in c.keywords if k.arg is None]
                            if len(star) != 1 or len(dstar) != 1 or len(args) != 1 or len(c.keywords) != 1:
                                bad[0] = True
                                return c
                            own = list(oa.posonlyargs) + list(oa.args)
                            if is_method:
                                own = own[1:]
                            args = [ast.Name(id=a.arg, ctx=ast.Load()) for a in own]
                            if oa.vararg:
                                args.append(ast.Starred(value=ast.Name(id=oa.vararg.arg, ctx=ast.Load()), ctx=ast.Load()))
                            kws = [ast.keyword(arg=a.arg, value=ast.Name(id=a.arg, ctx=ast.Load())) for a in oa.kwonlyargs]
                            if oa.kwarg:
                                kws.append(ast.keyword(arg=None, value=ast.Name(id=oa.kwarg.arg, ctx=ast.Load())))
                            c.keywords = kws
                        c.args = args
                        c.func = copy.deepcopy(orig_ref)
                    return c

                def visit_Name(self, n: ast.Name) -> ast.AST:
                    if isinstance(n.ctx, ast.Load):
                        if n.id == fn_param:
                            return ast.copy_location(ast.Name(id="__DECORATED__", ctx=ast.Load()), n)
                        if n.id in subst:
                            return ast.copy_location(copy.deepcopy(subst[n.id]), n)
                    elif n.id == fn_param or n.id in subst:
                        bad[0] = True
                    return n

            new = Sub().visit(new)
            if bad[0] or any(isinstance(n, ast.Name) and n.id == "__DECORATED__" for n in ast.walk(new)):
                continue  # the decorated function escapes (stored, passed on): not a plain wrapper
            if passthrough and any(isinstance(n, ast.Name) and n.id in (va, kwa) for n in ast.walk(new) if not (isinstance(n, ast.Name) and n.id in {a.arg for a in ast.walk(new.args) if isinstance(a, ast.arg)})):
                continue
            ast.fix_missing_locations(new)
            # ---- register: the original under <name>__wrapped__, the specialised wrapper under the public name
            qual = fi.qual
            node.decorator_list = []
            node.name = wrapped_name
            del self.funcs[qual]
            wq = f"{qual}.__wrapped__"
            fi.qual = wq
            self.funcs[wq] = fi
            table.pop(new.name, None)
            table[wrapped_name] = fi
            self._index_func(dm, new, qual, ci, None, table)
            self.expanded_decorators[qual] = dfi.qual

    def _abs_import(self, m: Module, level: int, module: str | None) -> str:
        if level == 0:
            return module or ""
        base = m.name.split(".")
        if not m.is_pkg:
            base = base[:-1]
        if level > 1:
            base = base[: len(base) - (level - 1)]
        if module:
            base = base + module.split(".")
        return ".".join(base)

    def _collect_imports(self, m: Module, body: Iterable[ast.stmt], out: dict) -> None:
        for st in body:
            if isinstance(st, ast.Import):
                for a in st.names:
                    local = a.asname or a.name.split(".")[0]
                    out[local] = (a.name if a.asname else a.name.split(".")[0], None)
            elif isinstance(st, ast.ImportFrom):
                mod = self._abs_import(m, st.level, st.module)
                for a in st.names:
                    out[a.asname or a.name] = (mod, a.name)
            elif isinstance(st, ast.If):
                # `if TYPE_CHECKING:` imports are needed for annotation resolution
                self._collect_imports(m, st.body, out)
                self._collect_imports(m, st.orelse, out)
            elif isinstance(st, ast.Try):
                self._collect_imports(m, st.body, out)

    def _index_module(self, m: Module) -> None:
        self._collect_imports(m, m.tree.body, m.imports)
        for st in m.tree.body:
            if isinstance(st, (ast.FunctionDef, ast.AsyncFunctionDef)):
                if any(ast.unparse(d).endswith("overload") for d in st.decorator_list):
                    continue
                self._index_func(m, st, f"{m.name}:{st.name}", None, None, m.functions)
            elif isinstance(st, ast.ClassDef):
                self._index_class(m, st)
            elif isinstance(st, ast.Assign) and len(st.targets) == 1:
                t = st.targets[0]
                if isinstance(t, ast.Name):
                    m.assigns[t.id] = st.value
            elif isinstance(st, ast.AnnAssign) and isinstance(st.target, ast.Name):
                if st.value is not None:
                    m.assigns[st.target.id] = st.value

    def _index_func(self, m, node, qual, cls, parent, table) -> FuncInfo:
        fi = FuncInfo(qual=qual, module=m, node=node, cls=cls, parent=parent)
        table[node.name] = fi
        self.funcs[qual] = fi
        # nested defs and function-local imports
        self._collect_imports(m, [s for s in ast.walk(node) if isinstance(s, (ast.Import, ast.ImportFrom))], fi.local_imports)
        for sub in self._direct_nested(node):
            self._index_func(m, sub, f"{qual}.<locals>.{sub.name}", cls, fi, fi.nested)
        for sub in ast.walk(node):
            if sub is not node and not isinstance(sub, (ast.FunctionDef, ast.AsyncFunctionDef)):
                pass
        return fi

    @staticmethod
    def _direct_nested(node: ast.AST) -> list[ast.AST]:
        out: list[ast.AST] = []

        def visit(n: ast.AST) -> None:
            for ch in ast.iter_child_nodes(n):
                if isinstance(ch, (ast.FunctionDef, ast.AsyncFunctionDef)):
                    out.append(ch)
                elif isinstance(ch, (ast.ClassDef, ast.Lambda)):
                    continue
                else:
                    visit(ch)

        visit(node)
        return out

    def _index_class(self, m: Module, node: ast.ClassDef) -> None:
        qual = f"{m.name}:{node.name}"
        ci = ClassInfo(qual=qual, module=m, node=node, base_exprs=list(node.bases))
        m.classes[node.name] = ci
        self.classes[qual] = ci
        for st in node.body:
            if isinstance(st, (ast.FunctionDef, ast.AsyncFunctionDef)):
                self._index_func(m, st, f"{qual}.{st.name}", ci, None, ci.methods)
            elif isinstance(st, ast.AnnAssign) and isinstance(st.target, ast.Name):
                ci.field_ann[st.target.id] = st.annotation
                ci.field_order.append(st.target.id)
                if st.value is not None:
                    ci.field_default[st.target.id] = st.value
            elif isinstance(st, ast.Assign) and len(st.targets) == 1 and isinstance(st.targets[0], ast.Name):
                ci.class_consts[st.targets[0].id] = st.value
        self._synth_dataclass_init(m, ci)

    def _synth_dataclass_init(self, m: Module, ci: ClassInfo) -> None:
        """A class whose hand-written `__init__` the rules know and which has been turned into a dataclass is analysed
        through the `__init__` the decorator generates: one parameter and one
        store per init-field, the default / default_factory() of every init=False field, then `self.__post_init__()`.
        Only the plain case: no dataclass bases, no InitVar / ClassVar, no `init=False` on the decorator."""
        import copy

        node = ci.node
        deco = next((d for d in node.decorator_list if ast.unparse(d).split("(")[0].split(".")[-1] == "dataclass"), None)
        if deco is None or "__init__" in ci.methods:
            return
        known_init = f"{ci.qual}.__init__"
        try:
            with open(os.path.join(os.path.dirname(os.path.abspath(__file__)), "known_funcs.txt")) as fh:
                was_known = any(ln.strip() == known_init for ln in fh)
        except OSError:
            was_known = False
        if not was_known:
            # (a record class that *gains* a __post_init__ keeps being judged as a record: the foundation rules report
            # the transformation - it is not quietly turned into an ordinary constructor)
            return
        if node.bases and any(ast.unparse(b).split("[")[0].split(".")[-1] not in ("Generic", "object") for b in node.bases):
            return
        kw_only_all = False
        if isinstance(deco, ast.Call):
            for kw in deco.keywords:
                if kw.arg == "init" and isinstance(kw.value, ast.Constant) and kw.value.value is False:
                    return
                if kw.arg == "kw_only" and isinstance(kw.value, ast.Constant) and kw.value.value is True:
                    kw_only_all = True
        pos: list[ast.arg] = [ast.arg(arg="self")]
        pos_defaults: list[ast.expr] = []
        kwonly: list[ast.arg] = []
        kw_defaults: list[ast.expr | None] = []
        body: list[ast.stmt] = []

        def store(name: str, value: ast.expr) -> ast.stmt:
            return ast.Assign(targets=[ast.Attribute(value=ast.Name(id="self", ctx=ast.Load()), attr=name, ctx=ast.Store())], value=value)

        for st in node.body:
            if not (isinstance(st, ast.AnnAssign) and isinstance(st.target, ast.Name)):
                continue
            ann = ast.unparse(st.annotation)
            if "ClassVar" in ann or "InitVar" in ann:
                return
            name = st.target.id
            init, default, factory, kwo = True, None, None, kw_only_all
            v = st.value
            if isinstance(v, ast.Call) and ast.unparse(v.func).split(".")[-1] == "field":
                for kw in v.keywords:
                    if kw.arg == "init" and isinstance(kw.value, ast.Constant):
                        init = bool(kw.value.value)
                    elif kw.arg == "default":
                        default = kw.value
                    elif kw.arg == "default_factory":
                        factory = kw.value
                    elif kw.arg == "kw_only" and isinstance(kw.value, ast.Constant):
                        kwo = bool(kw.value.value)
            elif v is not None:
                default = v
            dflt: ast.expr | None = copy.deepcopy(default) if default is not None else None
            if dflt is None and factory is not None:
                if isinstance(factory, ast.Lambda) and not factory.args.args:
                    dflt = copy.deepcopy(factory.body)
                else:
                    dflt = ast.Call(func=copy.deepcopy(factory), args=[], keywords=[])
            if init:
                a = ast.arg(arg=name, annotation=copy.deepcopy(st.annotation))
                if kwo:
                    kwonly.append(a)
                    kw_defaults.append(dflt if factory is None else None)
                else:
                    pos.append(a)
                    if dflt is not None and factory is None:
                        pos_defaults.append(dflt)
                    elif pos_defaults:
                        return  # non-default after default: not a valid dataclass anyway
                if factory is not None:
                    return  # an init-field with a default_factory: the MISSING sentinel dance is not modelled
                body.append(store(name, ast.Name(id=name, ctx=ast.Load())))
            elif dflt is not None:
                body.append(store(name, dflt))
        if "__post_init__" in ci.methods:
            body.append(ast.Expr(value=ast.Call(func=ast.Attribute(value=ast.Name(id="self", ctx=ast.Load()), attr="__post_init__", ctx=ast.Load()), args=[], keywords=[])))
        if not body:
            body = [ast.Pass()]
        fn = ast.FunctionDef(
            name="__init__",
            args=ast.arguments(posonlyargs=[], args=pos, vararg=None, kwonlyargs=kwonly, kw_defaults=kw_defaults, kwarg=None, defaults=pos_defaults),
            body=body,
            decorator_list=[],
            returns=ast.Constant(value=None),
            type_params=[],
        )
        for sub in ast.walk(fn):
            ast.copy_location(sub, node)
        ast.fix_missing_locations(fn)
        self._index_func(m, fn, f"{ci.qual}.__init__", ci, None, ci.methods)
        self.__dict__.setdefault("synth_inits", []).append(ci.qual)

    # ------------------------------------------------------------------ symbols
    def module_symbol(self, modname: str, attr: str, _depth: int = 0) -> tuple[str, Any]:
        """Resolve `attr` in module `modname` -> (kind, payload)."""
        if _depth > 12:
            return ("unknown", f"{modname}.{attr}")
        m = self.modules.get(modname)
        if m is None:
            sub = f"{modname}.{attr}"
            if sub in self.modules:
                return ("mod", sub)
            return ("ext", f"{modname}.{attr}")
        if attr in m.functions:
            return ("func", m.functions[attr])
        if attr in m.classes:
            return ("class", m.classes[attr])
        if attr in m.imports:
            mod2, a2 = m.imports[attr]
            if a2 is None:
                return ("mod", mod2) if mod2 in self.modules else ("ext", mod2)
            return self.module_symbol(mod2, a2, _depth + 1)
        if attr in m.assigns:
            val = m.assigns[attr]
            # alias of another symbol (AbortRetry = AbortRetryError)
            if isinstance(val, ast.Name) and val.id != attr:
                k, p = self.module_symbol(modname, val.id, _depth + 1)
                if k in ("class", "func"):
                    return (k, p)
            return ("assign", (m, val))
        sub = f"{modname}.{attr}"
        if sub in self.modules:
            return ("mod", sub)
        return ("unknown", f"{modname}.{attr}")

    def lookup_name(self, name: str, fi: FuncInfo | None, m: Module) -> tuple[str, Any]:
        """Resolve a bare name used in function `fi` of module `m` (not locals)."""
        f = fi
        while f is not None:
            if name in f.nested:
                return ("func", f.nested[name])
            if name in f.local_imports:
                mod2, a2 = f.local_imports[name]
                if a2 is None:
                    return ("mod", mod2) if mod2 in self.modules else ("ext", mod2)
                return self.module_symbol(mod2, a2)
            f = f.parent
        k, p = self.module_symbol(m.name, name)
        if k != "unknown":
            return (k, p)
        import builtins

        if hasattr(builtins, name):
            return ("ext", f"builtins.{name}")
        return ("unknown", name)

    # ------------------------------------------------------------------ classes
    def bases(self, ci: ClassInfo) -> list[Any]:
        out: list[Any] = []
        for b in ci.base_exprs:
            if isinstance(b, ast.Subscript):
                b = b.value
            if isinstance(b, ast.Name):
                k, p = self.lookup_name(b.id, None, ci.module)
                if k == "class":
                    out.append(p)
                else:
                    out.append(p if isinstance(p, str) else b.id)
            elif isinstance(b, ast.Attribute):
                out.append(ast.unparse(b))
        return out

    def mro(self, ci: ClassInfo) -> list[ClassInfo]:
        out = [ci]
        for b in self.bases(ci):
            if isinstance(b, ClassInfo):
                for c in self.mro(b):
                    if c not in out:
                        out.append(c)
        return out

    def ext_bases(self, ci: ClassInfo) -> list[str]:
        out: list[str] = []
        for c in self.mro(ci):
            for b in self.bases(c):
                if isinstance(b, str):
                    out.append(b)
        return out

    def find_method(self, ci: ClassInfo, name: str) -> FuncInfo | None:
        for c in self.mro(ci):
            if name in c.methods:
                return c.methods[name]
        return None

    def find_attr_type(self, ci: ClassInfo, name: str) -> Ty | None:
        for c in self.mro(ci):
            if name in c.attr_types:
                return c.attr_types[name]
        return None

    def is_enum(self, ci: ClassInfo) -> bool:
        return any(b.endswith("Enum") for b in self.ext_bases(ci))

    def enum_members(self, ci: ClassInfo) -> list[str]:
        return [k for k in ci.class_consts if not k.startswith("_")]

    def all_fields(self, ci: ClassInfo) -> list[str]:
        """dataclass field order through the MRO (base first)."""
        out: list[str] = []
        for c in reversed(self.mro(ci)):
            for f in c.field_order:
                if f not in out:
                    out.append(f)
        return out

    def field_default(self, ci: ClassInfo, name: str) -> ast.expr | None:
        for c in self.mro(ci):
            if name in c.field_default:
                return c.field_default[name]
        return None

    def _infer_attrs(self, ci: ClassInfo) -> None:
        for name, ann in ci.field_ann.items():
            ci.attr_types[name] = self.parse_ann(ann, ci.module, hint=name)
        for meth in ci.methods.values():
            if meth.is_staticmethod or meth.is_classmethod:
                continue
            ps = meth.positional_params()
            if not ps:
                continue
            selfname = ps[0]
            for n in ast.walk(meth.node):
                tgt = None
                val = None
                ann = None
                if isinstance(n, ast.AnnAssign):
                    tgt, val, ann = n.target, n.value, n.annotation
                elif isinstance(n, ast.Assign) and len(n.targets) == 1:
                    tgt, val = n.targets[0], n.value
                if (
                    isinstance(tgt, ast.Attribute)
                    and isinstance(tgt.value, ast.Name)
                    and tgt.value.id == selfname
                ):
                    if ann is not None:
                        ty = self.parse_ann(ann, ci.module, hint=tgt.attr)
                    elif val is not None:
                        ty = self.type_of(val, meth)
                    else:
                        ty = ANY
                    prev = ci.attr_types.get(tgt.attr)
                    if tgt.attr in ci.field_ann:
                        continue
                    if prev is None or prev == ANY:
                        ci.attr_types[tgt.attr] = ty
                    elif ty != ANY and ann is None:
                        ci.attr_types[tgt.attr] = prev | ty

    # ------------------------------------------------------------------ annotations
    def parse_ann(self, ann: ast.expr | None, m: Module, hint: str | None = None,
                  fi: FuncInfo | None = None, _depth: int = 0) -> Ty:
        if ann is None or _depth > 8:
            return ANY
        if isinstance(ann, ast.Constant):
            if ann.value is None:
                return NONE
            if isinstance(ann.value, str):
                try:
                    return self.parse_ann(ast.parse(ann.value, mode="eval").body, m, hint, fi, _depth + 1)
                except SyntaxError:
                    return ANY
            return ANY
        if isinstance(ann, ast.BinOp) and isinstance(ann.op, ast.BitOr):
            return self.parse_ann(ann.left, m, hint, fi, _depth + 1) | self.parse_ann(ann.right, m, hint, fi, _depth + 1)
        if isinstance(ann, ast.Subscript):
            base = ast.unparse(ann.value)
            if base in ("Optional", "typing.Optional"):
                return self.parse_ann(ann.slice, m, hint, fi, _depth + 1) | NONE
            if base in ("Union", "typing.Union"):
                elts = ann.slice.elts if isinstance(ann.slice, ast.Tuple) else [ann.slice]
                out: Ty = frozenset()
                for e in elts:
                    out |= self.parse_ann(e, m, hint, fi, _depth + 1)
                return out
            if base in ("Callable", "collections.abc.Callable", "typing.Callable"):
                cat = RAW_CALLABLE_NAME_CATEGORY.get((hint or "").lstrip("_"), f"callable:{hint}")
                return frozenset({("cb", cat)})
            if base in ("tuple", "Tuple"):
                elts = ann.slice.elts if isinstance(ann.slice, ast.Tuple) else [ann.slice]
                return frozenset({("tuple", tuple(self.parse_ann(e, m, hint, fi, _depth + 1) for e in elts))})
            if base in ("type",):
                return ANY
            # generic repo class: RetryOutcome[T]
            return self.parse_ann(ann.value, m, hint, fi, _depth + 1)
        if isinstance(ann, ast.Name):
            if ann.id in ALIAS_CATEGORY:
                k, p = self.lookup_name(ann.id, fi, m)
                if k == "assign":
                    return frozenset({("cb", ALIAS_CATEGORY[ann.id])})
            if ann.id == "Self" and fi is not None and fi.cls is not None:
                return frozenset({("cls", fi.cls.qual)})  # typing.Self (PEP 673): the enclosing class
            if ann.id in ("Any", "object", "T"):
                return ANY
            k, p = self.lookup_name(ann.id, fi, m)
            if k == "class":
                return frozenset({("cls", p.qual)})
            if k == "assign":
                m2, val = p
                return self.parse_ann(val, m2, hint, None, _depth + 1)
            if k == "ext":
                return frozenset({("ext", p)})
            return ANY
        if isinstance(ann, ast.Attribute):
            return frozenset({("ext", ast.unparse(ann))})
        return ANY

    # ------------------------------------------------------------------ locals
    def enclosing_class(self, fi: FuncInfo) -> ClassInfo | None:
        return fi.cls

    def func_locals(self, fi: FuncInfo) -> dict[str, Ty]:
        if fi._locals is not None:
            return fi._locals
        loc: dict[str, Ty] = {}
        fi._locals = loc  # recursion guard
        node = fi.node
        params = fi.params()
        for i, p in enumerate(params):
            if fi.is_method and i == 0 and not fi.is_staticmethod:
                if fi.is_classmethod:
                    loc[p.arg] = frozenset({("type", fi.cls.qual)})  # type: ignore[union-attr]
                else:
                    loc[p.arg] = frozenset({("cls", fi.cls.qual)})  # type: ignore[union-attr]
                continue
            loc[p.arg] = self.parse_ann(p.annotation, fi.module, hint=p.arg, fi=fi)
        if node.args.vararg:
            loc[node.args.vararg.arg] = ANY
        if node.args.kwarg:
            loc[node.args.kwarg.arg] = ANY
        untyped = [p.arg for p in params if loc.get(p.arg) == ANY]
        if untyped and not isinstance(node, ast.Lambda):
            # parameters annotated Any / not annotated: the union of what the call sites pass
            for name, ty in self._param_types_from_callers(fi, untyped).items():
                loc[name] = ty
        # a parameter annotated with a bare `Callable[...]` (no role in its name): when every call site passes a user
        # callable of a known role (`_call_quietly(self.on_metric, ...)`), the parameter plays those roles
        generic = [p.arg for p in params if loc.get(p.arg) and loc[p.arg] != ANY and any(a[0] == "cb" and str(a[1]).startswith("callable:") for a in loc[p.arg]) and all(a[0] in ("cb", "none") for a in loc[p.arg])]
        if generic and not isinstance(node, ast.Lambda):
            for name, ty in self._param_types_from_callers(fi, generic).items():
                roles = frozenset(a for a in ty if a[0] == "cb" and not str(a[1]).startswith("callable:"))
                rest = frozenset(a for a in ty if a not in roles and a[0] != "none")
                if roles and not rest:
                    loc[name] = roles | frozenset(a for a in loc[name] if a[0] == "none") | frozenset(a for a in ty if a[0] == "none")

        def add(name: str, ty: Ty) -> None:
            if name in loc and loc[name] != ANY and ty != ANY:
                loc[name] = loc[name] | ty
            elif name not in loc or loc[name] == ANY:
                loc[name] = ty

        # two passes so that later definitions can type earlier uses in loops
        for _ in range(2):
            for n in self._own_nodes(node):
                if isinstance(n, ast.Assign):
                    for t in n.targets:
                        self._bind_target(t, n.value, fi, add)
                elif isinstance(n, ast.NamedExpr) and isinstance(n.target, ast.Name):
                    add(n.target.id, self.type_of(n.value, fi))
                elif isinstance(n, ast.AnnAssign) and isinstance(n.target, ast.Name):
                    add(n.target.id, self.parse_ann(n.annotation, fi.module, hint=n.target.id, fi=fi))
                elif isinstance(n, (ast.For, ast.AsyncFor)):
                    if isinstance(n.target, ast.Name):
                        add(n.target.id, ANY)
                elif isinstance(n, ast.ExceptHandler) and n.name:
                    add(n.name, frozenset({("ext", "exception")}))
                elif isinstance(n, (ast.With, ast.AsyncWith)):
                    for it in n.items:
                        if isinstance(it.optional_vars, ast.Name):
                            add(it.optional_vars.id, ANY)
        return loc

    def _call_sites_by_name(self) -> dict[str, list[tuple[FuncInfo, ast.Call]]]:
        idx = self.__dict__.get("_callidx")
        if idx is None:
            idx = {}
            for fn in self.funcs.values():
                for n in self._own_nodes(fn.node):
                    if isinstance(n, ast.Call):
                        f = n.func
                        nm = f.id if isinstance(f, ast.Name) else (f.attr if isinstance(f, ast.Attribute) else None)
                        if nm is not None:
                            idx.setdefault(nm, []).append((fn, n))
            self.__dict__["_callidx"] = idx
        return idx

    def _param_types_from_callers(self, fi: FuncInfo, names: list[str]) -> dict[str, Ty]:
        out: dict[str, Ty] = {}
        pos = fi.positional_params()
        i0 = 1 if (fi.is_method and not fi.is_staticmethod) else 0
        sites = self._call_sites_by_name().get(fi.name, [])
        if fi.name == "__init__" and fi.cls is not None:
            sites = self._call_sites_by_name().get(fi.cls.name, [])  # constructor calls `C(...)`
        for caller, call in sites:
            if caller is fi:
                continue
            try:
                tg = self.resolve_call(call, caller)
            except AnalysisError:
                continue
            if not any(t.func is fi for t in tg):
                continue
            bound: dict[str, ast.expr] = {}
            for j, a in enumerate(call.args):
                if isinstance(a, ast.Starred):
                    break
                if i0 + j < len(pos):
                    bound[pos[i0 + j]] = a
            for kw in call.keywords:
                if kw.arg is not None:
                    bound[kw.arg] = kw.value
            for nm in names:
                if nm in bound:
                    ty = self.type_of(bound[nm], caller)
                    if ty != ANY:
                        out[nm] = out.get(nm, frozenset()) | ty
        return out

    def _bind_target(self, t: ast.expr, value: ast.expr, fi: FuncInfo, add) -> None:
        if isinstance(t, ast.Name):
            add(t.id, self.type_of(value, fi))
        elif isinstance(t, ast.Tuple):
            vt = self.type_of(value, fi)
            tup = [a for a in vt if a[0] == "tuple"]
            for i, e in enumerate(t.elts):
                if isinstance(e, ast.Name):
                    ty: Ty = frozenset()
                    for a in tup:
                        if i < len(a[1]):
                            ty |= a[1][i]
                    add(e.id, ty or ANY)

    @staticmethod
    def _own_nodes(node: ast.AST) -> Iterable[ast.AST]:
        """All nodes of a function body excluding nested function/class bodies."""
        stack = list(ast.iter_child_nodes(node))
        while stack:
            n = stack.pop()
            yield n
            if isinstance(n, (ast.FunctionDef, ast.AsyncFunctionDef, ast.ClassDef, ast.Lambda)):
                continue
            stack.extend(ast.iter_child_nodes(n))

    # ------------------------------------------------------------------ expression types
    def type_of(self, e: ast.expr, fi: FuncInfo) -> Ty:
        m = fi.module
        if isinstance(e, ast.Constant):
            return NONE if e.value is None else frozenset({("ext", type(e.value).__name__)})
        if isinstance(e, ast.Await):
            return self.type_of(e.value, fi)
        if isinstance(e, ast.Name):
            f: FuncInfo | None = fi
            while f is not None:
                loc = self.func_locals(f)
                if e.id in loc:
                    return loc[e.id]
                f = f.parent
            k, p = self.lookup_name(e.id, fi, m)
            return self._sym_type(k, p)
        if isinstance(e, ast.Attribute):
            bt = self.type_of(e.value, fi)
            out: Ty = frozenset()
            for a in bt:
                if a[0] == "cls":
                    ci = self.classes[a[1]]
                    meth = self.find_method(ci, e.attr)
                    if meth is not None:
                        if meth.is_property:
                            out |= self.parse_ann(meth.node.returns, meth.module, fi=meth)
                        else:
                            out |= frozenset({("bound", meth.qual, ci.qual)})
                        continue
                    at = self.find_attr_type(ci, e.attr)
                    if at is not None:
                        out |= at
                    elif self.is_enum(ci) and e.attr in ("value", "name"):
                        out |= frozenset({("ext", "str")})
                    else:
                        # inherited from a library base class (`class _Window(deque[float])`): that class's member
                        ext = [b for c in self.mro(ci) for b in self.bases(c) if isinstance(b, str) and "." in b and not b.endswith((".NamedTuple", ".Generic", ".Protocol", ".Enum"))]
                        if len(ext) == 1:
                            out |= frozenset({("ext", f"{ext[0]}.{e.attr}")})
                        else:
                            out |= ANY
                elif a[0] == "type":
                    ci = self.classes[a[1]]
                    meth = self.find_method(ci, e.attr)
                    if meth is not None:
                        out |= frozenset({("bound", meth.qual, ci.qual)})
                    elif e.attr in ci.class_consts and self.is_enum(ci):
                        out |= frozenset({("cls", ci.qual)})
                    else:
                        out |= ANY
                elif a[0] == "mod":
                    k, p = self.module_symbol(a[1], e.attr)
                    out |= self._sym_type(k, p)
                elif a[0] == "ext":
                    out |= frozenset({("ext", f"{a[1]}.{e.attr}")})
                elif a[0] == "cb":
                    out |= frozenset({("cb", f"{a[1]}.{e.attr}")})
                elif a[0] == "none":
                    continue
                else:
                    out |= ANY
            return out or ANY
        if isinstance(e, ast.Call):
            return self._call_type(e, fi)
        if isinstance(e, ast.BoolOp):
            out = frozenset()
            for v in e.values:
                out |= self.type_of(v, fi)
            return out
        if isinstance(e, ast.IfExp):
            return self.type_of(e.body, fi) | self.type_of(e.orelse, fi)
        if isinstance(e, ast.Tuple):
            return frozenset({("tuple", tuple(self.type_of(x, fi) for x in e.elts))})
        if isinstance(e, ast.Lambda):
            return frozenset({("ext", "lambda")})
        if isinstance(e, ast.NamedExpr):
            return self.type_of(e.value, fi)
        return ANY

    def _sym_type(self, k: str, p: Any) -> Ty:
        if k == "func":
            return frozenset({("func", p.qual)})
        if k == "class":
            return frozenset({("type", p.qual)})
        if k == "mod":
            return frozenset({("mod", p)})
        if k == "ext":
            return frozenset({("ext", p)})
        if k == "assign":
            return ANY
        return ANY

    def _call_type(self, e: ast.Call, fi: FuncInfo) -> Ty:
        f = e.func
        if isinstance(f, ast.Name) and f.id == "cast" and len(e.args) == 2:
            t = self.parse_ann(e.args[0], fi.module, fi=fi)
            return t if t != ANY else self.type_of(e.args[1], fi)
        if isinstance(f, ast.Name) and f.id == "getattr" and len(e.args) >= 2:
            base = self.type_of(e.args[0], fi)
            if isinstance(e.args[1], ast.Constant) and isinstance(e.args[1].value, str):
                fake = ast.Attribute(value=e.args[0], attr=e.args[1].value, ctx=ast.Load())
                t = self.type_of(fake, fi)
                cbs = frozenset(a for a in t if a[0] == "cb")
                if cbs:
                    return cbs | (NONE if len(e.args) == 3 else frozenset())
            return ANY
        if isinstance(f, ast.Name) and f.id == "super":
            ci = fi.cls
            if ci is not None:
                bs = [b for b in self.bases(ci) if isinstance(b, ClassInfo)]
                if bs:
                    return frozenset({("cls", bs[0].qual)})
            return ANY
        ft = self.type_of(f, fi)
        out: Ty = frozenset()
        for a in ft:
            if a[0] == "type":
                out |= frozenset({("cls", a[1])})
            elif a[0] in ("func", "bound"):
                fn = self.funcs[a[1]]
                out |= self.parse_ann(fn.node.returns, fn.module, fi=fn)
            elif a[0] == "ext":
                out |= frozenset({("ext", a[1] + "()")})
            elif a[0] == "cb":
                out |= frozenset({("ext", "cbret:" + a[1])})
            else:
                out |= ANY
        return out or ANY

    # ------------------------------------------------------------------ call resolution
    def resolve_call(self, call: ast.Call, fi: FuncInfo) -> list[Target]:
        f = call.func
        if isinstance(f, ast.Name) and f.id == "super":
            return [Target("lib", name="builtins.super")]
        if isinstance(f, ast.Name) and f.id == "cast":
            return [Target("lib", name="typing.cast")]
        ft = self.type_of(f, fi)
        self_expr = f.value if isinstance(f, ast.Attribute) else None
        out: list[Target] = []
        for a in sorted(ft, key=repr):
            if a[0] == "func":
                out.append(Target("repo", func=self.funcs[a[1]], via="name"))
            elif a[0] == "bound":
                fn = self.funcs[a[1]]
                out.append(Target("repo", func=fn, self_expr=self_expr, via="method"))
            elif a[0] == "type":
                ci = self.classes[a[1]]
                out.append(Target("ctor", cls=ci, func=self.find_method(ci, "__init__"), via="class"))
            elif a[0] == "cb":
                out.append(Target("callback", category=a[1], via="annotation"))
            elif a[0] == "ext":
                out.append(Target("lib", name=a[1]))
            elif a[0] == "none":
                continue
            elif a[0] == "cls":
                ci = self.classes[a[1]]
                meth = self.find_method(ci, "__call__")
                if meth is not None:
                    out.append(Target("repo", func=meth, self_expr=f, via="__call__"))
                else:
                    out.append(Target("unknown", name=ast.unparse(f)))
            else:
                out.append(Target("unknown", name=ast.unparse(f)))
        if not out or all(t.kind == "unknown" for t in out):
            # fallback: attribute name that is unique among repository attributes
            if isinstance(f, ast.Attribute):
                t2 = self._unique_attr(f.attr)
                if t2 is not None:
                    t2.self_expr = self_expr
                    return [t2]
            return [Target("unknown", name=ast.unparse(f))]
        return out

    def _unique_attr(self, attr: str) -> Target | None:
        meths = [c.methods[attr] for c in self.classes.values() if attr in c.methods]
        tys = [c.attr_types[attr] for c in self.classes.values() if attr in c.attr_types]
        cbs = {a for t in tys for a in t if a[0] == "cb"}
        if not meths and len(cbs) == 1:
            (a,) = cbs
            return Target("callback", category=a[1], via="unique-attribute-name")
        if len(meths) == 1 and not cbs:
            return Target("repo", func=meths[0], via="unique-attribute-name")
        return None

    # ------------------------------------------------------------------ read sets
    def reads(self, fi: FuncInfo) -> frozenset[str]:
        """attribute names loaded in `fi` or in any repository function it may call"""
        cache = self.__dict__.setdefault("_reads", {})
        if fi.qual in cache:
            return cache[fi.qual]
        cache[fi.qual] = frozenset()  # recursion guard
        out: set[str] = set()
        for n in self._own_nodes(fi.node):
            if isinstance(n, ast.Attribute) and isinstance(n.ctx, ast.Load):
                out.add(n.attr)
            elif isinstance(n, ast.Call):
                for t in self.resolve_call(n, fi):
                    if t.func is not None and t.func.qual != fi.qual:
                        out |= self.reads(t.func)
                    if t.kind == "ctor" and t.cls is not None:
                        pass
        for sub in fi.nested.values():
            out |= self.reads(sub)
        cache[fi.qual] = frozenset(out)
        return cache[fi.qual]

    # ------------------------------------------------------------------ helpers
    def func(self, qual: str) -> FuncInfo:
        fi = self.funcs.get(qual)
        if fi is None:
            # moved to another module of the package under the same name? (unique match only)
            tail = qual.split(":", 1)[-1]
            cands = [f for q, f in self.funcs.items() if q.split(":", 1)[-1] == tail and not f.module.name.startswith(("redress.testing", "redress.cli", "redress.contrib"))]
            if len(cands) == 1:
                self.__dict__.setdefault("moved_anchors", {})[qual] = cands[0].qual
                return cands[0]
            raise AnalysisError(f"anchor vanished: function {qual}")
        return fi

    def cls(self, qual: str) -> ClassInfo:
        ci = self.classes.get(qual)
        if ci is None:
            tail = qual.split(":", 1)[-1]
            cands = [c for q, c in self.classes.items() if q.split(":", 1)[-1] == tail and not c.module.name.startswith(("redress.testing", "redress.cli", "redress.contrib"))]
            if len(cands) == 1:
                self.__dict__.setdefault("moved_anchors", {})[qual] = cands[0].qual
                return cands[0]
            raise AnalysisError(f"anchor vanished: class {qual}")
        return ci

    def digests(self, mods: Iterable[str] | None = None) -> dict[str, str]:
        ms = self.modules.values() if mods is None else [self.modules[n] for n in mods if n in self.modules]
        return {m.relpath: m.digest for m in ms}

    def enum_const(self, e: ast.expr, fi: FuncInfo) -> tuple[str, str] | None:
        """`StopReason.ABORTED` -> ("StopReason", "ABORTED") if it is a repo enum member."""
        if isinstance(e, ast.Attribute) and e.attr == "value":
            # EventName.X.value is used as the event string: report the member
            inner = self.enum_const(e.value, fi)
            if inner is not None:
                return inner
        if isinstance(e, ast.Attribute) and isinstance(e.value, (ast.Name, ast.Attribute)):
            t = self.type_of(e.value, fi)
            for a in t:
                if a[0] == "type":
                    ci = self.classes[a[1]]
                    if self.is_enum(ci) and e.attr in ci.class_consts:
                        return (ci.name, e.attr)
        return None


_PROGRAM: Program | None = None


def program() -> Program:
    global _PROGRAM
    if _PROGRAM is None:
        _PROGRAM = Program()
    return _PROGRAM
