"""Alpha-renaming of private members of the two small thread-shared classes back to the names the rules use.

Renaming a private attribute or private helper method (`_probe_in_flight` -> `_probe_outstanding`,
`_prune` -> `_drop_expired`) changes no behaviour.  Rather than teaching every rule every spelling, the
module's syntax tree is alpha-renamed *in memory* before analysis: each canonical private name is identified by
its ROLE (what `__init__` binds it to / what the helper's body does); when a canonical name is missing and exactly
one unclaimed member plays its role, that member is renamed back inside the class body.  A consistent bijection
on class-private identifiers is semantics preserving, so the rules then analyse an alpha-equivalent program; line
numbers are untouched.  Ambiguity or a missing role is left alone (the rules then report the vanished anchor).
"""

from __future__ import annotations

import ast
from typing import Callable


def _init_bindings(cls: ast.ClassDef) -> dict[str, ast.expr]:
    out: dict[str, ast.expr] = {}
    for st in cls.body:
        if isinstance(st, ast.FunctionDef) and st.name == "__init__":
            self_name = st.args.args[0].arg if st.args.args else "self"
            for n in ast.walk(st):
                tgt = val = None
                if isinstance(n, ast.Assign) and len(n.targets) == 1:
                    tgt, val = n.targets[0], n.value
                elif isinstance(n, ast.AnnAssign) and n.value is not None:
                    tgt, val = n.target, n.value
                if isinstance(tgt, ast.Attribute) and isinstance(tgt.value, ast.Name) and tgt.value.id == self_name and val is not None:
                    out.setdefault(tgt.attr, val)
    return out


_DEQUE_SUBS: set[str] = set()


def _is_call(v: ast.expr, *names: str) -> bool:
    if not (isinstance(v, ast.Call) and not v.args and not v.keywords):
        return False
    fn = ast.unparse(v.func)
    return fn in names or ("deque" in names and fn in _DEQUE_SUBS)


def _from_param(p: str) -> Callable[[ast.expr], bool]:
    return lambda v: isinstance(v, ast.Name) and v.id == p


def _method_role(fn: ast.FunctionDef) -> str | None:
    calls = [n.func.attr for n in ast.walk(fn) if isinstance(n, ast.Call) and isinstance(n.func, ast.Attribute)]
    has_while = any(isinstance(n, ast.While) for n in ast.walk(fn))
    if has_while and "popleft" in calls and "append" not in calls:
        return "prune"
    if calls and all(c == "clear" for c in calls) and not fn.args.args[1:]:
        return "clear"
    if "append" in calls and any(isinstance(n, ast.Return) and n.value is not None for n in ast.walk(fn)) and len(fn.args.args) == 3:
        return "note"
    returns_value = any(isinstance(n, ast.Return) and n.value is not None for n in ast.walk(fn))
    if "append" in calls and not returns_value and len(fn.args.args) == 2:
        return "record"  # AdaptiveStrategy: one outcome appended to the window
    if returns_value and not fn.args.args[1:] and "append" not in calls and any(isinstance(n, ast.With) for n in ast.walk(fn)) and any(isinstance(n, ast.BinOp) and isinstance(n.op, ast.Div) for n in ast.walk(fn)):
        return "ratio"  # AdaptiveStrategy: the multiplier computed from the failure ratio under the lock
    return None


FIELD_ROLES = {
    "redress.circuit:CircuitBreaker": {
        "_failure_threshold": _from_param("failure_threshold"),
        "_window_s": _from_param("window_s"),
        "_recovery_timeout_s": _from_param("recovery_timeout_s"),
        "_trip_on": _from_param("trip_on"),
        "_class_thresholds": _from_param("class_thresholds"),
        "_clock": _from_param("clock"),
        "_state": lambda v: isinstance(v, ast.Attribute) and v.attr == "CLOSED",
        "_opened_at": lambda v: isinstance(v, ast.Constant) and v.value is None,
        "_probe_in_flight": lambda v: isinstance(v, ast.Constant) and v.value is False,
        "_failures": lambda v: _is_call(v, "deque", "collections.deque"),
        "_class_failures": lambda v: (isinstance(v, ast.Dict) and not v.keys) or _is_call(v, "dict"),
        "_lock": lambda v: _is_call(v, "threading.Lock", "Lock"),
    },
    "redress.budget:Budget": {
        "_events": lambda v: _is_call(v, "deque", "collections.deque"),
        "_lock": lambda v: _is_call(v, "threading.Lock", "Lock"),
    },
    "redress.strategies:AdaptiveStrategy": {},  # a dataclass: its private helper methods are renamed back by role
}
METHOD_ROLES = {
    "redress.circuit:CircuitBreaker": {"_note_failure": "note", "_prune": "prune", "_clear_failures": "clear"},
    "redress.budget:Budget": {"_prune": "prune"},
    "redress.strategies:AdaptiveStrategy": {"_multiplier": "ratio", "_prune": "prune", "_record": "record"},
}


def normalise_module(module_name: str, tree: ast.Module) -> dict[str, dict[str, str]]:
    """rename in place; returns {class qual: {actual name: canonical name}} for the evidence"""
    done: dict[str, dict[str, str]] = {}
    # a private deque subclass of this module plays the deque's role (`self._tokens = _TokenWindow()`)
    deque_subs = {c.name for c in tree.body if isinstance(c, ast.ClassDef) and any(ast.unparse(b).split("[")[0].split(".")[-1] == "deque" for b in c.bases)}
    _DEQUE_SUBS.clear()
    _DEQUE_SUBS.update(deque_subs)
    for cls in [n for n in tree.body if isinstance(n, ast.ClassDef)]:
        qual = f"{module_name}:{cls.name}"
        if qual not in FIELD_ROLES:
            continue
        binds = _init_bindings(cls)
        methods = {st.name: st for st in cls.body if isinstance(st, (ast.FunctionDef, ast.AsyncFunctionDef))}
        used_attrs = {n.attr for n in ast.walk(cls) if isinstance(n, ast.Attribute)}
        ren: dict[str, str] = {}
        canon_fields = FIELD_ROLES[qual]
        for canon, pred in canon_fields.items():
            if canon in binds or canon in used_attrs:
                continue
            cands = [a for a, v in binds.items() if a.startswith("_") and a not in canon_fields and a not in ren and pred(v)]
            # a role shared by several canonical names (two deque() fields) is only resolved when unambiguous
            rivals = [c for c, p2 in canon_fields.items() if c != canon and c not in binds and any(p2(binds[a]) for a in cands)]
            if len(cands) == 1 and not rivals:
                ren[cands[0]] = canon
        canon_methods = METHOD_ROLES.get(qual, {})
        for canon, role in canon_methods.items():
            if canon in methods:
                continue
            cands = [nm for nm, fn in methods.items() if nm.startswith("_") and not nm.startswith("__") and nm not in canon_methods and nm not in ren and isinstance(fn, ast.FunctionDef) and _method_role(fn) == role]
            if len(cands) == 1:
                ren[cands[0]] = canon
        if not ren:
            continue
        for n in ast.walk(cls):
            if isinstance(n, ast.Attribute) and n.attr in ren:
                n.attr = ren[n.attr]
            elif isinstance(n, (ast.FunctionDef, ast.AsyncFunctionDef)) and n.name in ren:
                n.name = ren[n.name]
        done[qual] = ren
    return done


# ------------------------------------------------------------------ functools.partial

def _partial_names(tree: ast.Module) -> set[str]:
    """spellings under which functools.partial is visible in this module"""
    out: set[str] = set()
    for st in tree.body:
        if isinstance(st, ast.Import):
            for a in st.names:
                if a.name == "functools":
                    out.add(f"{a.asname or 'functools'}.partial")
        elif isinstance(st, ast.ImportFrom) and st.module == "functools" and st.level == 0:
            for a in st.names:
                if a.name == "partial":
                    out.add(a.asname or "partial")
    return out


def _own_nodes(fn: ast.AST):
    """nodes of a function body, nested scopes included (a nested def may read the partial too)"""
    for st in getattr(fn, "body", []):
        yield from ast.walk(st)


def desugar_partials(tree: ast.Module) -> int:
    """`g = functools.partial(f, a, k=v)` ... `g(x, k2=w)`  ==>  `f(a, x, k=v, k2=w)`.

    Rewritten in memory only when it is an identity on behaviour: `g` is bound exactly once in the function and is
    used only as the callee of direct calls; `f` is a name / dotted name and every captured argument a constant or a
    name whose every binding completes before the partial is created (all its stores lie in top-level statements of the
    function that precede the one creating the partial), so the value captured at creation is the value a read at the
    call would give.  A keyword given at the call overrides the captured one, as partial does.  Anything else is left
    as written."""
    import copy

    pnames = _partial_names(tree)
    if not pnames:
        return 0
    count = 0
    for fn in [n for n in ast.walk(tree) if isinstance(n, (ast.FunctionDef, ast.AsyncFunctionDef))]:
        own_params = set(fn.args.args + fn.args.kwonlyargs + fn.args.posonlyargs)
        stores: dict[str, list[int]] = {}  # name -> indices of the top-level statements that (re)bind it; -1 = unknowable
        top_of: dict[int, int] = {}
        nodes: list[ast.AST] = []
        for idx, top in enumerate(fn.body):
            for n in ast.walk(top):
                nodes.append(n)
                top_of[id(n)] = idx
                if isinstance(n, ast.Name) and isinstance(n.ctx, (ast.Store, ast.Del)):
                    stores.setdefault(n.id, []).append(idx)
                elif isinstance(n, (ast.FunctionDef, ast.AsyncFunctionDef, ast.ClassDef)):
                    stores.setdefault(n.name, []).append(idx)
                elif isinstance(n, ast.arg) and n not in own_params:
                    stores.setdefault(n.arg, []).append(-1)  # a nested function's parameter shadows the name
                elif isinstance(n, (ast.Global, ast.Nonlocal)):
                    for nm in n.names:
                        stores.setdefault(nm, []).append(-1)
        for st in nodes:
            if not (isinstance(st, ast.Assign) and len(st.targets) == 1 and isinstance(st.targets[0], ast.Name)):
                continue
            g, call = st.targets[0].id, st.value
            if not (isinstance(call, ast.Call) and ast.unparse(call.func) in pnames and call.args) or len(stores.get(g, [])) != 1:
                continue
            here = top_of[id(st)]
            f, pargs, pkws = call.args[0], call.args[1:], call.keywords

            def settled(name: str) -> bool:
                return all(0 <= i < here for i in stores.get(name, []))

            def stable(e: ast.expr) -> bool:
                return isinstance(e, ast.Constant) or (isinstance(e, ast.Name) and settled(e.id))

            root = f
            while isinstance(root, ast.Attribute):
                root = root.value
            if not (isinstance(root, ast.Name) and settled(root.id)):
                continue
            if not all(stable(a) for a in pargs) or not all(k.arg is not None and stable(k.value) for k in pkws):
                continue
            uses = [n for n in nodes if isinstance(n, ast.Name) and n.id == g and isinstance(n.ctx, ast.Load)]
            calls = [n for n in nodes if isinstance(n, ast.Call) and isinstance(n.func, ast.Name) and n.func.id == g]
            if not calls or len(uses) != len(calls):
                continue  # escapes (returned, stored, passed on): keep as written
            if any(isinstance(a, ast.Starred) for c in calls for a in c.args) or any(k.arg is None for c in calls for k in c.keywords):
                continue
            for c in calls:
                given = {k.arg for k in c.keywords}
                c.func = ast.copy_location(copy.deepcopy(f), c.func)
                c.args = [ast.copy_location(copy.deepcopy(a), c) for a in pargs] + c.args
                c.keywords = [ast.copy_location(copy.deepcopy(k), c) for k in pkws if k.arg not in given] + c.keywords
                for sub in ast.walk(c):
                    if not hasattr(sub, "lineno") and isinstance(sub, (ast.expr, ast.keyword)):
                        ast.copy_location(sub, c)
            st.value = ast.copy_location(ast.Constant(value=None), call)  # the partial object itself is now dead
            count += 1
    return count


# ------------------------------------------------------------------ a record of settings held in one field

def _record_classes(tree: ast.Module) -> dict[str, list[str]]:
    """NamedTuple / frozen-or-plain dataclass classes of this module without methods that could intercept field
    access -> field names in order"""
    out: dict[str, list[str]] = {}
    for c in tree.body:
        if not isinstance(c, ast.ClassDef):
            continue
        is_nt = any(ast.unparse(b).split(".")[-1] == "NamedTuple" for b in c.bases)
        is_dc = any(ast.unparse(d).split("(")[0].split(".")[-1] == "dataclass" for d in c.decorator_list)
        if not (is_nt or is_dc):
            continue
        if any(isinstance(st, (ast.FunctionDef, ast.AsyncFunctionDef)) and st.name in ("__init__", "__new__", "__post_init__", "__getattribute__", "__getattr__", "__setattr__") for st in c.body):
            continue
        fields = [st.target.id for st in c.body if isinstance(st, ast.AnnAssign) and isinstance(st.target, ast.Name)]
        members = {st.name for st in c.body if isinstance(st, (ast.FunctionDef, ast.AsyncFunctionDef))}
        if fields and not (members & set(fields)):
            out[c.name] = fields
    return out


def flatten_settings_records(module_name: str, tree: ast.Module) -> dict[str, dict[str, str]]:
    """`self._settings = _Settings(...)` (or a helper of this module declared to return one) bound once in `__init__`
    and only ever read as `self._settings.<field>`: each such read is the read of a field of the object itself.

    For the classes whose private fields the rules name (FIELD_ROLES) the record's fields are mapped onto those names
    (`self._settings.window_s` -> `self._window_s`) and `__init__` gets the equivalent stores
    (`self._window_s = self._settings.window_s`) right after the record is bound - an immutable record read through
    one never-rebound field is the same value either way."""
    done: dict[str, dict[str, str]] = {}
    recs = _record_classes(tree)
    if not recs:
        return done
    returns = {f.name: ast.unparse(f.returns).strip("'\"") for f in tree.body if isinstance(f, ast.FunctionDef) and f.returns is not None}
    for cls in [n for n in tree.body if isinstance(n, ast.ClassDef)]:
        qual = f"{module_name}:{cls.name}"
        if qual not in FIELD_ROLES:
            continue
        canon = FIELD_ROLES[qual]
        init = next((st for st in cls.body if isinstance(st, ast.FunctionDef) and st.name == "__init__"), None)
        if init is None:
            continue
        selfn = init.args.args[0].arg if init.args.args else "self"
        stores = [n for n in ast.walk(cls) if isinstance(n, ast.Attribute) and isinstance(n.ctx, (ast.Store, ast.Del)) and isinstance(n.value, ast.Name)]
        for i, st in enumerate(list(init.body)):
            tgt = val = None
            if isinstance(st, ast.Assign) and len(st.targets) == 1:
                tgt, val = st.targets[0], st.value
            elif isinstance(st, ast.AnnAssign) and st.value is not None:
                tgt, val = st.target, st.value
            if not (isinstance(tgt, ast.Attribute) and isinstance(tgt.value, ast.Name) and tgt.value.id == selfn and isinstance(val, ast.Call)):
                continue
            S = tgt.attr
            if isinstance(val.func, ast.Attribute) and isinstance(val.func.value, ast.Name) and val.func.value.id in recs:
                # `_Settings.validated(...)`: a factory classmethod / staticmethod of the record class itself
                rname = val.func.value.id
                rc = next(c for c in tree.body if isinstance(c, ast.ClassDef) and c.name == rname)
                fac = next((m_ for m_ in rc.body if isinstance(m_, ast.FunctionDef) and m_.name == val.func.attr), None)
                if fac is None or not any(ast.unparse(d) in ("classmethod", "staticmethod") for d in fac.decorator_list):
                    continue
            elif isinstance(val.func, ast.Name):
                rname = val.func.id if val.func.id in recs else returns.get(val.func.id)
            else:
                continue
            if rname not in recs or S in canon:
                continue
            if sum(1 for n in stores if n.attr == S) != 1:
                continue  # re-bound somewhere: not a constant of the object
            fields = recs[rname]
            mapping = {f: "_" + f for f in fields if "_" + f in canon}
            if not mapping:
                continue
            bound_elsewhere = {n.attr for n in stores}
            if any(m in bound_elsewhere for m in mapping.values()):
                continue
            # every use of self.S is a read of one of its fields
            uses = [n for n in ast.walk(cls) if isinstance(n, ast.Attribute) and n.attr == S and isinstance(n.value, ast.Name) and isinstance(n.ctx, ast.Load)]
            parents = {id(n.value): n for n in ast.walk(cls) if isinstance(n, ast.Attribute) and isinstance(n.value, ast.Attribute)}
            if not all(id(u) in parents and parents[id(u)].attr in fields and isinstance(parents[id(u)].ctx, ast.Load) for u in uses):
                continue
            for u in uses:
                par = parents[id(u)]
                if par.attr in mapping:
                    par.value = ast.copy_location(ast.Name(id=u.value.id, ctx=ast.Load()), u)
                    par.attr = mapping[par.attr]
            extra = []
            for f, c in mapping.items():
                a = ast.Assign(targets=[ast.Attribute(value=ast.Name(id=selfn, ctx=ast.Load()), attr=c, ctx=ast.Store())], value=ast.Attribute(value=ast.Attribute(value=ast.Name(id=selfn, ctx=ast.Load()), attr=S, ctx=ast.Load()), attr=f, ctx=ast.Load()))
                ast.copy_location(a, st)
                ast.fix_missing_locations(a)
                extra.append(a)
            pos = init.body.index(st)
            init.body[pos + 1 : pos + 1] = extra
            done.setdefault(qual, {}).update({f"{S}.{f}": c for f, c in mapping.items()})
    return done


# ------------------------------------------------------------------ a known method turned into a property

def unproperty_known_methods(trees: dict[str, ast.Module], known_funcs: set[str]) -> dict[str, str]:
    """`def elapsed(self)` -> `@property def elapsed(self)` with every `x.elapsed()` rewritten to `x.elapsed`: the
    same calls at the same points, spelled as attribute reads.  The rules know the method as a method (a call event);
    when *every* class of the package that has a member of that name defines it as a property that used to be a
    known zero-argument method, and nothing else in the package uses the name as a field, the decoration is undone in
    memory: `@property` dropped, every read `x.<name>` turned back into the call `x.<name>()`."""
    defs: dict[str, list[tuple[str, ast.ClassDef, ast.FunctionDef]]] = {}
    fields: set[str] = set()
    for mod, tree in trees.items():
        for cls in [n for n in ast.walk(tree) if isinstance(n, ast.ClassDef)]:
            for st in cls.body:
                if isinstance(st, (ast.FunctionDef, ast.AsyncFunctionDef)):
                    defs.setdefault(st.name, []).append((mod, cls, st))
                elif isinstance(st, ast.AnnAssign) and isinstance(st.target, ast.Name):
                    fields.add(st.target.id)
                elif isinstance(st, ast.Assign):
                    fields.update(t.id for t in st.targets if isinstance(t, ast.Name))
        for n in ast.walk(tree):
            if isinstance(n, ast.Attribute) and isinstance(n.ctx, (ast.Store, ast.Del)):
                fields.add(n.attr)
    done: dict[str, str] = {}
    for name, ds in defs.items():
        if name.startswith("__") or name in fields:
            continue
        is_prop = lambda f: any(isinstance(d, ast.Name) and d.id == "property" for d in f.decorator_list)  # noqa: E731
        if not all(is_prop(f) and len(f.decorator_list) == 1 and len(f.args.args) == 1 and not f.args.kwonlyargs and not f.args.vararg and not f.args.kwarg and isinstance(f, ast.FunctionDef) for _m, _c, f in ds):
            continue
        if not all(f"{m}:{c.name}.{name}" in known_funcs for m, c, _f in ds):
            continue
        # every use of the name is a plain read (never already called, never assigned)
        calls = set()
        loads = []
        for tree in trees.values():
            for n in ast.walk(tree):
                if isinstance(n, ast.Call) and isinstance(n.func, ast.Attribute) and n.func.attr == name:
                    calls.add(id(n.func))
            for n in ast.walk(tree):
                if isinstance(n, ast.Attribute) and n.attr == name and isinstance(n.ctx, ast.Load):
                    loads.append(n)
        if any(id(n) in calls for n in loads) or not loads:
            continue
        for _m, _c, f in ds:
            f.decorator_list = []
        # rewrite reads into calls (parents needed: replace the node in place by mutating it into a Call is not
        # possible, so parents are patched)
        for tree in trees.values():
            class R(ast.NodeTransformer):
                def visit_Attribute(self, n: ast.Attribute) -> ast.AST:
                    self.generic_visit(n)
                    if n.attr == name and isinstance(n.ctx, ast.Load):
                        return ast.copy_location(ast.Call(func=n, args=[], keywords=[]), n)
                    return n

            R().visit(tree)
            ast.fix_missing_locations(tree)
        for m, c, _f in ds:
            done[f"{m}:{c.name}.{name}"] = "property -> method"
    return done


# ------------------------------------------------------------------ renamed parameters of private functions

def restore_param_names(trees: dict[str, ast.Module]) -> dict[str, dict[str, str]]:
    """A private function (`_name`) keeps its role when its parameters are renamed (`action` -> `requested`): callers of
    a private function live in the package and were updated with it.  The rules name some of those parameters, so
    each private function recorded in `known_signatures.json` whose parameters are the same in number and kind but
    spelled differently gets its recorded spelling back in memory - the `arg` nodes, every use inside the function and
    the keywords of calls to a function of that name.  A bijection on local identifiers: semantics preserving.
    Re-ordered or added / removed parameters are left alone."""
    import json
    import os

    try:
        with open(os.path.join(os.path.dirname(os.path.abspath(__file__)), "known_signatures.json")) as fh:
            sigs = json.load(fh)
    except (OSError, ValueError):
        return {}
    done: dict[str, dict[str, str]] = {}
    kw_renames: dict[str, dict[str, str]] = {}  # function name -> {new keyword: recorded keyword}
    for mod, tree in trees.items():
        cands: list[tuple[str, ast.AST]] = []
        for st in tree.body:
            if isinstance(st, (ast.FunctionDef, ast.AsyncFunctionDef)):
                cands.append((f"{mod}:{st.name}", st))
            elif isinstance(st, ast.ClassDef):
                for m in st.body:
                    if isinstance(m, (ast.FunctionDef, ast.AsyncFunctionDef)):
                        cands.append((f"{mod}:{st.name}.{m.name}", m))
        for qual, fn in cands:
            rec = sigs.get(qual)
            if rec is None:
                continue
            a = fn.args
            cur_pos = [x.arg for x in a.posonlyargs + a.args]
            cur_kw = [x.arg for x in a.kwonlyargs]
            if len(cur_pos) != len(rec["pos"]) or len(cur_kw) != len(rec["kwonly"]):
                continue
            cur, want = cur_pos + cur_kw, rec["pos"] + rec["kwonly"]
            ren = {c: w for c, w in zip(cur, want) if c != w}
            if not ren:
                continue
            if set(ren.values()) & set(cur):
                continue  # a recorded name is in use at another position: a re-ordering, not a renaming
            names_in_body = {n.id for n in ast.walk(fn) if isinstance(n, ast.Name)} | {x.arg for n in ast.walk(fn) if isinstance(n, (ast.FunctionDef, ast.AsyncFunctionDef, ast.Lambda)) and n is not fn for x in n.args.args}
            if set(ren.values()) & names_in_body:
                continue  # the recorded spelling is used for something else in the body
            for x in a.posonlyargs + a.args + a.kwonlyargs:
                if x.arg in ren:
                    x.arg = ren[x.arg]
            for n in ast.walk(fn):
                if isinstance(n, ast.Name) and n.id in ren:
                    n.id = ren[n.id]
            done[qual] = ren
            kw_renames.setdefault(fn.name, {}).update(ren)
    if kw_renames:
        for tree in trees.values():
            for n in ast.walk(tree):
                if isinstance(n, ast.Call):
                    f = n.func
                    fname = f.id if isinstance(f, ast.Name) else (f.attr if isinstance(f, ast.Attribute) else None)
                    if fname in kw_renames:
                        for kw in n.keywords:
                            if kw.arg in kw_renames[fname]:
                                kw.arg = kw_renames[fname][kw.arg]
    return done


# ------------------------------------------------------------------ one-line predicate helpers

def inline_predicates(trees: dict[str, ast.Module], known_funcs: set[str], pkgs: set[str]) -> dict[str, int]:
    """`def _is_set(x): return x is not None`, `def _expired(stamp, cutoff): return stamp <= cutoff`,
    `def _wants_raise(d): return d.action == "raise"`: a module-level function that did not exist when the rules were
    written and whose body is one `return` of an effect-free expression over its parameters (comparisons, identity /
    isinstance tests, boolean operators, attribute reads, constants) is a *name for that expression*.  Calls with plain
    arguments (names, attribute chains, constants; no keyword tricks) are replaced by the expression in memory - the
    same value, and the tests the rules know are visible again."""
    import copy

    PURE_CALLS = {"isinstance", "len", "callable", "type"}

    def effect_free(e: ast.AST) -> bool:
        for n in ast.walk(e):
            if isinstance(n, (ast.Await, ast.NamedExpr, ast.Yield, ast.YieldFrom, ast.Lambda, ast.GeneratorExp, ast.ListComp, ast.SetComp, ast.DictComp, ast.Starred)):
                return False
            if isinstance(n, ast.Call) and not (isinstance(n.func, ast.Name) and n.func.id in PURE_CALLS and not n.keywords):
                return False
        return True

    def plain(e: ast.expr) -> bool:
        return isinstance(e, (ast.Name, ast.Constant)) or (isinstance(e, ast.Attribute) and plain(e.value))

    defs: dict[tuple[str, str], ast.FunctionDef] = {}
    for mod, tree in trees.items():
        for st in tree.body:
            if not isinstance(st, ast.FunctionDef) or f"{mod}:{st.name}" in known_funcs or st.decorator_list:
                continue
            body = [s for s in st.body if not (isinstance(s, ast.Expr) and isinstance(s.value, ast.Constant))]
            a = st.args
            if len(body) != 1 or not isinstance(body[0], ast.Return) or body[0].value is None or a.vararg or a.kwarg or a.kwonlyargs or a.defaults:
                continue
            params = [x.arg for x in a.posonlyargs + a.args]
            if not effect_free(body[0].value):
                continue
            names = {n.id for n in ast.walk(body[0].value) if isinstance(n, ast.Name)}
            free = names - set(params)
            # free names must mean the same at the call site: only builtins / names the expression's module and the
            # caller's module are both sure to have - keep it simple: allow enum / class names reached by attribute
            # chains only when caller and callee share the module
            defs[(mod, st.name)] = st
    if not defs:
        return {}
    count: dict[str, int] = {}
    for mod, tree in trees.items():
        imported: dict[str, tuple[str, str]] = {}
        for st in tree.body:
            if isinstance(st, ast.ImportFrom) and st.module is not None or isinstance(st, ast.ImportFrom):
                base = mod.split(".")
                is_pkg = mod in pkgs
                if st.level:
                    up = st.level - (1 if is_pkg else 0)
                    base = base[: len(base) - up] if up else base
                    if not is_pkg:
                        base = mod.split(".")[: len(mod.split(".")) - st.level]
                    target = ".".join(base + ([st.module] if st.module else []))
                else:
                    target = st.module or ""
                for al in st.names:
                    imported[al.asname or al.name] = (target, al.name)

        def resolve(name: str) -> tuple[str, ast.FunctionDef] | None:
            if (mod, name) in defs:
                return mod, defs[(mod, name)]
            if name in imported and imported[name] in defs:
                return imported[name][0], defs[imported[name]]
            return None

        class Inl(ast.NodeTransformer):
            def visit_Call(self, c: ast.Call) -> ast.AST:
                self.generic_visit(c)
                if not isinstance(c.func, ast.Name) or c.keywords:
                    return c
                r = resolve(c.func.id)
                if r is None:
                    return c
                dmod, fn = r
                params = [x.arg for x in fn.args.posonlyargs + fn.args.args]
                if len(c.args) != len(params) or not all(plain(a) for a in c.args):
                    return c
                expr = [s for s in fn.body if isinstance(s, ast.Return)][0].value
                free = {n.id for n in ast.walk(expr) if isinstance(n, ast.Name)} - set(params) - {"isinstance", "len", "callable", "type", "True", "False", "None"}
                if free and dmod != mod:
                    return c  # the expression names things of its own module
                sub = dict(zip(params, c.args))

                class S(ast.NodeTransformer):
                    def visit_Name(self, n: ast.Name) -> ast.AST:
                        if n.id in sub and isinstance(n.ctx, ast.Load):
                            return ast.copy_location(copy.deepcopy(sub[n.id]), n)
                        return n

                new = S().visit(copy.deepcopy(expr))
                for x in ast.walk(new):
                    ast.copy_location(x, c)
                count[f"{dmod}:{fn.name}"] = count.get(f"{dmod}:{fn.name}", 0) + 1
                return new

        Inl().visit(tree)
        ast.fix_missing_locations(tree)
    return count


# ------------------------------------------------------------------ private sub-records dissolved into plain fields

def _tokens(name: str) -> list[str]:
    return [t for t in name.lower().strip("_").split("_") if t]


def _tok_score(a: str, b: str) -> float:
    """overlap of the name tokens of two identifiers (a token matches its own inflection: start / started)"""
    ta, tb = _tokens(a), _tokens(b)
    if not ta or not tb:
        return 0.0

    def same(x: str, y: str) -> bool:
        return x == y or (min(len(x), len(y)) >= 4 and (x.startswith(y) or y.startswith(x)))

    hit = sum(1 for x in ta if any(same(x, y) for y in tb))
    return hit / max(len(ta), len(tb)) if hit else 0.0


def _known_attrs() -> dict[str, list[str]]:
    import json
    import os

    try:
        with open(os.path.join(os.path.dirname(os.path.abspath(__file__)), "known_attrs.json")) as fh:
            return json.load(fh)
    except OSError:
        return {}


def _record_fields(tree: ast.Module) -> dict[str, list[tuple[str, ast.expr | None]]]:
    """plain record classes of this module (dataclass / NamedTuple, no method that could intercept construction or
    field access, no method at all named like a field) -> [(field, default expression or None)] in order"""
    out: dict[str, list[tuple[str, ast.expr | None]]] = {}
    for c in tree.body:
        if not isinstance(c, ast.ClassDef):
            continue
        is_nt = any(ast.unparse(b).split(".")[-1] == "NamedTuple" for b in c.bases)
        is_dc = any(ast.unparse(d).split("(")[0].split(".")[-1] == "dataclass" for d in c.decorator_list)
        if not (is_nt or is_dc) or (is_dc and c.bases):
            continue
        if any(isinstance(st, (ast.FunctionDef, ast.AsyncFunctionDef)) for st in c.body):
            continue  # a record with behaviour is analysed as the class it is
        fields = [(st.target.id, st.value) for st in c.body if isinstance(st, ast.AnnAssign) and isinstance(st.target, ast.Name)]
        if fields:
            out[c.name] = fields
    return out


def _default_value(d: ast.expr | None) -> ast.expr | None:
    import copy

    if d is None:
        return None
    if isinstance(d, ast.Call) and ast.unparse(d.func).split(".")[-1] == "field":
        kw = {k.arg: k.value for k in d.keywords}
        if "default_factory" in kw:
            return ast.Call(func=copy.deepcopy(kw["default_factory"]), args=[], keywords=[])
        if "default" in kw:
            return copy.deepcopy(kw["default"])
        return None
    return copy.deepcopy(d)


def dissolve_subrecords(trees: dict[str, ast.Module]) -> dict[str, dict[str, str]]:
    """`self._status = _Status()` with `_Status` a plain private record of this module, reached only as
    `self._status.<field>` (read or written), through a local bound once to it (`status = self._status`), or replaced as
    a whole by a fresh `_Status(...)`: the record is storage layout, not behaviour - each field is a field of the object
    itself.  The tree is rewritten in memory to that flat form (`self._status.state` -> `self._state`; the whole-record
    store becomes one store per field, the alias disappears).  A field takes the name of the read-only property that
    does nothing but return it (`def last_exc(self): return self._last.exc` - the property is dropped: reading a field),
    else the recorded attribute name of the class (sa/known_attrs.json) that its own name abbreviates, else
    `<record>__<field>`.  Afterwards a recorded attribute that vanished while exactly one new private attribute with an
    overlapping name appeared is that attribute renamed (`start_mono` -> `_started_mono`).  Any other use of the record
    (passed on, returned, compared, reached from outside the class) leaves the class untouched."""
    import copy

    known = _known_attrs()
    import os

    try:
        with open(os.path.join(os.path.dirname(os.path.abspath(__file__)), "known_classes.txt")) as fh:
            known_class_names = {ln.strip().split(":", 1)[-1] for ln in fh if ln.strip()}
    except OSError:
        known_class_names = set()
    done: dict[str, dict[str, str]] = {}
    attr_uses: dict[str, dict[str, int]] = {}  # module -> attribute name -> count
    for mname, tree in trees.items():
        cnt: dict[str, int] = {}
        for n in ast.walk(tree):
            if isinstance(n, ast.Attribute):
                cnt[n.attr] = cnt.get(n.attr, 0) + 1
        attr_uses[mname] = cnt

    def used_outside(mname: str, attr: str, inside: int) -> bool:
        return any(c.get(attr, 0) for m, c in attr_uses.items() if m != mname) or attr_uses[mname].get(attr, 0) != inside

    for mname, tree in trees.items():
        recs = {k: v for k, v in _record_fields(tree).items() if k not in known_class_names}  # records the rules know stay records
        for cls in [c for c in tree.body if isinstance(c, ast.ClassDef)]:
            qual = f"{mname}:{cls.name}"
            if cls.name in recs:
                continue
            init = next((st for st in cls.body if isinstance(st, ast.FunctionDef) and st.name == "__init__"), None)
            if init is None or not init.args.args:
                continue
            parent: dict[int, ast.AST] = {}
            for n in ast.walk(cls):
                for ch in ast.iter_child_nodes(n):
                    parent[id(ch)] = n

            def enclosing(n: ast.AST) -> ast.AST | None:
                while n is not None and not isinstance(n, (ast.FunctionDef, ast.AsyncFunctionDef)):
                    n = parent.get(id(n))
                return n

            selfn = init.args.args[0].arg
            cands = []
            for st in init.body:
                tgt = val = None
                if isinstance(st, ast.Assign) and len(st.targets) == 1:
                    tgt, val = st.targets[0], st.value
                elif isinstance(st, ast.AnnAssign) and st.value is not None:
                    tgt, val = st.target, st.value
                if isinstance(tgt, ast.Attribute) and isinstance(tgt.value, ast.Name) and tgt.value.id == selfn and tgt.attr.startswith("_") and isinstance(val, ast.Call) and isinstance(val.func, ast.Name) and val.func.id in recs:
                    cands.append((tgt.attr, val.func.id))
            ren_all: dict[str, str] = {}
            for S, R in cands:
                fields = recs[R]
                fnames = [f for f, _ in fields]
                occ = [n for n in ast.walk(cls) if isinstance(n, ast.Attribute) and n.attr == S]
                if used_outside(mname, S, len(occ)):
                    continue
                field_uses: list[ast.Attribute] = []
                wholes: list[ast.stmt] = []
                aliases: list[tuple[ast.Assign, ast.AST]] = []
                ok = True
                for n in occ:
                    fn = enclosing(n)
                    if fn is None or not fn.args.args or not (isinstance(n.value, ast.Name) and n.value.id == fn.args.args[0].arg):
                        ok = False
                        break
                    par = parent.get(id(n))
                    if isinstance(par, ast.Attribute) and par.value is n and par.attr in fnames:
                        field_uses.append(par)
                    elif isinstance(par, (ast.Assign, ast.AnnAssign)) and isinstance(n.ctx, ast.Store) and isinstance(par.value, ast.Call) and isinstance(par.value.func, ast.Name) and par.value.func.id == R and (isinstance(par, ast.AnnAssign) or len(par.targets) == 1):
                        wholes.append(par)
                    elif isinstance(par, ast.Assign) and par.value is n and len(par.targets) == 1 and isinstance(par.targets[0], ast.Name):
                        aliases.append((par, fn))
                    else:
                        ok = False
                        break
                if not ok:
                    continue
                alias_uses: list[tuple[ast.Attribute, str]] = []
                for a_st, fn in aliases:
                    nm = a_st.targets[0].id
                    names = [x for x in ast.walk(fn) if isinstance(x, ast.Name) and x.id == nm]
                    if sum(1 for x in names if isinstance(x.ctx, (ast.Store, ast.Del))) != 1 or nm in {a.arg for a in fn.args.args + fn.args.kwonlyargs}:
                        ok = False
                        break
                    for x in names:
                        if isinstance(x.ctx, ast.Load):
                            par = parent.get(id(x))
                            if isinstance(par, ast.Attribute) and par.value is x and par.attr in fnames:
                                alias_uses.append((par, fn.args.args[0].arg))
                            else:
                                ok = False
                                break
                    if not ok:
                        break
                if not ok or (aliases and any(enclosing(w) is not init for w in wholes)):
                    continue
                # constructor bindings of every whole-record store
                bound: list[tuple[ast.stmt, dict[str, ast.expr]]] = []
                for w in wholes:
                    call = w.value
                    if any(isinstance(a, ast.Starred) for a in call.args) or any(k.arg is None for k in call.keywords) or len(call.args) > len(fields):
                        ok = False
                        break
                    vals: dict[str, ast.expr] = {f: a for (f, _), a in zip(fields, call.args)}
                    for k in call.keywords:
                        if k.arg not in fnames or k.arg in vals:
                            ok = False
                            break
                        vals[k.arg] = k.value
                    for f, d in fields:
                        if f not in vals:
                            dv = _default_value(d)
                            if dv is None and not (isinstance(d, ast.Constant) and d.value is None):
                                ok = False
                                break
                            vals[f] = dv if dv is not None else ast.Constant(value=None)
                    if not ok:
                        break
                    bound.append((w, vals))
                if not ok:
                    continue
                # names of the flat fields
                props: dict[str, tuple[str, ast.FunctionDef]] = {}
                setters = {ast.unparse(d).split(".")[0] for st in cls.body if isinstance(st, ast.FunctionDef) for d in st.decorator_list if ast.unparse(d).endswith((".setter", ".deleter"))}
                for st in cls.body:
                    if isinstance(st, ast.FunctionDef) and len(st.decorator_list) == 1 and ast.unparse(st.decorator_list[0]) == "property" and st.name not in setters and len(st.args.args) == 1:
                        body = [b for b in st.body if not (isinstance(b, ast.Expr) and isinstance(b.value, ast.Constant))]
                        if len(body) == 1 and isinstance(body[0], ast.Return) and isinstance(body[0].value, ast.Attribute) and body[0].value.attr in fnames:
                            inner = body[0].value.value
                            if isinstance(inner, ast.Attribute) and inner.attr == S and isinstance(inner.value, ast.Name) and inner.value.id == st.args.args[0].arg and body[0].value.attr not in props:
                                props[body[0].value.attr] = (st.name, st)
                stored = {n.attr for n in ast.walk(cls) if isinstance(n, ast.Attribute) and isinstance(n.ctx, (ast.Store, ast.Del))}
                members = {st.name for st in cls.body if isinstance(st, (ast.FunctionDef, ast.AsyncFunctionDef))}
                missing = [k for k in known.get(qual, []) if k not in stored and k not in members and k not in ren_all.values()]
                canon: dict[str, str] = {}
                for f in fnames:
                    if f in props and props[f][0] not in stored:
                        canon[f] = props[f][0]
                for f in fnames:
                    if f in canon:
                        continue
                    scored = sorted(((_tok_score(f, k), k) for k in missing if k not in canon.values()), reverse=True)
                    if scored and scored[0][0] > 0 and (len(scored) == 1 or scored[1][0] < scored[0][0]):
                        canon[f] = scored[0][1]
                for f in fnames:
                    canon.setdefault(f, f"{S}__{f}")
                if len(set(canon.values())) != len(canon) or any(c in stored or (c in members and not (f in props and props[f][0] == c)) for f, c in canon.items()):
                    continue
                # a constructor argument that reads the object's own fields would observe the field-by-field store
                cn = set(canon.values()) | {p for p, _ in props.values()} | {S}
                if any(isinstance(x, ast.Attribute) and x.attr in cn for _, vals in bound for v in vals.values() for x in ast.walk(v)):
                    continue
                # rewrite
                for par in field_uses:
                    par.attr = canon[par.attr]
                    par.value = par.value.value  # self._status.state -> self.<canon>
                for par, sn in alias_uses:
                    par.attr = canon[par.attr]
                    par.value = ast.copy_location(ast.Name(id=sn, ctx=ast.Load()), par)
                drop = {id(a) for a, _ in aliases} | {id(p[1]) for f, p in props.items() if canon.get(f) == p[0]}
                repl: dict[int, list[ast.stmt]] = {}
                for w, vals in bound:
                    fn = enclosing(w)
                    sn = fn.args.args[0].arg
                    new: list[ast.stmt] = []
                    for f in fnames:
                        a = ast.Assign(targets=[ast.Attribute(value=ast.Name(id=sn, ctx=ast.Load()), attr=canon[f], ctx=ast.Store())], value=copy.deepcopy(vals[f]))
                        ast.copy_location(a, w)
                        for sub in ast.walk(a):
                            if getattr(sub, "lineno", None) is None:
                                ast.copy_location(sub, w)
                        ast.fix_missing_locations(a)
                        new.append(a)
                    repl[id(w)] = new
                for n in ast.walk(cls):
                    for fld in ("body", "orelse", "finalbody"):
                        seq = getattr(n, fld, None)
                        if isinstance(seq, list) and seq and isinstance(seq[0], ast.stmt):
                            out: list[ast.stmt] = []
                            for st in seq:
                                if id(st) in repl:
                                    out.extend(repl[id(st)])
                                elif id(st) in drop:
                                    continue
                                else:
                                    out.append(st)
                            if not out:
                                out = [ast.copy_location(ast.Pass(), seq[0])]
                            seq[:] = out
                for f, c in canon.items():
                    ren_all[f"{S}.{f}"] = c
                # the parent map is stale for the rewritten nodes: rebuild for the next record of this class
                parent.clear()
                for n in ast.walk(cls):
                    for ch in ast.iter_child_nodes(n):
                        parent[id(ch)] = n
                cnt = {}
                for n in ast.walk(tree):
                    if isinstance(n, ast.Attribute):
                        cnt[n.attr] = cnt.get(n.attr, 0) + 1
                attr_uses[mname] = cnt
            # a recorded attribute that vanished while one new private attribute of overlapping name appeared
            if qual in known:
                stored = {n.attr for n in ast.walk(cls) if isinstance(n, ast.Attribute) and isinstance(n.ctx, (ast.Store, ast.Del)) and isinstance(n.value, ast.Name)}
                members = {st.name for st in cls.body if isinstance(st, (ast.FunctionDef, ast.AsyncFunctionDef))}
                used = {n.attr for n in ast.walk(cls) if isinstance(n, ast.Attribute)}
                missing = [k for k in known[qual] if k not in used and k not in members]
                new_attrs = [a for a in stored if a not in known[qual] and a.startswith("_") and not a.startswith("__")]
                for k in missing:
                    scored = sorted(((_tok_score(a, k), a) for a in new_attrs if a not in ren_all), reverse=True)
                    if scored and scored[0][0] >= 0.5 and (len(scored) == 1 or scored[1][0] < scored[0][0]):
                        a = scored[0][1]
                        rivals = [k2 for k2 in missing if k2 != k and _tok_score(a, k2) >= scored[0][0]]
                        inside = sum(1 for n in ast.walk(cls) if isinstance(n, ast.Attribute) and n.attr == a)
                        if rivals or used_outside(mname, a, inside) or any(c.get(k, 0) for m, c in attr_uses.items() if m != mname and False):
                            continue
                        for n in ast.walk(cls):
                            if isinstance(n, ast.Attribute) and n.attr == a:
                                n.attr = k
                        ren_all[a] = k
                        new_attrs.remove(a)
            if ren_all:
                done[qual] = ren_all
    return done


# ------------------------------------------------------------------ generator helpers: delegating iterators, @contextmanager

def _is_docstring(st: ast.stmt) -> bool:
    return isinstance(st, ast.Expr) and isinstance(st.value, ast.Constant) and isinstance(st.value.value, str)


def _simple_arg(e: ast.expr) -> bool:
    """an argument that can be substituted for a parameter: evaluating it has no effect and cannot be observed twice"""
    return all(isinstance(n, (ast.Name, ast.Attribute, ast.Constant, ast.Load, ast.BinOp, ast.operator, ast.UnaryOp, ast.unaryop)) for n in ast.walk(e))


def _bind_args(fn: ast.FunctionDef, call: ast.Call, recv: ast.expr | None) -> dict[str, ast.expr] | None:
    a = fn.args
    if a.vararg or a.kwarg or a.posonlyargs or any(isinstance(x, ast.Starred) for x in call.args) or any(k.arg is None for k in call.keywords):
        return None
    params = [p.arg for p in a.args]
    out: dict[str, ast.expr] = {}
    if recv is not None:
        if not params:
            return None
        out[params[0]] = recv
        params = params[1:]
    if len(call.args) > len(params):
        return None
    for p, v in zip(params, call.args):
        out[p] = v
    for k in call.keywords:
        if k.arg in out or k.arg not in params + [p.arg for p in a.kwonlyargs]:
            return None
        out[k.arg] = k.value
    defaults = dict(zip([p.arg for p in a.args][len(a.args) - len(a.defaults):], a.defaults))
    defaults.update({p.arg: d for p, d in zip(a.kwonlyargs, a.kw_defaults) if d is not None})
    for p in params + [p.arg for p in a.kwonlyargs]:
        if p not in out:
            if p not in defaults:
                return None
            out[p] = defaults[p]
    if not all(_simple_arg(v) for v in out.values()):
        return None
    return out


class _Subst(ast.NodeTransformer):
    def __init__(self, mp: dict[str, ast.expr], ren: dict[str, str]) -> None:
        self.mp, self.ren = mp, ren

    def visit_Name(self, n: ast.Name) -> ast.AST:
        import copy

        if n.id in self.mp and isinstance(n.ctx, ast.Load):
            return ast.copy_location(copy.deepcopy(self.mp[n.id]), n)
        if n.id in self.ren:
            return ast.copy_location(ast.Name(id=self.ren[n.id], ctx=n.ctx), n)
        return n


def inline_generator_helpers(trees: dict[str, ast.Module], known_funcs: set[str]) -> dict[str, int]:
    """Two generator idioms that only re-spell what their caller could have written in place, expanded in memory:

    * a delegating iterator - `def _attempt_numbers(n): yield from range(1, n + 1)` (or `for x in E: yield x`) - called
      with plain arguments: the call is the iterable it delegates to;
    * a `@contextmanager` function or method with exactly one `yield` statement and no `return`, used as
      `with helper(...):` - PEP 343 plus the contextlib protocol make the with-block run where the `yield` stands, with
      the helper's own `with` / `try` around it: the block is spliced into a copy of the helper's body (parameters
      replaced by the plain arguments, the helper's locals renamed apart).

    Only helpers that did not exist when the rules were written are expanded; a helper whose every use was expanded is
    dropped from the tree (the CFG builder does not model generators)."""
    import copy

    done: dict[str, int] = {}
    for mname, tree in trees.items():
        # candidate helpers of this module: module-level functions and methods
        def is_cm(fn: ast.FunctionDef) -> bool:
            return any(ast.unparse(d).split(".")[-1] == "contextmanager" for d in fn.decorator_list)

        def yields(fn: ast.AST) -> list[ast.AST]:
            return [n for n in ast.walk(fn) if isinstance(n, (ast.Yield, ast.YieldFrom))]

        funcs: dict[tuple[str | None, str], ast.FunctionDef] = {}
        for st in tree.body:
            if isinstance(st, ast.FunctionDef):
                funcs[(None, st.name)] = st
            elif isinstance(st, ast.ClassDef):
                for m in st.body:
                    if isinstance(m, ast.FunctionDef):
                        funcs[(st.name, m.name)] = m
        helpers: dict[tuple[str | None, str], tuple[str, ast.FunctionDef]] = {}
        for (cn, fnm), fn in funcs.items():
            qual = f"{mname}:{cn + '.' if cn else ''}{fnm}"
            if qual in known_funcs or not yields(fn):
                continue
            body = [b for b in fn.body if not _is_docstring(b)]
            if is_cm(fn):
                ys = yields(fn)
                stmt_y = [n for n in ast.walk(fn) if isinstance(n, ast.Expr) and isinstance(n.value, ast.Yield)]
                if len(ys) == 1 and len(stmt_y) == 1 and not any(isinstance(n, ast.Return) for n in ast.walk(fn)) and not any(isinstance(n, (ast.FunctionDef, ast.AsyncFunctionDef, ast.Lambda)) for b in body for n in ast.walk(b)):
                    helpers[(cn, fnm)] = ("cm", fn)
            elif not fn.decorator_list and cn is None:
                if len(body) == 1 and isinstance(body[0], ast.Expr) and isinstance(body[0].value, ast.YieldFrom):
                    helpers[(cn, fnm)] = ("iter", fn)
                elif len(body) == 1 and isinstance(body[0], ast.For) and not body[0].orelse and len(body[0].body) == 1 and isinstance(body[0].body[0], ast.Expr) and isinstance(body[0].body[0].value, ast.Yield) and isinstance(body[0].target, ast.Name) and isinstance(body[0].body[0].value.value, ast.Name) and body[0].body[0].value.value.id == body[0].target.id:
                    helpers[(cn, fnm)] = ("iter", fn)
        if not helpers:
            continue
        expanded: dict[tuple[str | None, str], int] = {}
        failed: set[tuple[str | None, str]] = set()

        def resolve(call: ast.expr, cls_name: str | None, selfn: str | None) -> tuple[tuple[str | None, str], ast.expr | None] | None:
            if not isinstance(call, ast.Call):
                return None
            f = call.func
            if isinstance(f, ast.Name) and (None, f.id) in helpers:
                return (None, f.id), None
            if isinstance(f, ast.Attribute) and isinstance(f.value, ast.Name) and selfn is not None and f.value.id == selfn and (cls_name, f.attr) in helpers:
                return (cls_name, f.attr), f.value
            return None

        def expand_in(fn_node: ast.AST, cls_name: str | None) -> None:
            selfn = fn_node.args.args[0].arg if cls_name is not None and fn_node.args.args else None
            # delegating iterators: any call expression
            for n in ast.walk(fn_node):
                for fld, val in ast.iter_fields(n):
                    vals = val if isinstance(val, list) else [val]
                    for i, v in enumerate(vals):
                        r = resolve(v, cls_name, selfn) if isinstance(v, ast.Call) else None
                        if r is None or helpers[r[0]][0] != "iter":
                            continue
                        hfn = helpers[r[0]][1]
                        mp = _bind_args(hfn, v, r[1])
                        if mp is None:
                            failed.add(r[0])
                            continue
                        b0 = [b for b in hfn.body if not _is_docstring(b)][0]
                        src = b0.value.value if isinstance(b0, ast.Expr) else b0.iter
                        new = _Subst(mp, {}).visit(copy.deepcopy(src))
                        ast.copy_location(new, v)
                        ast.fix_missing_locations(new)
                        if isinstance(val, list):
                            val[i] = new
                        else:
                            setattr(n, fld, new)
                        expanded[r[0]] = expanded.get(r[0], 0) + 1
            # context managers: `with helper(...) [as x]: BODY`
            for n in ast.walk(fn_node):
                for fld in ("body", "orelse", "finalbody"):
                    seq = getattr(n, fld, None)
                    if not (isinstance(seq, list) and seq and isinstance(seq[0], ast.stmt)):
                        continue
                    out: list[ast.stmt] = []
                    for st in seq:
                        r = resolve(st.items[0].context_expr, cls_name, selfn) if isinstance(st, ast.With) and len(st.items) == 1 else None
                        if r is None or helpers[r[0]][0] != "cm":
                            out.append(st)
                            continue
                        hfn = helpers[r[0]][1]
                        mp = _bind_args(hfn, st.items[0].context_expr, r[1])
                        stored = {x.id for x in ast.walk(hfn) if isinstance(x, ast.Name) and isinstance(x.ctx, (ast.Store, ast.Del))}
                        if mp is None or stored & set(mp):
                            failed.add(r[0])
                            out.append(st)
                            continue
                        ren = {nm: f"__cm_{hfn.name}_{nm}" for nm in stored}
                        body = [copy.deepcopy(b) for b in hfn.body if not _is_docstring(b)]
                        wrapper = ast.Module(body=body, type_ignores=[])
                        wrapper = _Subst(mp, ren).visit(wrapper)
                        block: list[ast.stmt] = list(st.body)
                        placed = False
                        for m in ast.walk(wrapper):
                            for fld2 in ("body", "orelse", "finalbody"):
                                seq2 = getattr(m, fld2, None)
                                if isinstance(seq2, list):
                                    for j, s2 in enumerate(seq2):
                                        if isinstance(s2, ast.Expr) and isinstance(s2.value, ast.Yield):
                                            pre: list[ast.stmt] = []
                                            tgt = st.items[0].optional_vars
                                            if tgt is not None:
                                                asg = ast.Assign(targets=[tgt], value=s2.value.value if s2.value.value is not None else ast.Constant(value=None))
                                                ast.copy_location(asg, st)
                                                pre.append(asg)
                                            seq2[j : j + 1] = pre + block
                                            placed = True
                                            break
                                if placed:
                                    break
                            if placed:
                                break
                        if not placed:
                            failed.add(r[0])
                            out.append(st)
                            continue
                        for b in wrapper.body:
                            ast.fix_missing_locations(b)
                        out.extend(wrapper.body)
                        expanded[r[0]] = expanded.get(r[0], 0) + 1
                    seq[:] = out

        for st in tree.body:
            if isinstance(st, (ast.FunctionDef, ast.AsyncFunctionDef)) and (None, st.name) not in helpers:
                expand_in(st, None)
            elif isinstance(st, ast.ClassDef):
                for m in st.body:
                    if isinstance(m, (ast.FunctionDef, ast.AsyncFunctionDef)) and (st.name, m.name) not in helpers:
                        expand_in(m, st.name)
        # drop the helpers whose every use was expanded
        for key, (kind, hfn) in helpers.items():
            if key in failed or not expanded.get(key):
                continue
            cn, fnm = key
            refs = sum(1 for n in ast.walk(tree) if (isinstance(n, ast.Name) and n.id == fnm and cn is None) or (isinstance(n, ast.Attribute) and n.attr == fnm and cn is not None))
            other = any((isinstance(n, ast.Attribute) and n.attr == fnm) or (isinstance(n, ast.alias) and n.name == fnm) or (isinstance(n, ast.Name) and n.id == fnm and cn is None) for m2, t2 in trees.items() if m2 != mname for n in ast.walk(t2))
            if refs or other:
                continue
            owner = tree.body if cn is None else next(c for c in tree.body if isinstance(c, ast.ClassDef) and c.name == cn).body
            owner.remove(hfn)
            if not owner:
                owner.append(ast.Pass())
            done[f"{mname}:{cn + '.' if cn else ''}{fnm}"] = expanded[key]
    return done


# ------------------------------------------------------------------ bound methods cached in locals

def inline_bound_method_locals(trees: dict[str, ast.Module]) -> int:
    """`check_abort = state.check_abort` ... `check_abort(attempt)`: a local bound once, at the top level of a function,
    to an attribute of a name that is itself never re-bound, and used only as the function of calls, is that attribute
    (a bound method looked up early instead of late; the attribute name is never assigned anywhere in the package, so
    both look-ups find the same function).  The calls are rewritten to `state.check_abort(attempt)` in memory."""
    assigned_attrs = {n.attr for t in trees.values() for n in ast.walk(t) if isinstance(n, ast.Attribute) and isinstance(n.ctx, (ast.Store, ast.Del))}
    props = {st.name for t in trees.values() for c in ast.walk(t) if isinstance(c, ast.ClassDef) for st in c.body if isinstance(st, (ast.FunctionDef, ast.AsyncFunctionDef)) and any(ast.unparse(d).split(".")[-1] in ("property", "cached_property") for d in st.decorator_list)}
    n_done = 0
    for tree in trees.values():
        for fn in [n for n in ast.walk(tree) if isinstance(n, (ast.FunctionDef, ast.AsyncFunctionDef))]:
            own = [n for n in ast.walk(fn)]
            names: dict[str, list[ast.Name]] = {}
            for n in own:
                if isinstance(n, ast.Name):
                    names.setdefault(n.id, []).append(n)
            params = {a.arg for a in fn.args.args + fn.args.kwonlyargs + fn.args.posonlyargs}
            call_funcs = {id(n.func) for n in own if isinstance(n, ast.Call)}
            for st in list(fn.body):
                if not (isinstance(st, ast.Assign) and len(st.targets) == 1 and isinstance(st.targets[0], ast.Name) and isinstance(st.value, ast.Attribute)):
                    continue
                fresh_recv = not isinstance(st.value.value, ast.Name)
                if fresh_recv and not (isinstance(st.value.value, ast.Call) and isinstance(st.value.value.func, ast.Name)):
                    continue
                # `record = _Collector(timeline).record`: the receiver gets a name of its own first
                v, attr = st.targets[0].id, st.value.attr
                x = f"__recv_{v}" if fresh_recv else st.value.value.id
                if attr in assigned_attrs or attr in props or v in params or v == x:
                    continue
                vs = names.get(v, [])
                if sum(1 for n in vs if isinstance(n.ctx, (ast.Store, ast.Del))) != 1:
                    continue
                loads = [n for n in vs if isinstance(n.ctx, ast.Load)]
                if not loads or any(id(n) not in call_funcs for n in loads):
                    continue
                xs = [n for n in names.get(x, []) if isinstance(n.ctx, (ast.Store, ast.Del))]
                if not fresh_recv and not ((x in params and not xs) or (x not in params and len(xs) == 1 and xs[0].lineno < st.lineno)):
                    continue
                if fresh_recv and x in names:
                    continue
                if any(n.lineno < st.lineno for n in loads):
                    continue
                # nested functions that re-bind either name would change the meaning: keep it simple
                if any(isinstance(n, (ast.Global, ast.Nonlocal)) for n in own):
                    continue
                for n in own:
                    if isinstance(n, ast.Call) and isinstance(n.func, ast.Name) and n.func.id == v:
                        n.func = ast.copy_location(ast.Attribute(value=ast.copy_location(ast.Name(id=x, ctx=ast.Load()), n.func), attr=attr, ctx=ast.Load()), n.func)
                if fresh_recv:
                    st.targets[0].id = x
                    st.value = st.value.value
                else:
                    fn.body.remove(st)
                n_done += 1
    return n_done


# ------------------------------------------------------------------ lock-holding context managers

def unwrap_lock_holders(trees: dict[str, ast.Module], known_classes: set[str]) -> int:
    """A private class that does nothing but hold a lock for a block -

        class _Held:
            def __init__(self, lock): self._lock = lock
            def __enter__(self): self._lock.acquire()
            def __exit__(self, *exc): self._lock.release(); return False

    - used as `with _Held(self._lock):` is `with self._lock:` (blocking acquire on entry, release on every exit,
    exceptions never suppressed: PEP 343 and the context-manager protocol of threading.Lock).  The same for a zero-argument
    method that only returns such a holder (`def _guard(self): return _Held(self._lock)`; `with self._guard():`).
    Rewritten in memory to the plain form the lock rules read."""
    holders: set[str] = set()
    for mname, tree in trees.items():
        for c in tree.body:
            if not isinstance(c, ast.ClassDef) or f"{mname}:{c.name}" in known_classes or c.name in {q.split(":", 1)[-1] for q in known_classes} or c.bases:
                continue
            ms = {m.name: m for m in c.body if isinstance(m, ast.FunctionDef)}
            if set(ms) != {"__init__", "__enter__", "__exit__"}:
                continue

            def body(fn: ast.FunctionDef) -> list[ast.stmt]:
                return [b for b in fn.body if not _is_docstring(b)]

            ini, ent, ext = body(ms["__init__"]), body(ms["__enter__"]), body(ms["__exit__"])
            if len(ms["__init__"].args.args) != 2 or len(ini) != 1:
                continue
            st = ini[0]
            tgt = st.targets[0] if isinstance(st, ast.Assign) and len(st.targets) == 1 else (st.target if isinstance(st, ast.AnnAssign) else None)
            if not (isinstance(tgt, ast.Attribute) and isinstance(st.value, ast.Name) and st.value.id == ms["__init__"].args.args[1].arg):
                continue
            fld = tgt.attr

            def is_op(s: ast.stmt, op: str) -> bool:
                v = s.value if isinstance(s, (ast.Expr, ast.Return)) else None
                return isinstance(v, ast.Call) and isinstance(v.func, ast.Attribute) and v.func.attr == op and not v.args and not v.keywords and isinstance(v.func.value, ast.Attribute) and v.func.value.attr == fld and isinstance(v.func.value.value, ast.Name)

            def is_falsy_return(s: ast.stmt) -> bool:
                return isinstance(s, ast.Return) and (s.value is None or (isinstance(s.value, ast.Constant) and not s.value.value))

            if not (ent and is_op(ent[0], "acquire") and all(is_falsy_return(s) or (isinstance(s, ast.Return) and isinstance(s.value, ast.Constant)) for s in ent[1:]) and len(ent) <= 2):
                continue
            if not (ext and isinstance(ext[0], ast.Expr) and is_op(ext[0], "release") and all(is_falsy_return(s) for s in ext[1:]) and len(ext) <= 2):
                continue
            holders.add(c.name)
    if not holders:
        return 0

    def holder_arg(e: ast.expr) -> ast.expr | None:
        if isinstance(e, ast.Call) and isinstance(e.func, ast.Name) and e.func.id in holders and len(e.args) == 1 and not e.keywords:
            return e.args[0]
        return None

    # zero-argument methods / functions that only return a holder
    makers: dict[str, tuple[str | None, ast.expr]] = {}
    for tree in trees.values():
        for fn in [n for n in ast.walk(tree) if isinstance(n, ast.FunctionDef)]:
            b = [s for s in fn.body if not _is_docstring(s)]
            if len(b) == 1 and isinstance(b[0], ast.Return) and b[0].value is not None and holder_arg(b[0].value) is not None and len(fn.args.args) <= 1 and not fn.decorator_list:
                makers[fn.name] = (fn.args.args[0].arg if fn.args.args else None, holder_arg(b[0].value))
    n_done = 0
    import copy

    for tree in trees.values():
        for w in [n for n in ast.walk(tree) if isinstance(n, ast.With)]:
            for it in w.items:
                if it.optional_vars is not None:
                    continue
                e = it.context_expr
                a = holder_arg(e)
                if a is not None:
                    it.context_expr = a
                    n_done += 1
                elif isinstance(e, ast.Call) and not e.args and not e.keywords and isinstance(e.func, ast.Attribute) and isinstance(e.func.value, ast.Name) and e.func.attr in makers and makers[e.func.attr][0] is not None:
                    sn, expr = makers[e.func.attr]
                    it.context_expr = ast.copy_location(_Subst({sn: e.func.value}, {}).visit(copy.deepcopy(expr)), e)
                    ast.fix_missing_locations(it.context_expr)
                    n_done += 1
    # a maker nobody refers to any more is gone with its uses
    for name in makers:
        if any((isinstance(n, ast.Attribute) and n.attr == name) or (isinstance(n, ast.Name) and n.id == name) or (isinstance(n, ast.alias) and n.name == name) for t in trees.values() for n in ast.walk(t)):
            continue
        for t in trees.values():
            for owner in [t] + [c for c in ast.walk(t) if isinstance(c, ast.ClassDef)]:
                for st in list(owner.body):
                    if isinstance(st, ast.FunctionDef) and st.name == name:
                        owner.body.remove(st)
                        if not owner.body:
                            owner.body.append(ast.Pass())
    return n_done


# ------------------------------------------------------------------ private result records back to tuples

def tuple_result_records(trees: dict[str, ast.Module], known_classes: set[str]) -> dict[str, list[str]]:
    """`return _AttemptHooks(start=start, end=end)` ... `hooks = _resolve_attempt_hooks(...)`; `hooks.start`: a private
    plain record (dataclass / NamedTuple without methods, unknown to the rules) that is only ever built in `return`
    statements and only ever read field by field from a local bound to the call is a tuple with names.  Rewritten in
    memory to the tuple: `return (start, end)` (field order) and `hooks[0]`.  One call site that does anything else with
    the result leaves the record alone."""
    import copy

    recs: dict[str, list[tuple[str, ast.expr | None]]] = {}
    for mname, tree in trees.items():
        for name, fields in _record_fields(tree).items():
            # (a known class that moved to another module keeps its identity for the rules)
            if f"{mname}:{name}" not in known_classes and name not in {q.split(":", 1)[-1] for q in known_classes} and name.startswith("_"):
                if name in recs:
                    recs[name] = []  # two private records of one name: leave both
                else:
                    recs[name] = fields
    recs = {k: v for k, v in recs.items() if v}
    if not recs:
        return {}
    done: dict[str, list[str]] = {}
    for R, fields in recs.items():
        fnames = [f for f, _ in fields]
        ctor_calls = [n for t in trees.values() for n in ast.walk(t) if isinstance(n, ast.Call) and isinstance(n.func, ast.Name) and n.func.id == R]
        other_refs = [n for t in trees.values() for n in ast.walk(t) if isinstance(n, ast.Name) and n.id == R and isinstance(n.ctx, ast.Load)]
        # producers: functions all of whose value-returns are `return R(...)`
        producers: dict[str, ast.AST] = {}
        returned_ctor: set[int] = set()
        ok = True
        for t in trees.values():
            for fn in [n for n in ast.walk(t) if isinstance(n, (ast.FunctionDef, ast.AsyncFunctionDef))]:
                rets = [n for n in _own_fn_nodes(fn) if isinstance(n, ast.Return) and n.value is not None]
                mine = [r for r in rets if isinstance(r.value, ast.Call) and isinstance(r.value.func, ast.Name) and r.value.func.id == R]
                if not mine:
                    continue
                if len(mine) != len(rets) or fn.name in producers:
                    ok = False
                    break
                producers[fn.name] = fn
                returned_ctor |= {id(r.value) for r in mine}
            if not ok:
                break
        if not ok or not producers or any(id(c) not in returned_ctor for c in ctor_calls):
            continue
        # the class name may also appear in annotations (return types, locals): those are not uses of a value
        ann_ids: set[int] = set()
        for t in trees.values():
            for n in ast.walk(t):
                for a in ([n.returns] if isinstance(n, (ast.FunctionDef, ast.AsyncFunctionDef)) and n.returns is not None else []) + ([n.annotation] if isinstance(n, (ast.AnnAssign, ast.arg)) and n.annotation is not None else []):
                    ann_ids |= {id(x) for x in ast.walk(a)}
        if any(id(n) not in ann_ids and not any(n is c.func for c in ctor_calls) for n in other_refs):
            continue
        # constructor bindings
        tuples: dict[int, ast.Tuple] = {}
        for c in ctor_calls:
            if any(isinstance(a, ast.Starred) for a in c.args) or any(k.arg is None or k.arg not in fnames for k in c.keywords) or len(c.args) > len(fnames):
                ok = False
                break
            vals: dict[str, ast.expr] = dict(zip(fnames, c.args))
            for k in c.keywords:
                if k.arg in vals:
                    ok = False
                vals[k.arg] = k.value
            for f, d in fields:
                if f not in vals:
                    dv = _default_value(d)
                    if dv is None:
                        ok = False
                        break
                    vals[f] = dv
            if not ok:
                break
            # keyword arguments are evaluated in the order written; the tuple evaluates in field order: plain values only
            if [k.arg for k in c.keywords] != [f for f in fnames if f in {k.arg for k in c.keywords}] and not all(_simple_arg(v) for v in vals.values()):
                ok = False
                break
            tuples[id(c)] = ast.Tuple(elts=[vals[f] for f in fnames], ctx=ast.Load())
        if not ok:
            continue
        # consumers
        rewrites: list[tuple[ast.Attribute, int]] = []
        for t in trees.values():
            for fn in [n for n in ast.walk(t) if isinstance(n, (ast.FunctionDef, ast.AsyncFunctionDef))]:
                own = list(_own_fn_nodes(fn))
                par: dict[int, ast.AST] = {}
                for n in own:
                    for ch in ast.iter_child_nodes(n):
                        par[id(ch)] = n
                for c in [n for n in own if isinstance(n, ast.Call) and ((isinstance(n.func, ast.Name) and n.func.id in producers) or (isinstance(n.func, ast.Attribute) and n.func.attr in producers))]:
                    p_ = par.get(id(c))
                    if isinstance(p_, ast.Await):
                        c, p_ = p_, par.get(id(p_))
                    if isinstance(p_, ast.Attribute) and p_.value is c and p_.attr in fnames and isinstance(p_.ctx, ast.Load):
                        rewrites.append((p_, fnames.index(p_.attr)))
                        continue
                    if isinstance(p_, (ast.Assign, ast.AnnAssign)) and p_.value is c:
                        tg = p_.targets[0] if isinstance(p_, ast.Assign) and len(p_.targets) == 1 else (p_.target if isinstance(p_, ast.AnnAssign) else None)
                        if isinstance(tg, ast.Name):
                            uses = [n for n in own if isinstance(n, ast.Name) and n.id == tg.id]
                            if sum(1 for n in uses if isinstance(n.ctx, (ast.Store, ast.Del))) == 1 and all(isinstance(par.get(id(n)), ast.Attribute) and par[id(n)].attr in fnames and isinstance(par[id(n)].ctx, ast.Load) for n in uses if isinstance(n.ctx, ast.Load)):
                                rewrites.extend((par[id(n)], fnames.index(par[id(n)].attr)) for n in uses if isinstance(n.ctx, ast.Load))
                                if isinstance(p_, ast.AnnAssign):
                                    p_.annotation = ast.Name(id="tuple", ctx=ast.Load())
                                continue
                    ok = False
                    break
                if not ok:
                    break
            if not ok:
                break
        if not ok:
            continue
        for t in trees.values():
            for n in ast.walk(t):
                if isinstance(n, ast.Return) and n.value is not None and id(n.value) in tuples:
                    n.value = ast.copy_location(tuples[id(n.value)], n.value)
                    ast.fix_missing_locations(n.value)
        for fn in producers.values():
            fn.returns = ast.copy_location(ast.Name(id="tuple", ctx=ast.Load()), fn) if fn.returns is not None else None
        for a, i in rewrites:
            sub = ast.Subscript(value=a.value, slice=ast.Constant(value=i), ctx=ast.Load())
            ast.copy_location(sub, a)
            ast.fix_missing_locations(sub)
            # replace the attribute node in place: turn it into the subscript by mutating its parent field
            a.__class__ = ast.Subscript  # type: ignore[assignment]
            a.__dict__.clear()
            a.__dict__.update(sub.__dict__)
        done[R] = sorted(producers)
    return done


def _own_fn_nodes(fn: ast.AST):
    """nodes of a function without those of nested functions / classes"""
    stack = list(ast.iter_child_nodes(fn))
    while stack:
        n = stack.pop()
        yield n
        if isinstance(n, (ast.FunctionDef, ast.AsyncFunctionDef, ast.ClassDef, ast.Lambda)):
            continue
        stack.extend(ast.iter_child_nodes(n))


# ------------------------------------------------------------------ a parameter object dissolved into its fields

def repack_dissolved_params(trees: dict[str, ast.Module]) -> dict[str, dict[str, str]]:
    """`_finalize_attempt(..., decision=decision, ...)` -> `_finalize_attempt(..., action=decision.action,
    backoff_s=decision.sleep_s, ...)`: a private function recorded in known_signatures.json lost exactly one recorded
    parameter and gained new ones, and every call site feeds each new parameter with a field read `E.f` of one and the
    same plain expression E (the same field for that parameter at every site).  The function then still receives the
    object, field by field.  In memory the recorded parameter comes back (`decision`), its fields are read where the
    new parameters were used, and the call sites pass `decision=E`.  Reading a field early (at the call) or late (in
    the body) is the same value when nothing in between writes it - the new parameters are never stored to, and the
    fields are those of a frozen dataclass / a record never written in the callee."""
    import json
    import os

    try:
        with open(os.path.join(os.path.dirname(os.path.abspath(__file__)), "known_signatures.json")) as fh:
            sigs = json.load(fh)
    except (OSError, ValueError):
        return {}
    done: dict[str, dict[str, str]] = {}
    for mod, tree in trees.items():
        for fn in [st for st in tree.body if isinstance(st, (ast.FunctionDef, ast.AsyncFunctionDef))]:
            qual = f"{mod}:{fn.name}"
            rec = sigs.get(qual)
            if rec is None:
                continue
            a = fn.args
            cur = [x.arg for x in a.posonlyargs + a.args + a.kwonlyargs]
            want = rec["pos"] + rec["kwonly"]
            missing = [w for w in want if w not in cur]
            extra = [c for c in cur if c not in want]
            if len(missing) != 1 or not extra or any(x.arg in extra for x in a.posonlyargs + a.args):
                continue  # (new keyword-only parameters only: positions of the others are untouched)
            obj = missing[0]
            if any(isinstance(n, ast.Name) and n.id == obj for n in ast.walk(fn)):
                continue
            if any(isinstance(n, ast.Name) and n.id in extra and isinstance(n.ctx, (ast.Store, ast.Del)) for n in ast.walk(fn)):
                continue
            sites = [n for t in trees.values() for n in ast.walk(t) if isinstance(n, ast.Call) and ((isinstance(n.func, ast.Name) and n.func.id == fn.name) or (isinstance(n.func, ast.Attribute) and n.func.attr == fn.name))]
            if not sites:
                continue
            field_of: dict[str, str] = {}
            ok = True
            for c in sites:
                kws = {k.arg: k.value for k in c.keywords if k.arg is not None}
                if any(k.arg is None for k in c.keywords) or not all(x in kws for x in extra) or obj in kws:
                    ok = False
                    break
                bases = set()
                for x in extra:
                    v = kws[x]
                    if not (isinstance(v, ast.Attribute) and _simple_arg(v.value)):
                        ok = False
                        break
                    bases.add(ast.dump(v.value))
                    if field_of.setdefault(x, v.attr) != v.attr:
                        ok = False
                        break
                if not ok or len(bases) != 1:
                    ok = False
                    break
            if not ok or len(set(field_of.values())) != len(field_of):
                continue
            # rewrite the callee
            defaults = {x.arg: d for x, d in zip(a.kwonlyargs, a.kw_defaults)}
            idx = min(i for i, x in enumerate(a.kwonlyargs) if x.arg in extra)
            keep = [(x, defaults[x.arg]) for x in a.kwonlyargs if x.arg not in extra]
            newarg = ast.arg(arg=obj, annotation=None)
            ast.copy_location(newarg, a.kwonlyargs[idx])
            keep.insert(min(idx, len(keep)), (newarg, None))
            a.kwonlyargs = [x for x, _ in keep]
            a.kw_defaults = [d for _, d in keep]
            for n in ast.walk(fn):
                if isinstance(n, ast.Name) and n.id in field_of and isinstance(n.ctx, ast.Load):
                    new = ast.Attribute(value=ast.Name(id=obj, ctx=ast.Load()), attr=field_of[n.id], ctx=ast.Load())
                    ast.copy_location(new, n)
                    ast.fix_missing_locations(new)
                    n.__class__ = ast.Attribute  # type: ignore[assignment]
                    n.__dict__.clear()
                    n.__dict__.update(new.__dict__)
            for c in sites:
                base = next(k.value.value for k in c.keywords if k.arg == extra[0])
                pos = min(i for i, k in enumerate(c.keywords) if k.arg in extra)
                c.keywords = [k for k in c.keywords if k.arg not in extra]
                c.keywords.insert(min(pos, len(c.keywords)), ast.keyword(arg=obj, value=base))
            done[qual] = {x: f"{obj}.{f}" for x, f in field_of.items()}
    return done


# ------------------------------------------------------------------ nested helpers only ever called as `return f(...)`

def inline_tail_closures(trees: dict[str, ast.Module], known_funcs: set[str]) -> int:
    """`def stop(event, reason): self.last_stop_reason = reason; self.emit(...); return _RetryDecision("raise")` nested
    in a function that only ever says `return stop(A, B)` with plain arguments: each such return is the helper's body
    with the arguments in place of the parameters (its free variables are read at the call either way, its own `return`s
    return from the enclosing function exactly as `return stop(...)` did).  Expanded in memory - the closure is notation,
    and the abstract interpreter then sees the stores on the enclosing function's own `self`.  A helper that is
    referenced in any other way (passed on, returned, called for its value) is left as it is; so are helpers the rules
    know by name."""
    import copy

    n_done = 0
    for mname, tree in trees.items():
        for outer in [n for n in ast.walk(tree) if isinstance(n, (ast.FunctionDef, ast.AsyncFunctionDef))]:
            for f in [st for st in outer.body if isinstance(st, ast.FunctionDef) and not st.decorator_list]:
                if any(q.endswith(f".<locals>.{f.name}") and q.startswith(mname + ":") for q in known_funcs):
                    continue
                if any(isinstance(n, (ast.Yield, ast.YieldFrom, ast.Await, ast.FunctionDef, ast.AsyncFunctionDef, ast.Lambda, ast.Global, ast.Nonlocal)) for b in f.body for n in ast.walk(b)):
                    continue
                body = [b for b in f.body if not _is_docstring(b)]
                if not body:
                    continue
                # every path of the helper ends in a `return`: nothing falls out of the spliced body
                def ends(stmts: list[ast.stmt]) -> bool:
                    if not stmts:
                        return False
                    last = stmts[-1]
                    if isinstance(last, (ast.Return, ast.Raise)):
                        return True
                    if isinstance(last, ast.If):
                        return ends(last.body) and ends(last.orelse)
                    return False

                if not ends(body):
                    continue
                refs = [n for n in ast.walk(outer) if isinstance(n, ast.Name) and n.id == f.name]
                rets = [n for n in ast.walk(outer) if isinstance(n, ast.Return) and isinstance(n.value, ast.Call) and isinstance(n.value.func, ast.Name) and n.value.func.id == f.name]
                if not rets or len(refs) != len(rets) or any(r in ast.walk(f) for r in rets):
                    continue
                params = {a.arg for a in f.args.args + f.args.kwonlyargs}
                stored = {x.id for b in body for x in ast.walk(b) if isinstance(x, ast.Name) and isinstance(x.ctx, (ast.Store, ast.Del))}
                if stored & params:
                    continue
                binds = [_bind_args(f, r.value, None) for r in rets]
                if any(b is None for b in binds):
                    continue
                outer_names = {x.id for x in ast.walk(outer) if isinstance(x, ast.Name)} - {x.id for b in body for x in ast.walk(b) if isinstance(x, ast.Name)}
                ren = {nm: f"__{f.name}_{nm}" for nm in stored}
                repl: dict[int, list[ast.stmt]] = {}
                for r, mp in zip(rets, binds):
                    new = ast.Module(body=[copy.deepcopy(b) for b in body], type_ignores=[])
                    new = _Subst(mp, ren).visit(new)
                    for b in new.body:
                        ast.fix_missing_locations(b)
                    repl[id(r)] = new.body
                for n in ast.walk(outer):
                    for fld in ("body", "orelse", "finalbody"):
                        seq = getattr(n, fld, None)
                        if isinstance(seq, list) and seq and isinstance(seq[0], ast.stmt):
                            out: list[ast.stmt] = []
                            for st in seq:
                                if id(st) in repl:
                                    out.extend(repl[id(st)])
                                elif st is f:
                                    continue
                                else:
                                    out.append(st)
                            seq[:] = out or [ast.copy_location(ast.Pass(), outer)]
                n_done += 1
    return n_done


# ------------------------------------------------------------------ a class that only wraps one deque

def deque_wrappers_as_subclasses(trees: dict[str, ast.Module], known_classes: set[str]) -> dict[str, str]:
    """`class TimestampWindow: def __init__(self): self._stamps = deque()` whose every method touches nothing but
    `self._stamps`: the object *is* that deque with a few named operations.  Rewritten in memory to the equivalent
    `class TimestampWindow(deque)` (the field read becomes `self`; `__len__` / `clear` / `__iter__` / `__bool__` that
    only delegate are dropped - the deque's own do the same), the form of a private window class the rules already
    read (prune method of the window itself, `append` through a small helper).  Only for classes new to the rules
    that take no constructor arguments and have no other attribute; users of the class see the operations it defines
    either way."""
    known_names = {q.split(":", 1)[-1] for q in known_classes}
    done: dict[str, str] = {}
    for mname, tree in trees.items():
        for c in [n for n in tree.body if isinstance(n, ast.ClassDef)]:
            if c.name in known_names or c.bases or c.decorator_list or c.keywords:
                continue
            methods = [m for m in c.body if isinstance(m, (ast.FunctionDef, ast.AsyncFunctionDef))]
            init = next((m for m in methods if m.name == "__init__"), None)
            if init is None or len(init.args.args) != 1 or init.args.vararg or init.args.kwarg or init.args.kwonlyargs:
                continue
            body = [b for b in init.body if not _is_docstring(b)]
            if len(body) != 1:
                continue
            st = body[0]
            tgt = st.targets[0] if isinstance(st, ast.Assign) and len(st.targets) == 1 else (st.target if isinstance(st, ast.AnnAssign) and st.value is not None else None)
            val = st.value if tgt is not None else None
            if not (isinstance(tgt, ast.Attribute) and isinstance(tgt.value, ast.Name) and tgt.value.id == init.args.args[0].arg and isinstance(val, ast.Call) and not val.args and not val.keywords and ast.unparse(val.func).split(".")[-1] == "deque"):
                continue
            fld = tgt.attr
            # nothing else in the class body than methods, a docstring and `__slots__`
            if any(not (isinstance(b, (ast.FunctionDef, ast.AsyncFunctionDef)) or _is_docstring(b) or (isinstance(b, ast.Assign) and len(b.targets) == 1 and isinstance(b.targets[0], ast.Name) and b.targets[0].id == "__slots__")) for b in c.body):
                continue
            ok = True
            for m in methods:
                if m is init:
                    continue
                if any(ast.unparse(d) in ("staticmethod", "classmethod", "property") for d in m.decorator_list) or not m.args.args:
                    ok = False
                    break
                sn = m.args.args[0].arg
                par: dict[int, ast.AST] = {}
                for n in ast.walk(m):
                    for ch in ast.iter_child_nodes(n):
                        par[id(ch)] = n
                for n in ast.walk(m):
                    if isinstance(n, ast.Name) and n.id == sn:
                        p_ = par.get(id(n))
                        if not (isinstance(p_, ast.Attribute) and p_.value is n and p_.attr == fld and isinstance(p_.ctx, ast.Load)):
                            ok = False
                            break
                if not ok:
                    break
            if not ok or any(isinstance(n, ast.Attribute) and n.attr == fld and id(n) for t in trees.values() for cc in ast.walk(t) if isinstance(cc, ast.ClassDef) and cc is not c for n in ast.walk(cc)):
                continue

            def delegates_only(m: ast.FunctionDef, what: str) -> bool:
                b = [x for x in m.body if not _is_docstring(x)]
                if len(b) != 1:
                    return False
                v = b[0].value if isinstance(b[0], (ast.Return, ast.Expr)) else None
                src = ast.unparse(v) if v is not None else ""
                sn = m.args.args[0].arg
                return src == what.replace("SELF", f"{sn}.{fld}")

            drop = []
            for m in methods:
                if m is init:
                    drop.append(m)
                elif m.name == "__len__" and delegates_only(m, "len(SELF)"):
                    drop.append(m)
                elif m.name == "clear" and delegates_only(m, "SELF.clear()"):
                    drop.append(m)
                elif m.name == "__iter__" and delegates_only(m, "iter(SELF)"):
                    drop.append(m)
                elif m.name == "__bool__" and delegates_only(m, "bool(SELF)"):
                    drop.append(m)
                elif m.name.startswith("__") and m.name.endswith("__"):
                    ok = False  # another special method: its meaning would change with the base class
            if not ok:
                continue
            for m in methods:
                if m in drop:
                    continue
                sn = m.args.args[0].arg

                class _Self(ast.NodeTransformer):
                    def visit_Attribute(self, n: ast.Attribute) -> ast.AST:
                        self.generic_visit(n)
                        if n.attr == fld and isinstance(n.value, ast.Name) and n.value.id == sn:
                            return ast.copy_location(ast.Name(id=sn, ctx=ast.Load()), n)
                        return n

                _Self().visit(m)
            c.body = [b for b in c.body if b not in drop and not (isinstance(b, ast.Assign) and isinstance(b.targets[0], ast.Name) and b.targets[0].id == "__slots__")] or [ast.Pass()]
            imp = ast.ImportFrom(module="collections", names=[ast.alias(name="deque", asname="__deque_base")], level=0)
            ast.copy_location(imp, c)
            tree.body.insert(tree.body.index(c), imp)
            base = ast.Name(id="__deque_base", ctx=ast.Load())
            ast.copy_location(base, c)
            c.bases = [base]
            ast.fix_missing_locations(tree)
            done[f"{mname}:{c.name}"] = fld
    return done
