"""Alpha-renaming of private members of the two small thread-shared classes back to the names the rules use.

Renaming a private attribute or private helper method (`_probe_in_flight` -> `_probe_outstanding`,
`_prune` -> `_drop_expired`) changes no behaviour.  Rather than teaching every rule every spelling, the
module's syntax tree is alpha-renamed *in memory* before analysis: each canonical private name is identified by
its ROLE (what `__init__` binds it to / what the helper's body does); when a canonical name is missing and exactly
one unclaimed member plays its role, that member is renamed back inside the class body.  A consistent bijection
on class-private identifiers is semantics preserving, so the rules then analyse an alpha-equivalent program; line
numbers are untouched.  Ambiguity or a missing role is left alone (the rules then report the vanished anchor).
"""

from __future__ import annotations

import ast
from typing import Callable


def _init_bindings(cls: ast.ClassDef) -> dict[str, ast.expr]:
    out: dict[str, ast.expr] = {}
    for st in cls.body:
        if isinstance(st, ast.FunctionDef) and st.name == "__init__":
            self_name = st.args.args[0].arg if st.args.args else "self"
            for n in ast.walk(st):
                tgt = val = None
                if isinstance(n, ast.Assign) and len(n.targets) == 1:
                    tgt, val = n.targets[0], n.value
                elif isinstance(n, ast.AnnAssign) and n.value is not None:
                    tgt, val = n.target, n.value
                if isinstance(tgt, ast.Attribute) and isinstance(tgt.value, ast.Name) and tgt.value.id == self_name and val is not None:
                    out.setdefault(tgt.attr, val)
    return out


def _is_call(v: ast.expr, *names: str) -> bool:
    return isinstance(v, ast.Call) and not v.args and not v.keywords and ast.unparse(v.func) in names


def _from_param(p: str) -> Callable[[ast.expr], bool]:
    return lambda v: isinstance(v, ast.Name) and v.id == p


def _method_role(fn: ast.FunctionDef) -> str | None:
    calls = [n.func.attr for n in ast.walk(fn) if isinstance(n, ast.Call) and isinstance(n.func, ast.Attribute)]
    has_while = any(isinstance(n, ast.While) for n in ast.walk(fn))
    if has_while and "popleft" in calls and "append" not in calls:
        return "prune"
    if calls and all(c == "clear" for c in calls) and not fn.args.args[1:]:
        return "clear"
    if "append" in calls and any(isinstance(n, ast.Return) and n.value is not None for n in ast.walk(fn)) and len(fn.args.args) == 3:
        return "note"
    return None


FIELD_ROLES = {
    "redress.circuit:CircuitBreaker": {
        "_failure_threshold": _from_param("failure_threshold"),
        "_window_s": _from_param("window_s"),
        "_recovery_timeout_s": _from_param("recovery_timeout_s"),
        "_trip_on": _from_param("trip_on"),
        "_class_thresholds": _from_param("class_thresholds"),
        "_clock": _from_param("clock"),
        "_state": lambda v: isinstance(v, ast.Attribute) and v.attr == "CLOSED",
        "_opened_at": lambda v: isinstance(v, ast.Constant) and v.value is None,
        "_probe_in_flight": lambda v: isinstance(v, ast.Constant) and v.value is False,
        "_failures": lambda v: _is_call(v, "deque", "collections.deque"),
        "_class_failures": lambda v: (isinstance(v, ast.Dict) and not v.keys) or _is_call(v, "dict"),
        "_lock": lambda v: _is_call(v, "threading.Lock", "Lock"),
    },
    "redress.budget:Budget": {
        "_events": lambda v: _is_call(v, "deque", "collections.deque"),
        "_lock": lambda v: _is_call(v, "threading.Lock", "Lock"),
    },
}
METHOD_ROLES = {
    "redress.circuit:CircuitBreaker": {"_note_failure": "note", "_prune": "prune", "_clear_failures": "clear"},
    "redress.budget:Budget": {"_prune": "prune"},
}


def normalise_module(module_name: str, tree: ast.Module) -> dict[str, dict[str, str]]:
    """rename in place; returns {class qual: {actual name: canonical name}} for the evidence"""
    done: dict[str, dict[str, str]] = {}
    for cls in [n for n in tree.body if isinstance(n, ast.ClassDef)]:
        qual = f"{module_name}:{cls.name}"
        if qual not in FIELD_ROLES:
            continue
        binds = _init_bindings(cls)
        methods = {st.name: st for st in cls.body if isinstance(st, (ast.FunctionDef, ast.AsyncFunctionDef))}
        used_attrs = {n.attr for n in ast.walk(cls) if isinstance(n, ast.Attribute)}
        ren: dict[str, str] = {}
        canon_fields = FIELD_ROLES[qual]
        for canon, pred in canon_fields.items():
            if canon in binds or canon in used_attrs:
                continue
            cands = [a for a, v in binds.items() if a.startswith("_") and a not in canon_fields and a not in ren and pred(v)]
            # a role shared by several canonical names (two deque() fields) is only resolved when unambiguous
            rivals = [c for c, p2 in canon_fields.items() if c != canon and c not in binds and any(p2(binds[a]) for a in cands)]
            if len(cands) == 1 and not rivals:
                ren[cands[0]] = canon
        canon_methods = METHOD_ROLES.get(qual, {})
        for canon, role in canon_methods.items():
            if canon in methods:
                continue
            cands = [nm for nm, fn in methods.items() if nm.startswith("_") and not nm.startswith("__") and nm not in canon_methods and nm not in ren and isinstance(fn, ast.FunctionDef) and _method_role(fn) == role]
            if len(cands) == 1:
                ren[cands[0]] = canon
        if not ren:
            continue
        for n in ast.walk(cls):
            if isinstance(n, ast.Attribute) and n.attr in ren:
                n.attr = ren[n.attr]
            elif isinstance(n, (ast.FunctionDef, ast.AsyncFunctionDef)) and n.name in ren:
                n.name = ren[n.name]
        done[qual] = ren
    return done
