"""E4/E5/E6 - symbolic path enumeration, linear normal forms, provenance.

For a function (or a loop body) the engine enumerates *all* CFG paths (loops are unrolled
at most once; the back edge ends the path with exit `loop`), evaluating every expression to
a small symbolic term with copy propagation through locals and strong updates of heap
locations.  A path is

    conds    canonical branch literals  (atom, polarity)
    events   calls (resolved targets, symbolic receiver / arguments / result), heap stores,
             awaits, raised exception kinds - in program order, interleaved with the conds
    exit     ('return', value) | ('raise', kind, value) | ('loop', head) | ('break', head)

No solver is involved: infeasible paths are pruned only when a path contains the same
canonical literal with both polarities or a literal that evaluates on constants.

Terms:  ('const', v) ('param', n) ('free', n) ('global', dotted) ('enum', C, M)
        ('attr', base, name) ('sub', base, idx) ('call', nid, label) ('pure', name, args, kw)
        ('op', o, a, b) ('un', o, a) ('cmp', o, a, b) ('bool', o, (..)) ('ite', c, a, b)
        ('tuple', (..)) ('fresh', nid, hint) ('exc', kind, hid) ('havoc', nid, loc)
        ('lambda', nid)
"""

from __future__ import annotations

import ast
from dataclasses import dataclass, field
from fractions import Fraction
from typing import Any, Callable, Iterable

from .cfg import CFG, CFGs, Node
from .model import AnalysisError, FuncInfo, Program, Target

MUTATORS = {
    "append", "appendleft", "pop", "popleft", "clear", "update", "add", "remove", "extend",
    "insert", "setdefault", "discard", "popitem", "sort", "reverse",
}
PURE_BUILTINS = {
    "len", "min", "max", "isinstance", "issubclass", "callable", "getattr", "hasattr", "str", "int",
    "float", "bool", "abs", "type", "tuple", "set", "frozenset", "dict", "list", "sum", "range",
    "sorted", "repr", "id", "round", "any", "all", "enumerate", "zip", "iter", "next", "super", "object",
}
PURE_LIB = {
    "math.isfinite", "math.isnan", "math.isinf", "math.floor", "math.ceil", "math.trunc", "datetime.timedelta",
    "typing.cast", "inspect.isawaitable", "inspect.signature", "asyncio.iscoroutinefunction",
    "collections.defaultdict", "collections.deque", "threading.Lock", "itertools.repeat",
}
PURE_METHODS = {
    "get", "items", "keys", "values", "lower", "upper", "strip", "startswith", "endswith", "search",
    "match", "group", "total_seconds", "replace", "split", "join", "format", "count", "index", "copy",
    "with_traceback", "isdigit", "lstrip", "rstrip", "encode", "decode", "find",
}

class NotEvaluated(AnalysisError):
    pass


CMP = {
    ast.Eq: "==", ast.NotEq: "!=", ast.Lt: "<", ast.LtE: "<=", ast.Gt: ">", ast.GtE: ">=",
    ast.Is: "is", ast.IsNot: "is not", ast.In: "in", ast.NotIn: "not in",
}
BIN = {
    ast.Add: "+", ast.Sub: "-", ast.Mult: "*", ast.Div: "/", ast.FloorDiv: "//", ast.Mod: "%",
    ast.Pow: "**", ast.BitOr: "|", ast.BitAnd: "&", ast.BitXor: "^", ast.LShift: "<<", ast.RShift: ">>",
    ast.MatMult: "@",
}


def canon_cmp(op: str, a: Any, b: Any) -> tuple[Any, bool]:
    """canonical literal for a comparison: (atom, polarity)"""
    if op == "is not":
        return ("cmp", "is", a, b), False
    if op == "!=":
        return ("cmp", "==", a, b), False
    if op == "not in":
        return ("cmp", "in", a, b), False
    if op == ">":
        return ("cmp", "<", b, a), True
    if op == ">=":
        return ("cmp", "<", a, b), False
    if op == "<=":
        return ("cmp", "<", b, a), False
    if op in ("is", "=="):
        # order operands deterministically (constants / enums to the right)
        if a[0] in ("const", "enum") and b[0] not in ("const", "enum"):
            a, b = b, a
        return ("cmp", op, a, b), True
    return ("cmp", op, a, b), True


@dataclass
class PEvent:
    kind: str  # call | store | await | exc | iter
    node: Node
    targets: list[Target] = field(default_factory=list)
    recv: Any = None
    args: list[Any] = field(default_factory=list)
    kwargs: dict[str, Any] = field(default_factory=dict)
    result: Any = None
    loc: Any = None  # store: location
    value: Any = None  # store: value / exc: kind
    pure: bool = False
    label: str = ""
    awaited: bool = False
    callee: Any = None  # symbolic value of the called expression (Name / Attribute callee)
    cfg: Any = None  # the CFG the node belongs to (differs from the analysed function for inlined helpers)
    frames: tuple = ()  # enclosing inlined call sites, outermost first: ((cfg, node), ...)

    @property
    def lineno(self) -> int:
        return self.node.lineno

    def is_repo(self, qual_suffix: str) -> bool:
        return any(t.kind in ("repo", "ctor") and t.func is not None and t.func.qual.endswith(qual_suffix) for t in self.targets)

    def is_ctor(self, cls_name: str) -> bool:
        return any(t.kind == "ctor" and t.cls is not None and t.cls.name == cls_name for t in self.targets)

    def callback(self) -> str | None:
        for t in self.targets:
            if t.kind == "callback":
                return t.category
        return None

    def lib(self) -> str | None:
        for t in self.targets:
            if t.kind in ("lib", "unknown"):
                return t.name
        return None

    def arg(self, i: int | None = None, kw: str | None = None) -> Any:
        if kw is not None and kw in self.kwargs:
            return self.kwargs[kw]
        if i is not None and i < len(self.args):
            return self.args[i]
        return None


@dataclass
class SymPath:
    items: list[Any]  # ('cond', atom, polarity, node) | ('ev', PEvent)
    exit: tuple
    env: dict
    truncated: bool = False

    @property
    def conds(self) -> list[tuple[Any, bool, Node]]:
        return [(i[1], i[2], i[3]) for i in self.items if i[0] == "cond"]

    @property
    def events(self) -> list[PEvent]:
        return [i[1] for i in self.items if i[0] == "ev"]

    def calls(self, pure: bool | None = False) -> list[PEvent]:
        return [e for e in self.events if e.kind == "call" and (pure is None or e.pure == pure)]

    def stores(self) -> list[PEvent]:
        return [e for e in self.events if e.kind == "store"]

    def local_at(self, ev: PEvent, name: str) -> Any:
        """value of local `name` when event `ev` happens (None if never assigned before)"""
        val = None
        for it in self.items:
            if it[0] == "ev":
                if it[1] is ev:
                    return val
                if it[1].kind == "lstore" and it[1].loc == ("local", name):
                    val = it[1].value
        return val

    def index_of(self, ev: PEvent) -> int:
        for i, it in enumerate(self.items):
            if it[0] == "ev" and it[1] is ev:
                return i
        return -1

    def describe(self, maxlen: int = 40) -> list[str]:
        out = []
        for it in self.items[:maxlen]:
            if it[0] == "cond":
                out.append(f"L{it[3].lineno}: {'' if it[2] else 'not '}{show(it[1])}")
            else:
                e = it[1]
                if e.kind == "call" and not e.pure:
                    out.append(f"L{e.lineno}: call {e.label}")
                elif e.kind == "store":
                    out.append(f"L{e.lineno}: {show(e.loc)} := {show(e.value)}")
                elif e.kind == "exc":
                    out.append(f"L{e.lineno}: raises {e.value}")
                elif e.kind == "await":
                    out.append(f"L{e.lineno}: await")
        out.append("exit: " + " ".join(show(x) if isinstance(x, tuple) else str(x) for x in self.exit))
        return out


def show(t: Any, depth: int = 0) -> str:
    if not isinstance(t, tuple) or not t:
        return repr(t)
    if depth > 6:
        return "..."
    k = t[0]
    d = depth + 1
    if k == "const":
        return repr(t[1])
    if k in ("param", "free"):
        return t[1]
    if k == "global":
        return t[1].split(".")[-1] if t[1].startswith("builtins.") else t[1]
    if k == "enum":
        return f"{t[1]}.{t[2]}"
    if k == "attr":
        return f"{show(t[1], d)}.{t[2]}"
    if k == "sub":
        return f"{show(t[1], d)}[{show(t[2], d)}]"
    if k == "call":
        return f"<{t[2]}#{t[1]}>"
    if k == "pure":
        args = ", ".join([show(a, d) for a in t[2]] + [f"{n}={show(v, d)}" for n, v in t[3]])
        return f"{t[1]}({args})"
    if k == "op":
        return f"({show(t[2], d)} {t[1]} {show(t[3], d)})"
    if k == "un":
        return f"({t[1]} {show(t[2], d)})"
    if k == "cmp":
        return f"({show(t[2], d)} {t[1]} {show(t[3], d)})"
    if k == "bool":
        return "(" + f" {t[1]} ".join(show(x, d) for x in t[2]) + ")"
    if k == "ite":
        return f"({show(t[2], d)} if {show(t[1], d)} else {show(t[3], d)})"
    if k == "tuple":
        return "(" + ", ".join(show(x, d) for x in t[1]) + ")"
    if k == "fresh":
        return f"${t[2]}#{t[1]}"
    if k == "exc":
        return f"<exc {t[1]}>"
    if k == "havoc":
        return f"<havoc#{t[1]} {show(t[2], d)}>"
    if k == "not":
        return f"(not {show(t[1], d)})"
    if k in ("lambda", "comp", "fstr", "slice"):
        return f"<{k}>"
    return repr(t)


class PathEngine:
    def __init__(self, prog: Program, cfgs: CFGs) -> None:
        self.prog = prog
        self.cfgs = cfgs
        self.kinds = cfgs.kinds
        self._cache: dict[tuple, list[SymPath]] = {}
        self._idp: tuple = ()  # id prefix while enumerating an inlined callee
        self._frames: tuple = ()
        self.inline: Callable[[FuncInfo], bool] | None = default_inline()
        self.max_inline_depth = 4

    def _nid(self, node: Node) -> Any:
        return node.id if not self._idp else self._idp + (node.id,)

    def _ev(self, cfg: CFG, kind: str, node: Node, **kw: Any) -> PEvent:
        e = PEvent(kind, node, **kw)
        e.cfg = cfg
        e.frames = self._frames
        return e

    def _new_property(self, e: ast.Attribute, base: Any, env: dict, store: dict, cfg: CFG) -> Any:
        """`obj.name` where `name` is a side-effect-free read-only property that did not exist when the rules were
        written (an accessor introduced by a refactoring): the value of its single `return <expr>` with self = obj"""
        pred = self.inline
        if pred is None:
            return None
        try:
            ty = self.prog.type_of(e.value, cfg.func)
        except AnalysisError:
            return None
        for a in ty:
            if a[0] != "cls":
                continue
            ci = self.prog.classes.get(a[1])
            meth = self.prog.find_method(ci, e.attr) if ci is not None else None
            if meth is None or not meth.is_property or not pred(meth):
                continue
            body = [s_ for s_ in meth.node.body if not (isinstance(s_, ast.Expr) and isinstance(s_.value, ast.Constant))]
            if len(body) != 1 or not isinstance(body[0], ast.Return) or body[0].value is None:
                return None
            rv = body[0].value
            if isinstance(rv, ast.Call) and isinstance(rv.func, ast.Name) and rv.func.id == "len" and len(rv.args) == 1 and not rv.keywords and not any(isinstance(n, (ast.Call, ast.Await, ast.NamedExpr, ast.Lambda)) for n in ast.walk(rv.args[0])):
                sn0 = meth.positional_params()[0]
                try:
                    return ("pure", "len", (self.sym(rv.args[0], {sn0: base}, store, self.cfgs.get(meth)),), ())
                except AnalysisError:
                    return None
            if any(isinstance(n, (ast.Call, ast.Await, ast.NamedExpr, ast.Yield, ast.YieldFrom, ast.Lambda)) for n in ast.walk(body[0].value)):
                return None
            sn = meth.positional_params()[0]
            depth = self.__dict__.get("_prop_depth", 0)
            if depth > 4:
                return None
            self.__dict__["_prop_depth"] = depth + 1
            try:
                return self.sym(body[0].value, {sn: base}, store, self.cfgs.get(meth))
            except AnalysisError:
                return None
            finally:
                self.__dict__["_prop_depth"] = depth
        return None

    def _closure_dict(self, outer: FuncInfo, name: str, _depth: int = 0) -> Any:
        """a closure variable bound exactly once in the enclosing function to a dict display with constant keys
        whose values are plain names (`call_kwargs = {"on_metric": on_metric, ...}`): the display itself, with the
        names as the nested function sees them (free variables)"""
        binds = []
        for n in self.prog._own_nodes(outer.node):
            tg = None
            if isinstance(n, ast.Assign) and len(n.targets) == 1:
                tg, val = n.targets[0], n.value
            elif isinstance(n, ast.AnnAssign) and n.value is not None:
                tg, val = n.target, n.value
            elif isinstance(n, (ast.AugAssign, ast.NamedExpr)) and isinstance(n.target, ast.Name) and n.target.id == name:
                return None
            if isinstance(tg, ast.Name) and tg.id == name:
                binds.append(val)
            if isinstance(n, ast.Subscript) and isinstance(n.ctx, (ast.Store, ast.Del)) and isinstance(n.value, ast.Name) and n.value.id == name:
                return None
            if isinstance(n, ast.Call) and isinstance(n.func, ast.Attribute) and isinstance(n.func.value, ast.Name) and n.func.value.id == name and n.func.attr in MUTATORS:
                return None
        if not binds and name in outer.param_names() and _depth < 3:
            # a parameter of a helper that did not exist when the rules were written, all of whose call sites pass the
            # same plain name (`_wrap_sync(func, policy, call_options)`): what that name is bound to at the call site(s)
            pos = outer.positional_params()
            found = []
            for caller, call in self.prog._call_sites_by_name().get(outer.name, []):
                try:
                    tg = self.prog.resolve_call(call, caller)
                except AnalysisError:
                    continue
                if not any(t.func is outer for t in tg):
                    continue
                arg = None
                if name in pos and pos.index(name) < len(call.args) and not any(isinstance(a, ast.Starred) for a in call.args):
                    arg = call.args[pos.index(name)]
                for kw in call.keywords:
                    if kw.arg == name:
                        arg = kw.value
                if not isinstance(arg, ast.Name):
                    return None
                found.append(self._closure_dict(caller, arg.id, _depth + 1))
            if found and all(f is not None and f == found[0] for f in found):
                return found[0]
            return None
        if len(binds) == 1 and isinstance(binds[0], ast.Call) and isinstance(binds[0].func, ast.Name) and not any(isinstance(a, ast.Starred) for a in binds[0].args) and all(k.arg is not None for k in binds[0].keywords):
            # ... or to a parameter object built on the spot (`call_options = _CallOptions(on_metric=on_metric, ...)`, a
            # record class that did not exist when the rules were written): its constructor term, fields by name
            cands = self._classes_named(binds[0].func.id)
            rc = self._new_record_class(cands[0]) if len(cands) == 1 else None
            if rc is None:
                return None
            fields = self.prog.all_fields(rc)
            if len(binds[0].args) > len(fields):
                return None
            kws = []
            for fname, v in list(zip(fields, binds[0].args)) + [(k.arg, k.value) for k in binds[0].keywords]:
                if isinstance(v, ast.Name):
                    kws.append((fname, ("free", v.id)))
                elif isinstance(v, ast.Constant):
                    kws.append((fname, ("const", v.value)))
                elif _only_pure_calls(v):
                    try:
                        env0 = {n.id: ("free", n.id) for n in ast.walk(v) if isinstance(n, ast.Name) and n.id not in PURE_BUILTINS}
                        kws.append((fname, self._pure_sym(v, env0, {}, self.cfgs.get(outer))))
                    except AnalysisError:
                        return None
                else:
                    return None
            return ("pure", "new " + rc.name, (), tuple(sorted(kws)))
        if len(binds) != 1 or not isinstance(binds[0], ast.Dict):
            return None
        items = []
        for k, v in zip(binds[0].keys, binds[0].values):
            if not (isinstance(k, ast.Constant) and isinstance(k.value, str)):
                return None
            if isinstance(v, ast.Name):
                items.append((("const", k.value), ("free", v.id)))
            elif isinstance(v, ast.Constant):
                items.append((("const", k.value), ("const", v.value)))
            elif _only_pure_calls(v):
                # an expression over the enclosing function's names (`operation or getattr(func, "__name__", None)`):
                # its term, with those names as the nested function sees them
                try:
                    env0 = {n.id: ("free", n.id) for n in ast.walk(v) if isinstance(n, ast.Name) and n.id not in PURE_BUILTINS}
                    items.append((("const", k.value), self._pure_sym(v, env0, {}, self.cfgs.get(outer))))
                except AnalysisError:
                    return None
            else:
                return None
        return ("dict", tuple(items))

    # ------------------------------------------------------------------ parameter objects
    def _new_record_class(self, qual: str | None) -> Any:
        """a record class (NamedTuple / dataclass with declared fields) that did not exist when the rules were
        written: a parameter object introduced by a refactoring.  Its fields are treated as if they were passed
        one by one under their own names."""
        if qual is None:
            return None
        known = self.__dict__.get("_known_classes")
        if known is None:
            import os

            try:
                with open(os.path.join(os.path.dirname(os.path.abspath(__file__)), "known_classes.txt")) as fh:
                    known = {ln.strip() for ln in fh if ln.strip()}
            except OSError:
                known = set(self.prog.classes)
            # a known class moved to another module is still that class (name unique among the known ones)
            tails = [k.split(":", 1)[-1] for k in known]
            known |= {q for q in self.prog.classes if q not in known and tails.count(q.split(":", 1)[-1]) == 1 and not any(k != q and k in self.prog.classes and k.split(":", 1)[-1] == q.split(":", 1)[-1] for k in known)}
            self.__dict__["_known_classes"] = known
        if qual in known:
            return None
        ci = self.prog.classes.get(qual)
        if ci is None or not self.prog.all_fields(ci) or ci.methods.get("__init__") is not None:
            return None
        is_dc = any(ast.unparse(d).split("(")[0].split(".")[-1] == "dataclass" for d in ci.node.decorator_list)
        is_nt = any(ast.unparse(b).split(".")[-1] == "NamedTuple" for b in ci.node.bases)
        if not (is_dc or is_nt):
            return None  # a mixin / base class with annotated attributes is not a record
        return ci

    def _holder_fields(self, ci: Any) -> dict[str, str] | None:
        """field -> constructor parameter, for a class that did not exist when the rules were written and whose
        `__init__` does nothing but `self.<field> = <parameter>` (an object made to carry values into its methods,
        e.g. a hand-written context manager): its constructor term is then a record of those fields"""
        cache = self.__dict__.setdefault("_holders", {})
        if ci.qual in cache:
            return cache[ci.qual]
        cache[ci.qual] = None
        self._new_record_class(None)  # loads the known-class list
        init = ci.methods.get("__init__")
        if init is None or ci.qual in (self.__dict__.get("_known_classes") or ()):
            return None
        params = init.positional_params()[1:] + [a.arg for a in init.node.args.kwonlyargs]
        selfname = init.positional_params()[0]
        out: dict[str, str] = {}
        for st in init.node.body:
            if isinstance(st, ast.Expr) and isinstance(st.value, ast.Constant):
                continue  # docstring
            tgt = val = None
            if isinstance(st, ast.Assign) and len(st.targets) == 1:
                tgt, val = st.targets[0], st.value
            elif isinstance(st, ast.AnnAssign) and st.value is not None:
                tgt, val = st.target, st.value
            if not (isinstance(tgt, ast.Attribute) and isinstance(tgt.value, ast.Name) and tgt.value.id == selfname and isinstance(val, ast.Name) and val.id in params):
                return None
            out[tgt.attr] = val.id
        if not out or init.node.args.vararg or init.node.args.kwarg:
            return None
        cache[ci.qual] = out
        return out

    def _record_of_param(self, base: Any, cfg: CFG) -> Any:
        if not (isinstance(base, tuple) and len(base) == 2 and base[0] == "param" and isinstance(base[1], str)):
            return None
        # a `param` term always denotes a parameter of the function whose paths are being enumerated (parameters of
        # inlined helpers are replaced by the argument terms), whatever frame the expression is evaluated in
        root = getattr(self, "_root_fi", None)
        ty = self.prog.func_locals(root).get(base[1].lstrip("*")) if root is not None and base[1].lstrip("*") in root.param_names() else self.prog.func_locals(cfg.func).get(base[1].lstrip("*"))
        if not ty:
            return None
        cl = [a[1] for a in ty if a[0] == "cls"]
        if len(cl) != 1:
            return None
        return self._new_record_class(cl[0])

    def _classes_named(self, name: str) -> list[str]:
        """qualified names of the classes called `name`; twins that each keep a private record of the same name and the
        same fields (one per module) count as one"""
        cands = [q for q, c in self.prog.classes.items() if c.name == name]
        if len(cands) > 1:
            shapes = {tuple(self.prog.all_fields(self.prog.classes[q])) for q in cands}
            if len(shapes) == 1 and all(not self.prog.classes[q].methods for q in cands):
                return cands[:1]
        return cands

    def _record_field(self, base: Any, key: Any, cfg: CFG) -> Any:
        """value of field `key` (name or index) of `base` when base is a parameter object or its constructor term"""
        if isinstance(base, tuple) and base[0] == "pure" and isinstance(base[1], str) and base[1].startswith("new "):
            cname = base[1][4:]
            cands = self._classes_named(cname)
            ci = self._new_record_class(cands[0]) if len(cands) == 1 else None
            if ci is None and len(cands) == 1 and isinstance(key, str) and self._holder_fields(self.prog.classes[cands[0]]) is not None:
                return dict(base[3]).get(key)
            if ci is None and len(cands) == 1 and isinstance(key, str):
                # a field of a freshly constructed plain dataclass / NamedTuple of the library (no __init__, no
                # __post_init__, no member of that name): the argument it was built with
                c0 = self.prog.classes[cands[0]]
                plain = (any(ast.unparse(d).split("(")[0].split(".")[-1] == "dataclass" for d in c0.node.decorator_list) or any(ast.unparse(b).split(".")[-1] == "NamedTuple" for b in c0.node.bases)) and not any(m in k.methods for k in self.prog.mro(c0) for m in ("__init__", "__post_init__", "__getattribute__", "__getattr__", key))
                if plain and key in self.prog.all_fields(c0):
                    ci = c0
            if ci is not None:
                fields = self.prog.all_fields(ci)
                vals: dict[str, Any] = {}
                for i, a in enumerate(base[2]):
                    if i < len(fields):
                        vals[fields[i]] = a
                vals.update(dict(base[3]))
                name = fields[key] if isinstance(key, int) and key < len(fields) else key
                if isinstance(name, str) and name in vals:
                    return vals[name]
                if isinstance(name, str) and name in fields:
                    d = self.prog.field_default(ci, name)
                    if isinstance(d, ast.Constant):
                        return ("const", d.value)
            return None
        ci = self._record_of_param(base, cfg)
        if ci is not None:
            fields = self.prog.all_fields(ci)
            name = fields[key] if isinstance(key, int) and key < len(fields) else key
            if isinstance(name, str) and name in fields:
                return ("param", name)
        return None

    def _module_const(self, m: Any, name: str, val: ast.expr) -> Any:
        """value of a module-level name bound exactly once to a literal constant / enum member / flat
        collection of those (a constant hoisted out of a function): the term the inline literal would give"""
        ck = (m.name, name)
        cache = self.__dict__.setdefault("_mconst", {})
        if ck in cache:
            return cache[ck]
        cache[ck] = None
        n_bind = 0
        for n in ast.walk(m.tree):
            if isinstance(n, ast.Name) and n.id == name and isinstance(n.ctx, (ast.Store, ast.Del)):
                n_bind += 1
            elif isinstance(n, ast.Global) and name in n.names:
                n_bind += 2
        if n_bind != 1:
            return None
        import types

        from .model import FuncInfo

        stub = types.SimpleNamespace(func=FuncInfo(f"{m.name}:<module>", m, ast.parse("def _m(): pass").body[0]))

        def scalar(x: ast.expr) -> Any:
            if isinstance(x, ast.Constant):
                return ("const", x.value)
            if isinstance(x, ast.UnaryOp) and isinstance(x.op, ast.USub) and isinstance(x.operand, ast.Constant) and isinstance(x.operand.value, (int, float)):
                return ("const", -x.operand.value)
            if isinstance(x, ast.Attribute):
                ec = self.prog.enum_const(x, stub.func)
                if ec is not None:
                    return ("enum", ec[0], ec[1])
                if x.attr in ("value", "name") and isinstance(x.value, ast.Attribute):
                    ec = self.prog.enum_const(x.value, stub.func)
                    if ec is not None:
                        return ("attr", ("enum", ec[0], ec[1]), x.attr)
            if isinstance(x, ast.Name):
                k2, p2 = self.prog.lookup_name(x.id, None, m)
                if k2 == "class" and x.id in self.kinds.parent:
                    return ("global", p2.qual)
                if k2 == "ext" and str(p2).startswith("builtins.") and x.id in self.kinds.parent:
                    return ("global", p2)
            return None

        def elem(y: ast.expr) -> Any:
            v = scalar(y)
            if v is None:
                v = coll(y)
            if v is None:
                v = record(y)
            return v

        def coll(x: ast.expr) -> Any:
            if isinstance(x, (ast.Tuple, ast.List, ast.Set)):
                el = [elem(y) for y in x.elts]
                if any(y is None for y in el):
                    return None
                return ("set" if isinstance(x, ast.Set) else "tuple", tuple(el))
            if isinstance(x, ast.Call) and isinstance(x.func, ast.Name) and x.func.id in ("frozenset", "set", "tuple") and len(x.args) == 1 and not x.keywords:
                inner = coll(x.args[0])
                if inner is None:
                    return None
                return ("tuple" if x.func.id == "tuple" else "set", inner[1])
            if isinstance(x, ast.Call) and isinstance(x.func, ast.Name) and x.func.id in ("frozenset", "set", "tuple") and not x.args and not x.keywords:
                return ("tuple" if x.func.id == "tuple" else "set", ())
            return None

        def record(x: ast.expr) -> Any:
            # `_STOP_X = _Stop(EventName.A, StopReason.B)`: a constant of a record class that did not exist when the
            # rules were written (a row of a decision table written as data): its constructor term
            if not (isinstance(x, ast.Call) and isinstance(x.func, ast.Name)):
                return None
            k2, p2 = self.prog.lookup_name(x.func.id, None, m)
            if k2 != "class" or self._new_record_class(p2.qual) is None:
                return None
            args = [scalar(a) or coll(a) for a in x.args]
            kws = {kw.arg: (scalar(kw.value) or coll(kw.value)) for kw in x.keywords if kw.arg is not None}
            if any(a is None for a in args) or any(v is None for v in kws.values()) or len(kws) != len(x.keywords):
                return None
            return ("pure", "new " + p2.name, tuple(args), tuple(sorted(kws.items())))

        def table(x: ast.expr) -> Any:
            # a decision table written as data: {constant / enum member: scalar or flat tuple}
            if isinstance(x, ast.Call) and ast.unparse(x.func).split(".")[-1] in ("MappingProxyType", "dict", "frozendict") and len(x.args) == 1 and not x.keywords and isinstance(x.args[0], ast.Dict):
                x = x.args[0]  # a read-only / copied view of a dict display is that table
            if not isinstance(x, ast.Dict) or not x.keys or any(k is None for k in x.keys):
                return None
            pairs = []
            for k, v in zip(x.keys, x.values):
                kk = scalar(k)
                vv = scalar(v)
                if vv is None:
                    vv = coll(v)
                if vv is None and isinstance(v, ast.Name):
                    k3, p3 = self.prog.lookup_name(v.id, None, m)
                    if k3 == "func":
                        vv = ("global", p3.qual)  # a dispatch table of module-level functions
                if kk is None or vv is None or kk[0] not in ("const", "enum"):
                    return None
                pairs.append((kk, vv))
            return ("dict", tuple(pairs))

        out = scalar(val)
        if out is None:
            out = coll(val)
        if out is None:
            out = record(val)
        if out is None:
            out = table(val)
        cache[ck] = out
        return out

    # ------------------------------------------------------------------ symbolic evaluation
    def sym(self, e: ast.expr | None, env: dict, store: dict, cfg: CFG) -> Any:
        fi = cfg.func
        if e is None:
            return ("const", None)
        if isinstance(e, ast.Constant):
            return ("const", e.value)
        if isinstance(e, ast.Name):
            if e.id in env:
                return env[e.id]
            f = fi.parent
            while f is not None:
                if e.id in self.prog.func_locals(f):
                    d = self._closure_dict(f, e.id)
                    return d if d is not None else ("free", e.id)
                f = f.parent
            k, p = self.prog.lookup_name(e.id, fi, fi.module)
            if k == "func":
                return ("global", p.qual)
            if k == "class":
                return ("global", p.qual)
            if k == "mod":
                return ("global", p)
            if k == "ext":
                return ("global", p)
            if k == "assign":
                cv = self._module_const(p[0], e.id, p[1])
                return cv if cv is not None else ("global", f"{p[0].name}:{e.id}")
            return ("free", e.id)
        if isinstance(e, ast.Attribute):
            ec = self.prog.enum_const(e, fi)
            if ec is not None and not (isinstance(e.value, ast.Name) and e.value.id in env):
                return ("enum", ec[0], ec[1])
            base = self.sym(e.value, env, store, cfg)
            if base[0] == "global":
                t = self.prog.type_of(e, fi)
                for a in t:
                    if a[0] in ("func", "bound"):
                        return ("global", a[1])
                    if a[0] == "type":
                        return ("global", a[1])
                    if a[0] == "ext":
                        return ("global", a[1])
                    if a[0] == "mod":
                        return ("global", a[1])
                return ("global", base[1] + "." + e.attr)
            if base[0] == "enum" and e.attr in ("value", "name"):
                return base if e.attr == "value" else ("attr", base, "name")
            if ("attr", base, e.attr) in store:
                return store[("attr", base, e.attr)]  # a field written on this path: the value written, not the one it was built with
            rf = self._record_field(base, e.attr, cfg)
            if rf is not None:
                return rf
            pv = self._new_property(e, base, env, store, cfg)
            if pv is not None:
                return pv
            loc = ("attr", base, e.attr)
            return store.get(loc, loc)
        if isinstance(e, ast.Subscript):
            base = self.sym(e.value, env, store, cfg)
            idx = self.sym(e.slice, env, store, cfg)
            if idx[0] == "const" and isinstance(idx[1], int):
                rf = self._record_field(base, idx[1], cfg)
                if rf is not None:
                    return rf
            loc = ("sub", base, idx)
            if loc not in store and isinstance(base, tuple) and base:
                # indexing a constant table / tuple with a constant: the element
                if base[0] == "dict" and idx[0] in ("const", "enum") and all(k[0] in ("const", "enum") for k, _v in base[1]):
                    hit = [v for k, v in base[1] if k == idx]
                    if len(hit) == 1:
                        return hit[0]
                if base[0] == "tuple" and idx[0] == "const" and isinstance(idx[1], int) and not isinstance(idx[1], bool) and 0 <= idx[1] < len(base[1]):
                    return base[1][idx[1]]
            return store.get(loc, loc)
        if isinstance(e, ast.Call):
            r = env.get(("$r", id(e)))
            if r is None:
                raise NotEvaluated(f"{fi.where(e)}: call result used before evaluation")
            return r
        if isinstance(e, ast.Await):
            return self.sym(e.value, env, store, cfg)
        if isinstance(e, ast.Compare):
            cur = self.sym(e.left, env, store, cfg)
            parts = []
            for op, right in zip(e.ops, e.comparators):
                r = self.sym(right, env, store, cfg)
                atom, pol = canon_cmp(CMP[type(op)], cur, r)
                parts.append(atom if pol else ("not", atom))
                cur = r
            return parts[0] if len(parts) == 1 else ("bool", "and", tuple(parts))
        if isinstance(e, ast.BoolOp):
            got = []
            for v in e.values:
                try:
                    got.append(self.sym(v, env, store, cfg))
                except NotEvaluated:
                    break  # short-circuited on this path
            if not got:
                raise NotEvaluated(f"{fi.where(e)}: operand not evaluated")
            if len(got) == 1:
                return got[0]
            return ("bool", "and" if isinstance(e.op, ast.And) else "or", tuple(got))
        if isinstance(e, ast.UnaryOp):
            v = self.sym(e.operand, env, store, cfg)
            if isinstance(e.op, ast.Not):
                if v[0] == "not":
                    return ("truth", v[1])
                return ("not", v)
            if isinstance(e.op, ast.USub):
                if v[0] == "const" and isinstance(v[1], (int, float)):
                    return ("const", -v[1])
                return ("un", "-", v)
            return ("un", type(e.op).__name__, v)
        if isinstance(e, ast.BinOp):
            a = self.sym(e.left, env, store, cfg)
            b = self.sym(e.right, env, store, cfg)
            if isinstance(e.op, ast.BitOr) and isinstance(a, tuple) and a and a[0] == "dict" and isinstance(b, tuple) and b and b[0] in ("dict", "local", "param", "fresh", "attr"):
                # `{...} | tags` builds the dict `{..., **tags}` builds (PEP 584: a new dict, right operand wins)
                return ("dict", a[1] + ((("const", "**"), b),))
            return ("op", BIN[type(e.op)], a, b)
        if isinstance(e, ast.IfExp):
            tk = _taken(e.test, env)
            if tk is not None:
                # the path went through this conditional expression's test: the branch is known
                return self.sym(e.body if tk else e.orelse, env, store, cfg)
            c = self.sym(e.test, env, store, cfg)
            try:
                a = self.sym(e.body, env, store, cfg)
            except NotEvaluated:
                return self.sym(e.orelse, env, store, cfg)
            try:
                b = self.sym(e.orelse, env, store, cfg)
            except NotEvaluated:
                return a
            cv = const_truth(c)
            if cv is True:
                return a
            if cv is False:
                return b
            return ("ite", c, a, b)
        if isinstance(e, (ast.Tuple, ast.List)):
            return ("tuple", tuple(self.sym(x, env, store, cfg) for x in e.elts))
        if isinstance(e, ast.Set):
            return ("set", tuple(self.sym(x, env, store, cfg) for x in e.elts))
        if isinstance(e, ast.Dict):
            return ("dict", tuple((self.sym(k, env, store, cfg) if k is not None else ("const", "**"), self.sym(v, env, store, cfg)) for k, v in zip(e.keys, e.values)))
        if isinstance(e, ast.Lambda):
            return ("lambda", id(e))
        if isinstance(e, ast.JoinedStr):
            return ("fstr", id(e))
        if isinstance(e, ast.Starred):
            return ("star", self.sym(e.value, env, store, cfg))
        if isinstance(e, ast.NamedExpr):
            if isinstance(e.target, ast.Name) and e.target.id in env:
                # already bound by the walrus store node on this path
                try:
                    return self.sym(e.value, env, store, cfg)
                except NotEvaluated:
                    return env[e.target.id]
            return self.sym(e.value, env, store, cfg)
        if isinstance(e, (ast.ListComp, ast.SetComp, ast.GeneratorExp, ast.DictComp)):
            return ("comp", id(e))
        if isinstance(e, ast.Slice):
            return ("slice", id(e))
        raise AnalysisError(f"{fi.where(e)}: expression kind {type(e).__name__} is not modelled")

    # ------------------------------------------------------------------ enumeration
    def paths(
        self,
        fi: FuncInfo,
        raises: Callable[[PEvent, CFG], Iterable[str]] | None = None,
        start: int | None = None,
        stop_at: set[int] | None = None,
        env0: dict | None = None,
        max_paths: int = 60000,
        key: str = "",
        _depth: int = 0,
        store0: dict | None = None,
    ) -> list[SymPath]:
        ck = (fi.qual, key, start, tuple(sorted(stop_at or ())))
        if raises is None and env0 is None and ck in self._cache:
            return self._cache[ck]
        self._depth = _depth
        self._raises = raises
        if _depth == 0:
            self._root_fi = fi
        cfg = self.cfgs.get(fi)
        env: dict = {}
        for p in fi.param_names():
            env[p] = ("param", p)
        if fi.node.args.vararg:
            env[fi.node.args.vararg.arg] = ("param", "*" + fi.node.args.vararg.arg)
        if fi.node.args.kwarg:
            env[fi.node.args.kwarg.arg] = ("param", "**" + fi.node.args.kwarg.arg)
        if env0:
            env.update(env0)
        out: list[SymPath] = []
        # explicit stack: (node id, env, store, items, literal map, loop visits, pending)
        stack: list[tuple] = [(cfg.entry if start is None else start, env, dict(store0 or {}), [], {}, {}, False)]
        steps = 0
        while stack:
            nid, env, store, items, lits, visits, trunc = stack.pop()
            steps += 1
            if steps > 4_000_000:
                raise AnalysisError(f"path explosion in {fi.qual}")
            node = cfg.nodes[nid]
            if stop_at and nid in stop_at and items:
                out.append(SymPath(items, ("loop", nid), env, trunc))
                continue
            k = node.kind

            def go(label: str = "n", env=env, store=store, items=items, lits=lits, visits=visits, trunc=trunc) -> None:
                for lab, t in node.succ:
                    if lab == label:
                        stack.append((t, env, store, items, lits, visits, trunc))

            def raise_to(kind: str, val: Any, env=env, store=store, items=items, lits=lits, visits=visits, trunc=trunc, node=node) -> None:
                where, payload = cfg.dispatch(kind, node.ctx)
                if where == "handler":
                    env2 = dict(env)
                    drop_temps(env2)
                    ev = ("exc", kind, payload.id)
                    env2[("$exc", payload.id)] = val if val is not None else ev
                    if payload.name:
                        env2[payload.name] = val if val is not None else ev
                    stack.append((payload.entry, env2, store, items, lits, visits, trunc))
                elif where == "finally":
                    env2 = dict(env)
                    drop_temps(env2)
                    env2[("$pend", payload.pend)] = (kind, val)
                    stack.append((payload.entry, env2, store, items, lits, visits, trunc))
                else:
                    out.append(SymPath(items, ("raise", kind, val), env, trunc))

            if k in ("entry", "def", "with_enter", "with_exit", "finally_exc"):
                if k in ("with_enter", "with_exit"):
                    items = items + [("ev", self._ev(cfg, k, node, label=k))]
                go(items=items)
            elif k == "nop":
                if node.info.get("loop_head"):
                    c = visits.get(nid, 0)
                    if c >= 1:
                        out.append(SymPath(items, ("loop", nid), env, True))
                        continue
                    visits = dict(visits)
                    visits[nid] = c + 1
                if node.info.get("comp"):
                    c = visits.get(nid, 0)
                    if c >= 1:
                        # leave the comprehension loop
                        tgt = [t for lab, t in node.succ]
                        # successors: inner events first, then the continuation; take the last
                        stack.append((tgt[-1], env, store, items, lits, visits, trunc))
                        continue
                    visits = dict(visits)
                    visits[nid] = c + 1
                go(visits=visits)
            elif k == "exit":
                rv = env.get("$ret", ("const", None))
                out.append(SymPath(items, ("return", rv), env, trunc))
            elif k == "call":
                self._call(cfg, node, env, store, items, go, raise_to, raises)
            elif k == "await":
                ev = self._ev(cfg, "await", node, label="await " + ast.unparse(node.ast.value)[:50])
                of = node.info.get("of")
                env2 = dict(env)
                if of is not None:
                    env2[("$r", id(node.ast))] = env.get(("$r", id(cfg.nodes[of].ast)), ("fresh", self._nid(node), "await"))
                    ev.result = env2[("$r", id(node.ast))]
                else:
                    ev.recv = self.sym(node.ast.value, env, store, cfg)
                items2 = items + [("ev", ev)]
                if raises is not None:
                    for kind in raises(ev, cfg):
                        raise_to(kind, None, items=items2 + [("ev", self._ev(cfg, "exc", node, value=kind, label=ev.label))])
                go(env=env2, items=items2)
            elif k == "store":
                val = self.sym(node.info["value"], env, store, cfg)
                env2 = dict(env)
                store2 = store
                items2 = items
                for t in node.info["targets"]:
                    env2, store2, items2 = self._assign(cfg, node, t, val, env2, store2, items2, node.info["aug"])
                if not isinstance(node.ast, ast.NamedExpr):
                    drop_temps(env2)  # a walrus sits inside a larger expression whose temporaries stay live
                go(env=env2, store=store2, items=items2)
            elif k == "test":
                c = self.sym(node.info["cond"], env, store, cfg)
                atom, pol = literal(c)
                cv = const_truth(atom)
                if cv is None:
                    cv = self._exc_truth(atom)
                for br, lab in ((True, "T"), (False, "F")):
                    if not br and node.info.get("assert"):
                        continue
                    want = br == pol
                    if cv is not None:
                        if cv != want:
                            continue
                        env2 = dict(env)
                        if not node.info.get("value_ctx"):
                            drop_temps(env2)
                        else:
                            env2[("$t", id(node.info["cond"]))] = br
                        go(lab, env=env2)
                        continue
                    implied = False
                    if atom in lits:
                        if lits[atom] != want:
                            continue
                        lits2 = lits
                        # the path already decided this very test the same way (`if x is None: return`; `assert x is not
                        # None`): nothing new is learnt, no second condition is recorded - unless it is a loop test,
                        # whose repetition marks an iteration
                        implied = node.info.get("loop_test_of") is None and bool(node.info.get("assert"))
                    else:
                        lits2 = dict(lits)
                        lits2[atom] = want
                    env2 = dict(env)
                    if not node.info.get("value_ctx"):
                        drop_temps(env2)
                    else:
                        env2[("$t", id(node.info["cond"]))] = br
                    go(lab, env=env2, items=items if implied else items + [("cond", atom, want, node, cfg, self._frames, br)], lits=lits2)
            elif k == "iter" and self._literal_iter(node, env, store, cfg, visits.get(nid, 0)) is not None:
                # a loop over a tuple display local to the function (a decision table written as data): unrolled exactly
                elems = self._literal_iter(node, env, store, cfg, visits.get(nid, 0))
                c = visits.get(nid, 0)
                v2 = dict(visits)
                v2[nid] = c + 1
                if c < len(elems):
                    env2 = dict(env)
                    env2, store2, items2 = self._assign(cfg, node, node.info["target"], elems[c], env2, store, items, None)
                    go("body", env=env2, store=store2, items=items2, visits=v2)
                else:
                    v2[nid] = 0
                    go("done", visits=v2)
            elif k == "iter":
                c = visits.get(nid, 0)
                if c == 0:
                    it = self.sym(node.info["iter"], env, store, cfg)
                    ev = self._ev(cfg, "iter", node, recv=it, label="for " + ast.unparse(node.info["target"]))
                    v2 = dict(visits)
                    v2[nid] = 1
                    env2 = dict(env)
                    self._bind_fresh(node.info["target"], self._nid(node), env2)
                    go("body", env=env2, items=items + [("ev", ev)], visits=v2)
                    ev0 = self._ev(cfg, "iter", node, recv=it, label=ev.label + " (zero iterations)", value="zero")
                    go("done", items=items + [("ev", ev0)], visits=v2)
                else:
                    # one iteration done: record and leave (longer runs repeat the same body)
                    go("done", trunc=True)
            elif k == "return":
                env2 = dict(env)
                env2["$ret"] = self.sym(node.info["value"], env, store, cfg) if node.info["value"] is not None else ("const", None)
                drop_temps(env2)
                go(env=env2, items=items + [("ev", self._ev(cfg, "return", node, value=env2["$ret"], label="return"))])
            elif k == "raise":
                exc = node.info["exc"]
                if exc is None:
                    hid = node.info["handler"]
                    v = env.get(("$exc", hid))
                    if v is None:
                        raise AnalysisError(f"{fi.where(node.ast)}: bare raise outside handler")
                    kind = v[1] if v[0] == "exc" else "OtherException"
                    raise_to(kind, v, items=items + [("ev", self._ev(cfg, "raise", node, value=v, label="reraise"))])
                else:
                    v = self.sym(exc, env, store, cfg)
                    kind = self.kinds.raise_kind(exc, fi)
                    if kind is None:
                        kind = v[1] if v[0] == "exc" else "?"
                    cause = self.sym(node.info["cause"], env, store, cfg) if node.info["cause"] is not None else None
                    pe = self._ev(cfg, "raise", node, value=v, label="raise " + ast.unparse(exc)[:50])
                    pe.kwargs = {"cause": cause}
                    raise_to(kind, v, items=items + [("ev", pe)])
            elif k == "handler":
                go(items=items + [("ev", self._ev(cfg, "handler", node, value=node.info["classes"], label="except " + ",".join(node.info["classes"])))])
            elif k == "reraise_pending":
                pk = env.get(("$pend", node.info["pend"]))
                if pk is None:
                    raise AnalysisError("finally without pending exception")
                raise_to(pk[0], pk[1])
            else:
                raise AnalysisError(f"unknown node kind {k}")
            if len(out) > max_paths:
                raise AnalysisError(f"more than {max_paths} paths in {fi.qual}")
        if raises is None and env0 is None:
            self._cache[ck] = out
        return out

    LOG_METHODS = ("debug", "info", "warning", "error", "exception", "critical", "log", "isEnabledFor")

    def _is_logging(self, call: ast.Call, name: str, fi: FuncInfo) -> bool:
        """`logging.getLogger(...)`, `logging.getLogger(...).debug(...)`, `logging.debug(...)`, or `<LOGGER>.debug(...)`
        where LOGGER is a module-level name bound once to `logging.getLogger(...)`"""
        if name.startswith("logging."):
            return True
        f = call.func
        if isinstance(f, ast.Attribute) and f.attr in self.LOG_METHODS and isinstance(f.value, ast.Name):
            k, p = self.prog.lookup_name(f.value.id, fi, fi.module)
            if k == "assign" and isinstance(p[1], ast.Call) and ast.unparse(p[1].func) in ("logging.getLogger", "getLogger"):
                return True
        return False

    def _pure_sym(self, e: ast.expr, env: dict, store: dict, cfg: CFG) -> Any:
        """symbolic value of an expression made of names, constants, comparisons, boolean operators and calls of pure
        builtins / methods only (the tests of a comprehension): evaluated without CFG events"""
        if isinstance(e, ast.Call):
            f = e.func
            name = f.id if isinstance(f, ast.Name) else ("." + f.attr if isinstance(f, ast.Attribute) else None)
            args = [self._pure_sym(a, env, store, cfg) for a in e.args]
            if e.keywords or name is None:
                raise NotEvaluated("call in a comprehension test")
            if isinstance(f, ast.Name) and name in PURE_BUILTINS:
                return ("pure", name, tuple(args), ())
            if isinstance(f, ast.Attribute) and f.attr in PURE_METHODS:
                return ("pure", name, tuple([self._pure_sym(f.value, env, store, cfg)] + args), ())
            raise NotEvaluated(f"call of {name} in a comprehension test")
        if isinstance(e, ast.BoolOp):
            return ("bool", "and" if isinstance(e.op, ast.And) else "or", tuple(self._pure_sym(v, env, store, cfg) for v in e.values))
        if isinstance(e, ast.UnaryOp) and isinstance(e.op, ast.Not):
            return ("not", self._pure_sym(e.operand, env, store, cfg))
        if isinstance(e, ast.Compare):
            cur = self._pure_sym(e.left, env, store, cfg)
            parts = []
            for op, right in zip(e.ops, e.comparators):
                r = self._pure_sym(right, env, store, cfg)
                atom, pol = canon_cmp(CMP[type(op)], cur, r)
                parts.append(atom if pol else ("not", atom))
                cur = r
            return parts[0] if len(parts) == 1 else ("bool", "and", tuple(parts))
        return self.sym(e, env, store, cfg)

    def _exc_truth(self, atom: Any) -> bool | None:
        """tests on the exception caught on this path (an `exc` term carries its kind): `e is None`, `isinstance(e, C)`
        for classes that are kinds of the partition - what a hand-written `__exit__(self, t, e, tb)` does"""
        if not isinstance(atom, tuple) or not atom:
            return None
        if atom[0] == "cmp" and atom[1] == "is" and atom[3] == ("const", None) and isinstance(atom[2], tuple) and atom[2] and atom[2][0] == "exc":
            return False
        if atom[0] == "pure" and atom[1] == "isinstance" and len(atom[2]) == 2 and isinstance(atom[2][0], tuple) and len(atom[2][0]) > 1 and atom[2][0][0] == "pure" and isinstance(atom[2][0][1], str) and atom[2][0][1].startswith("new "):
            # isinstance(<constructor term of class X>, C): decided by X's base classes
            cname = atom[2][0][1][4:]
            cands = [c for c in self.prog.classes.values() if c.name == cname]
            cl = atom[2][1]
            terms = list(cl[1]) if isinstance(cl, tuple) and cl and cl[0] == "tuple" else [cl]
            if len(cands) == 1 and all(isinstance(t, tuple) and len(t) == 2 and t[0] == "global" and t[1] in self.prog.classes for t in terms):
                mro = {c.qual for c in self.prog.mro(cands[0])}
                return any(t[1] in mro for t in terms)
            return None
        if atom[0] == "pure" and atom[1] == "isinstance" and len(atom[2]) == 2 and isinstance(atom[2][0], tuple) and atom[2][0] and atom[2][0][0] == "exc":
            kind = atom[2][0][1]
            cl = atom[2][1]
            terms = list(cl[1]) if isinstance(cl, tuple) and cl and cl[0] == "tuple" else [cl]
            names = []
            for t in terms:
                if not (isinstance(t, tuple) and len(t) == 2 and t[0] == "global" and isinstance(t[1], str)):
                    return None
                nm = t[1].replace(":", ".").split(".")[-1]
                if nm not in self.kinds.parent:
                    return None
                names.append(nm)
            if kind not in self.kinds.parent:
                return None
            return any(self.kinds.is_sub(kind, c) for c in names)
        return None

    def _literal_iter(self, node: Node, env: dict, store: dict, cfg: CFG, visit: int) -> Any:
        """elements of the iterated collection when it is a tuple / list display of tuple displays bound to a local
        of this function (at most 12 rows), else None"""
        it = node.info["iter"]
        if isinstance(it, ast.Call) and isinstance(it.func, ast.Name) and it.func.id == "range" and len(it.args) == 1 and not it.keywords and self._idp:
            # inside an inlined helper: `for _ in range(count)` with the count known at this call (a default of 1, say)
            try:
                n_t = self.sym(it.args[0], env, store, cfg)
            except AnalysisError:
                n_t = None
            if isinstance(n_t, tuple) and n_t[0] == "const" and isinstance(n_t[1], int) and not isinstance(n_t[1], bool) and 0 < n_t[1] <= 4:
                return [("const", i) for i in range(n_t[1])]
            return None
        if not isinstance(it, ast.Name):
            return None
        if it.id in env:
            t = env[it.id]
            # a column of an unrolled table row that is itself a tuple of constants (`for fragments, klass in TABLE:
            # for fragment in fragments:`): the inner decision list
            if isinstance(t, tuple) and t and t[0] == "tuple" and 0 < len(t[1]) <= 8 and all(isinstance(x, tuple) and x and x[0] in ("const", "enum") for x in t[1]):
                return list(t[1])
        else:
            # a module-level table (tuple of rows bound once): the same decision list, hoisted out of the function
            try:
                t = self.sym(it, env, store, cfg)
            except AnalysisError:
                return None
        row = lambda x: isinstance(x, tuple) and x and (x[0] == "tuple" or (x[0] == "pure" and isinstance(x[1], str) and x[1].startswith("new ")))  # noqa: E731
        if not (isinstance(t, tuple) and t and t[0] == "tuple" and 0 < len(t[1]) <= 16 and all(row(x) for x in t[1])):
            return None
        return list(t[1])

    def _bind_fresh(self, tgt: ast.expr, nid: int, env: dict) -> None:
        if isinstance(tgt, ast.Name):
            env[tgt.id] = ("fresh", nid, tgt.id)
        elif isinstance(tgt, (ast.Tuple, ast.List)):
            for e in tgt.elts:
                self._bind_fresh(e, nid, env)

    def _assign(self, cfg: CFG, node: Node, tgt: ast.expr, val: Any, env: dict, store: dict, items: list, aug: Any):
        if isinstance(tgt, ast.Name):
            if aug is not None:
                old = env.get(tgt.id, ("free", tgt.id))
                val = ("op", BIN[type(aug)], old, val)
            env[tgt.id] = val
            return env, store, items + [("ev", self._ev(cfg, "lstore", node, loc=("local", tgt.id), value=val, label=f"{tgt.id} = {show(val)}"[:80]))]
        if isinstance(tgt, (ast.Tuple, ast.List)):
            for i, e in enumerate(tgt.elts):
                if val[0] == "tuple" and i < len(val[1]):
                    sub = val[1][i]
                else:
                    sub = self._record_field(val, i, cfg)
                    if sub is None:
                        sub = ("sub", val, ("const", i))
                env, store, items = self._assign(cfg, node, e, sub, env, store, items, None)
            return env, store, items
        if isinstance(tgt, ast.Attribute):
            base = self.sym(tgt.value, env, store, cfg)
            loc = ("attr", base, tgt.attr)
        elif isinstance(tgt, ast.Subscript):
            base = self.sym(tgt.value, env, store, cfg)
            loc = ("sub", base, self.sym(tgt.slice, env, store, cfg))
        else:
            raise AnalysisError(f"{cfg.func.where(tgt)}: assignment target not modelled")
        if aug is not None:
            old = store.get(loc, loc)
            val = ("op", BIN[type(aug)], old, val)
        store = dict(store)
        store[loc] = val
        ev = self._ev(cfg, "store", node, loc=loc, value=val, label=f"{show(loc)} := {show(val)}"[:100])
        return env, store, items + [("ev", ev)]

    def _call(self, cfg: CFG, node: Node, env: dict, store: dict, items: list, go, raise_to, raises) -> None:
        call: ast.Call = node.ast
        fi = cfg.func
        targets = self.prog.resolve_call(call, fi)
        f = call.func
        recv = None
        if isinstance(f, ast.Attribute):
            recv = self.sym(f.value, env, store, cfg)
        if isinstance(f, ast.Name) and f.id in env and all(t.kind in ("unknown", "callback") for t in targets):
            fv = env[f.id]
            if isinstance(fv, tuple) and len(fv) == 2 and fv[0] == "global" and fv[1] in self.prog.funcs:
                from .model import Target

                targets = [Target("repo", func=self.prog.funcs[fv[1]], via="function value")]  # `handler = TABLE.get(k, default); handler(...)`
        root = getattr(self, "_root_fi", None)
        if len(targets) > 1 and isinstance(f, ast.Attribute) and root is not None and root.cls is not None and root.is_method and not root.is_staticmethod and all(t.kind == "repo" and t.func is not None and t.func.cls is not None for t in targets):
            # a method called on the object the analysed method itself runs on (it travelled through an `Any`-typed
            # field or parameter of an inlined helper): of the like-named candidates, the one of this class
            ps = root.positional_params()
            if ps and recv == ("param", ps[0]):
                mine = self.prog.find_method(root.cls, f.attr)
                own = [t for t in targets if t.func is mine]
                if len(own) == 1:
                    targets = own
        role = env.get(("$cb", f.id)) if isinstance(f, ast.Name) else None
        if role is not None and all(t.kind in ("callback", "unknown") for t in targets):
            from .model import Target

            targets = [Target("callback", category=role, via="argument of the inlined helper")]
        hof = env.get(("$fn", f.id)) if isinstance(f, ast.Name) else None
        if hof is not None and all(t.kind in ("callback", "unknown") for t in targets):
            # a parameter of an inlined helper that the caller bound to a function / bound method of the repository
            # (`_call_bound(policy.call, thunk)`): the call goes where the caller's expression points
            fexpr, ffi, frecv = hof
            t2 = self.prog.resolve_call(ast.copy_location(ast.Call(func=fexpr, args=call.args, keywords=call.keywords), call), ffi)
            if len(t2) == 1 and t2[0].kind == "repo":
                targets, recv = t2, frecv
        args = []
        for a in call.args:
            v = self.sym(a, env, store, cfg)
            if isinstance(v, tuple) and v and v[0] == "star" and isinstance(v[1], tuple) and v[1] and v[1][0] == "tuple":
                args.extend(v[1][1])  # `f(*t)` with t a known tuple (the *args of an inlined helper): spelled out
            else:
                args.append(v)
        kwargs = {}
        for kw in call.keywords:
            v = self.sym(kw.value, env, store, cfg)
            if kw.arg is None and isinstance(v, tuple) and v[0] == "dict" and all(k[0] == "const" and isinstance(k[1], str) for k, _ in v[1]):
                # `**{...}` of a dict display with constant keys (built once, splatted into several calls)
                for k, x in v[1]:
                    kwargs[k[1]] = x
            else:
                kwargs[kw.arg or "**"] = v
        label = "/".join(t.label() for t in targets)
        pure = False
        fname = None
        t0 = targets[0]
        if all(t.kind in ("lib", "unknown") for t in targets):
            name = t0.name or ""
            short = name.split(".")[-1].rstrip("()")
            if name.startswith("builtins.") and short in PURE_BUILTINS:
                pure, fname = True, short
            elif name.startswith("builtins.") and short in self.kinds.parent:
                pure, fname = True, "new " + short
            elif name in PURE_LIB:
                pure, fname = True, name
            elif self._is_logging(call, name, fi):
                # diagnostics through the standard logging module are not an effect any property speaks about
                pure, fname = True, "logging"
            elif isinstance(f, ast.Attribute) and f.attr in PURE_METHODS:
                pure, fname = True, "." + f.attr
            elif isinstance(f, ast.Attribute) and f.attr in MUTATORS:
                pure, fname = False, "." + f.attr
        elif all(t.kind == "ctor" and t.func is None for t in targets):
            pure, fname = True, "new " + (t0.cls.name if t0.cls else "?")
        elif all(t.kind == "ctor" for t in targets) and t0.cls is not None and t0.cls.name in self.kinds.parent:
            pure, fname = True, "new " + t0.cls.name
        if not pure and len(targets) == 1 and t0.kind == "ctor" and t0.func is not None and t0.cls is not None and "**" not in kwargs and not any(isinstance(a, tuple) and a and a[0] == "star" for a in args):
            hf = self._holder_fields(t0.cls)
            if hf is not None:
                pnames = t0.func.positional_params()[1:]
                byparam = dict(kwargs)
                for i, a in enumerate(args):
                    if i < len(pnames):
                        byparam.setdefault(pnames[i], a)
                for pn, d in t0.func.param_defaults().items():
                    if pn not in byparam:
                        try:
                            byparam[pn] = self.sym(d, {}, {}, self.cfgs.get(t0.func))
                        except AnalysisError:
                            pass
                if all(pn in byparam for pn in hf.values()):
                    pure, fname = True, "new " + t0.cls.name
                    args, kwargs = [], {fld: byparam[pn] for fld, pn in hf.items()}
        if not pure and all(t.kind in ("lib", "unknown") for t in targets) and (t0.name or "").endswith("dataclasses.replace") and args and isinstance(args[0], tuple) and args[0][0] == "pure" and str(args[0][1]).startswith("new ") and "**" not in kwargs:
            # dataclasses.replace(<constructor term>, f=v, ...): the constructor term with those fields changed
            pure, fname = True, "dataclasses.replace"
        expanded = None

        def bind_row(tgt: ast.expr, row: Any, env3: dict) -> bool:
            if isinstance(tgt, ast.Name):
                env3[tgt.id] = row
                return True
            if isinstance(tgt, (ast.Tuple, ast.List)) and isinstance(row, tuple) and row and row[0] == "tuple" and len(row[1]) == len(tgt.elts):
                return all(bind_row(t2, r2, env3) for t2, r2 in zip(tgt.elts, row[1]))
            return False

        if all(t.kind in ("lib", "unknown") for t in targets) and (t0.name or "") == "builtins.next" and 1 <= len(call.args) <= 2 and isinstance(call.args[0], ast.GeneratorExp) and not call.keywords:
            # `next((value for row in TABLE if test), default)` over a constant table: first match wins - the
            # conditional chain the loop form would give
            g = call.args[0]
            gen = g.generators[0]
            if len(g.generators) == 1 and not gen.is_async and not has_events_expr(g.elt) and not any(has_events_expr(c) and not _only_pure_calls(c) for c in gen.ifs):
                try:
                    coll = self.sym(gen.iter, env, store, cfg)
                except AnalysisError:
                    coll = None
                if isinstance(coll, tuple) and coll and coll[0] == "tuple" and 0 < len(coll[1]) <= 16 and len(call.args) == 2:
                    try:
                        chain = self.sym(call.args[1], env, store, cfg)
                        for el in reversed(coll[1]):
                            env3 = dict(env)
                            if not bind_row(gen.target, el, env3):
                                raise NotEvaluated("row shape")
                            conds = [self._pure_sym(c, env3, store, cfg) for c in gen.ifs]
                            val = self.sym(g.elt, env3, store, cfg)
                            cond = conds[0] if len(conds) == 1 else (("bool", "and", tuple(conds)) if conds else ("const", True))
                            chain = val if not conds else ("ite", cond, val, chain)
                        pure, fname, expanded = True, "next", chain
                    except AnalysisError:
                        pass
        if pure and fname in ("any", "all") and len(call.args) == 1 and isinstance(call.args[0], (ast.GeneratorExp, ast.ListComp)):
            g = call.args[0]
            if len(g.generators) == 1 and not g.generators[0].ifs and isinstance(g.generators[0].target, ast.Name):
                try:
                    coll = self.sym(g.generators[0].iter, env, store, cfg)
                except AnalysisError:
                    coll = None
                if isinstance(coll, tuple) and coll[0] == "tuple" and 0 < len(coll[1]) <= 12 and not has_events_expr(g.elt):
                    parts = []
                    for el in coll[1]:
                        env3 = dict(env)
                        env3[g.generators[0].target.id] = el
                        parts.append(self.sym(g.elt, env3, store, cfg))
                    expanded = parts[0] if len(parts) == 1 else ("bool", "or" if fname == "any" else "and", tuple(parts))
        if isinstance(f, ast.Attribute) and f.attr == "get" and 1 <= len(args) <= 2 and not kwargs and isinstance(recv, tuple) and recv and recv[0] == "dict" and args[0][0] in ("const", "enum") and all(k[0] in ("const", "enum") for k, _v in recv[1]) and all(t.kind in ("lib", "unknown") for t in targets):
            hit = [v for k, v in recv[1] if k == args[0]]
            pure, fname, expanded = True, ".get", (hit[0] if hit else (args[1] if len(args) == 2 else ("const", None)))
        if isinstance(f, ast.Attribute) and f.attr == "_asdict" and not call.args and not call.keywords and all(t.kind in ("lib", "unknown") for t in targets):
            # NamedTuple._asdict() of a parameter object: the (shallow) dict of its fields
            rc = None
            if isinstance(recv, tuple) and recv and recv[0] == "pure" and isinstance(recv[1], str) and recv[1].startswith("new "):
                cands = self._classes_named(recv[1][4:])
                rc = self._new_record_class(cands[0]) if len(cands) == 1 else None
            else:
                rc = self._record_of_param(recv, cfg)
            if rc is not None and any(ast.unparse(b).split(".")[-1] == "NamedTuple" for b in rc.node.bases):
                vals = [(("const", fld), self._record_field(recv, fld, cfg)) for fld in self.prog.all_fields(rc)]
                if all(v is not None for _k, v in vals):
                    pure, fname, expanded = True, "._asdict", ("dict", tuple(vals))
        if pure:
            res = ("pure", fname, tuple(([recv] if fname and fname.startswith(".") else []) + args), tuple(sorted(kwargs.items())))
            if expanded is not None:
                res = expanded
            if fname == "typing.cast" and len(args) == 2:
                res = args[1]
            if fname == "dataclasses.replace":
                b = args[0]
                cands = [c for c in self.prog.classes.values() if c.name == b[1][4:]]
                order = self.prog.all_fields(cands[0]) if len(cands) == 1 else []
                merged = dict(b[3])
                for i, a in enumerate(b[2]):
                    if i < len(order):
                        merged[order[i]] = a
                merged.update(kwargs)
                res = ("pure", b[1], (), tuple(sorted(merged.items()))) if len(merged) >= len(b[2]) + len(b[3]) else res
        else:
            res = ("call", self._nid(node), label)
        # keyword view: positional arguments of a repository callee are also recorded under the callee's parameter
        # names, so that rules do not depend on how a private call happens to be spelled (positional / keyword / order)
        bound = kwargs
        # (one repository callee; a receiver that may also hold the result of a library call of unknown type - the
        # None of `d.get(k)`, excluded by a test on the path - adds an unnamed candidate, not a second callee)
        rts = [t for t in targets if t.kind in ("repo", "ctor")]
        tb = rts[0] if len(rts) == 1 and all(t.kind == "lib" and "()." in (t.name or "") for t in targets if t is not rts[0]) else None
        if tb is not None and not any(isinstance(a, tuple) and a and a[0] == "star" for a in args) and "**" not in kwargs:
            names: list[str] | None = None
            if tb.func is not None:
                names = tb.func.positional_params()
                if tb.kind == "ctor" or (tb.func.is_method and not tb.func.is_staticmethod and (tb.self_expr is not None or tb.func.is_classmethod)):
                    names = names[1:]
            elif tb.cls is not None:
                names = self.prog.all_fields(tb.cls)
            if names is not None and len(args) <= len(names):
                bound = dict(kwargs)
                for i, a in enumerate(args):
                    bound.setdefault(names[i], a)
                # a parameter object built for this call: its fields count as arguments under their own names
                for v in list(bound.values()):
                    if isinstance(v, tuple) and v and v[0] == "pure" and isinstance(v[1], str) and v[1].startswith("new "):
                        cands = self._classes_named(v[1][4:])
                        rc = self._new_record_class(cands[0]) if len(cands) == 1 else None
                        if rc is not None:
                            for fname in self.prog.all_fields(rc):
                                fv = self._record_field(v, fname, cfg)
                                if fv is not None:
                                    bound.setdefault(fname, fv)
        ev = self._ev(cfg, "call", node, targets=targets, recv=recv, args=args, kwargs=bound, result=res, pure=pure, label=label, awaited=bool(node.info.get("awaited")))
        if isinstance(f, (ast.Name, ast.Attribute)):
            try:
                ev.callee = self.sym(f, env, store, cfg)
            except AnalysisError:
                ev.callee = None
        items2 = items + [("ev", ev)]
        if raises is not None:
            for kind in raises(ev, cfg):
                raise_to(kind, None, items=items2 + [("ev", self._ev(cfg, "exc", node, value=kind, label=label))])
        # (one repository callee - possibly next to the unnamed candidate a `d.get(k)`-typed receiver adds, see `tb`)
        ti = t0 if len(targets) == 1 else (tb if tb is not None and tb.kind == "repo" else None)
        if (
            self.inline is not None
            and ti is not None
            and ti.kind == "repo"
            and ti.func is not None
            and len(self._idp) < self.max_inline_depth
            and self.inline(ti.func)
            and not isinstance(ti.func.node, ast.Lambda)
        ):
            self._inline(cfg, node, ti, call, recv, args, kwargs, env, store, items2, go, raise_to, raises)
            return
        if targets and all(t.kind == "repo" and t.func is not None and getattr(t.func.node, "returns", None) is not None and ast.unparse(t.func.node.returns).endswith("NoReturn") for t in targets):
            # the callee never returns normally
            raise_to("NoReturn", None, items=items2)
            return
        env2 = dict(env)
        env2[("$r", id(call))] = res
        store2 = store
        if not pure:
            # an impure call may change any heap location written so far
            if store:
                if isinstance(f, ast.Attribute) and f.attr in MUTATORS and all(t.kind in ("lib", "unknown") for t in targets):
                    store2 = {loc: (("havoc", self._nid(node), loc) if contains(loc, recv) else v) for loc, v in store.items()}
                else:
                    private = _unescaped_fresh(store, items2, [recv, *args, *kwargs.values()])
                    store2 = {loc: (v if loc in private else ("havoc", self._nid(node), loc)) for loc, v in store.items()}
        go(env=env2, store=store2, items=items2)


def _inline_impl(self, cfg, node, tg, call, recv, args, kwargs, env, store, items2, go, raise_to, raises) -> None:
    """enumerate the callee's paths with its parameters bound to the caller's argument terms and
    splice them into the caller's path (effects, branch literals and the returned term)"""
    callee = tg.func
    pos = callee.positional_params()
    names = callee.param_names()
    # the call itself is not an effect: what the callee does is spliced in below
    import dataclasses

    items2 = items2[:-1] + [("ev", dataclasses.replace(items2[-1][1], kind="inlined"))]
    cenv: dict = {}
    if callee.parent is not None and callee.parent is cfg.func:
        # a closure defined in the calling function: its free variables are the caller's locals
        cenv = {k: v for k, v in env.items() if isinstance(k, str) and not k.startswith("$")}
    i0 = 0
    if callee.is_method and not callee.is_staticmethod and recv is not None:
        cenv[pos[0]] = recv
        i0 = 1
    for j, a in enumerate(args):
        if i0 + j < len(pos):
            cenv[pos[i0 + j]] = a
    for k, v in kwargs.items():
        if k in names:
            cenv[k] = v
    va, kwa = callee.node.args.vararg, callee.node.args.kwarg
    if va is not None and not any(isinstance(a, tuple) and a and a[0] == "star" for a in args):
        cenv[va.arg] = ("tuple", tuple(args[max(0, len(pos) - i0):]))
    if kwa is not None and "**" not in kwargs:
        cenv[kwa.arg] = ("dict", tuple((("const", k), v) for k, v in kwargs.items() if k not in names))
    # function-valued arguments: remember the caller's expression so that a call through the parameter resolves
    fn_args = [(pos[i0 + j], a) for j, a in enumerate(call.args) if i0 + j < len(pos) and not isinstance(a, ast.Starred)]
    fn_args += [(k.arg, k.value) for k in call.keywords if k.arg in names]
    for pname, a in fn_args:
        if isinstance(a, (ast.Name, ast.Attribute)):
            if isinstance(a, ast.Name) and ("$fn", a.id) in env:
                cenv[("$fn", pname)] = env[("$fn", a.id)]
                continue
            if isinstance(a, ast.Name) and ("$cb", a.id) in env:
                cenv[("$cb", pname)] = env[("$cb", a.id)]
                continue
            try:
                ft = self.prog.type_of(a, cfg.func)
            except AnalysisError:
                continue
            roles = {a[1] for a in ft if a[0] == "cb"}
            if len(roles) == 1 and all(a[0] in ("cb", "none") for a in ft) and not str(next(iter(roles))).startswith("callable:"):
                cenv[("$cb", pname)] = next(iter(roles))  # a user callable of one role handed to a shared helper
                continue
            if len(ft) == 1 and next(iter(ft))[0] in ("func", "bound"):
                try:
                    r = self.sym(a.value, env, store, cfg) if isinstance(a, ast.Attribute) else None
                except AnalysisError:
                    continue
                cenv[("$fn", pname)] = (a, cfg.func, r)
    ccfg = self.cfgs.get(callee)
    for pname, d in callee.param_defaults().items():
        if pname not in cenv:
            try:
                cenv[pname] = self.sym(d, {}, {}, ccfg)
            except AnalysisError:
                cenv[pname] = ("fresh", self._nid(node), pname)
    saved = (self._idp, self._frames, getattr(self, "_depth", 0), getattr(self, "_raises", None))
    self._idp = self._idp + (node.id,)
    self._frames = self._frames + ((cfg, node),)
    try:
        # (the callee reads the heap as the caller left it: `self._state = X; return self._decision(...)`)
        sub = self.paths(callee, raises=raises, env0=cenv, key=f"inline@{saved[0]}{node.id}", _depth=saved[2] + 1, store0=store)
    finally:
        self._idp, self._frames, self._depth, self._raises = saved
    for sp in sub:
        st2 = dict(store)
        for it in sp.items:
            if it[0] == "ev" and it[1].kind == "store":
                st2[it[1].loc] = it[1].value
            elif it[0] == "ev" and it[1].kind == "call" and not it[1].pure and st2:
                private = _unescaped_fresh(st2, items2 + list(sp.items[: sp.items.index(it)]), [it[1].recv, *it[1].args, *it[1].kwargs.values()])
                st2 = {loc: (v if loc in private else ("havoc", it[1].node.id, loc)) for loc, v in st2.items()}
        items3 = items2 + [x for x in sp.items if not (x[0] == "ev" and x[1].kind in ("return", "lstore"))]
        if sp.exit[0] == "return":
            env2 = dict(env)
            env2[("$r", id(call))] = sp.exit[1]
            go(env=env2, store=st2, items=items3)
        elif sp.exit[0] == "raise":
            raise_to(sp.exit[1], sp.exit[2] if len(sp.exit) > 2 else None, items=items3, store=st2)
        else:
            env2 = dict(env)
            env2[("$r", id(call))] = ("fresh", self._nid(node), "inlined-loop")
            go(env=env2, store=st2, items=items3, trunc=True)


PathEngine._inline = _inline_impl


def looks_like_prune(fi: FuncInfo) -> bool:
    """a helper whose only effect is `while X and X[0] <= ...: X.popleft()` (a rolling-window prune written as a
    function / method): kept as a call for the window rules, which verify its shape and read the pruned container and
    the time from the call, instead of being dissolved into the caller"""
    node = fi.node
    if not isinstance(node, (ast.FunctionDef, ast.AsyncFunctionDef)) or isinstance(node, ast.AsyncFunctionDef):
        return False
    loops = 0
    for st in node.body:
        if isinstance(st, ast.Expr) and isinstance(st.value, ast.Constant):
            continue
        if isinstance(st, (ast.Assign, ast.AnnAssign)) and isinstance((st.targets[0] if isinstance(st, ast.Assign) else st.target), ast.Name) and not has_events_expr(st.value if st.value is not None else ast.Constant(value=None)):
            continue
        if isinstance(st, ast.While) and not st.orelse and len(st.body) == 1 and isinstance(st.body[0], ast.Expr) and isinstance(st.body[0].value, ast.Call) and isinstance(st.body[0].value.func, ast.Attribute) and st.body[0].value.func.attr == "popleft" and not st.body[0].value.args:
            loops += 1
            continue
        if isinstance(st, ast.Return) and st.value is None:
            continue
        return False
    return loops == 1


def default_inline() -> Callable[[FuncInfo], bool]:
    """inline every repository function that did not exist when the rules were written
    (helpers extracted by a refactoring), so that rules keep seeing the effects"""
    import os

    path = os.path.join(os.path.dirname(os.path.abspath(__file__)), "known_funcs.txt")
    try:
        with open(path) as fh:
            known = {ln.strip() for ln in fh if ln.strip()}
    except OSError:
        known = None

    tails = {q.split(":", 1)[-1] for q in known} if known is not None else set()

    def pred(fi: FuncInfo) -> bool:
        if known is None:
            return False
        if fi.qual in known:
            return False
        if fi.qual.split(":", 1)[-1] in tails and "<locals>" not in fi.qual:
            return False  # a known function moved to another module keeps its identity for the rules
        if looks_like_prune(fi):
            return False
        return fi.module.name.startswith("redress.") and not fi.module.name.startswith(("redress.testing", "redress.cli", "redress.contrib"))

    return pred


def _only_pure_calls(e: ast.AST) -> bool:
    for n in ast.walk(e):
        if isinstance(n, (ast.Await, ast.NamedExpr, ast.Yield, ast.YieldFrom)):
            return False
        if isinstance(n, ast.Call):
            f = n.func
            if not ((isinstance(f, ast.Name) and f.id in PURE_BUILTINS) or (isinstance(f, ast.Attribute) and f.attr in PURE_METHODS)) or n.keywords:
                return False
    return True


def has_events_expr(e: ast.AST) -> bool:
    return any(isinstance(n, (ast.Call, ast.Await, ast.NamedExpr, ast.Yield, ast.YieldFrom)) for n in ast.walk(e))


def drop_temps(env: dict) -> None:
    for p in [p for p in env if isinstance(p, tuple) and p[0] in ("$r", "$t")]:
        del env[p]


def _taken(test: ast.expr, env: dict) -> bool | None:
    """outcome of a value-context test on the current path (None: the path did not record it)"""
    if isinstance(test, ast.BoolOp):
        is_and = isinstance(test.op, ast.And)
        for v in test.values:
            r = _taken(v, env)
            if r is None:
                return None
            if r != is_and:
                return r
        return is_and
    if isinstance(test, ast.UnaryOp) and isinstance(test.op, ast.Not):
        r = _taken(test.operand, env)
        return None if r is None else (not r)
    return env.get(("$t", id(test)))


def _unescaped_fresh(store: dict, items: list, call_terms: list) -> set:
    """heap locations `fresh.f` of objects constructed on this path (`new X(...)` terms) that no callee can reach: the
    object is not an argument / receiver of this call, was never an argument of an earlier impure call and was never
    stored into another object - an impure call cannot have written them"""
    out: set = set()
    bases = {loc[1] for loc in store if isinstance(loc, tuple) and len(loc) == 3 and loc[0] == "attr" and isinstance(loc[1], tuple) and loc[1] and loc[1][0] == "pure" and isinstance(loc[1][1], str) and loc[1][1].startswith("new ")}
    for b in bases:
        if any(t is not None and contains(t, b) for t in call_terms):
            continue
        escaped = False
        for it in items:
            if it[0] != "ev":
                continue
            e = it[1]
            if e.kind in ("call", "await") and not getattr(e, "pure", False):  # (an inlined call is read through: what its body does with the object follows in the items)
                if any(t is not None and contains(t, b) for t in [e.recv, *e.args, *e.kwargs.values()]):
                    escaped = True
                    break
            elif e.kind == "store" and e.value is not None and contains(e.value, b):
                escaped = True
                break
            elif e.kind == "return" and e.value is not None and contains(e.value, b):
                escaped = True
                break
        if not escaped:
            out |= {loc for loc in store if isinstance(loc, tuple) and len(loc) == 3 and loc[0] == "attr" and loc[1] == b}
    return out


def contains(t: Any, sub: Any) -> bool:
    if t == sub:
        return True
    if isinstance(t, tuple):
        return any(contains(x, sub) for x in t)
    return False


def literal(c: Any) -> tuple[Any, bool]:
    """strip negations: (atom, polarity)"""
    pol = True
    while isinstance(c, tuple) and c and c[0] == "not":
        c = c[1]
        pol = not pol
    if isinstance(c, tuple) and c and c[0] == "truth":
        c = c[1]
    return c, pol


def const_truth(c: Any) -> bool | None:
    if not isinstance(c, tuple) or not c:
        return None
    if c[0] == "const":
        return bool(c[1])
    if c[0] == "not":
        v = const_truth(c[1])
        return None if v is None else (not v)
    if c[0] == "enum":
        return True
    if c[0] == "cmp" and c[1] in ("is", "=="):
        a, b = c[2], c[3]
        if a[0] in ("const", "enum") and b[0] in ("const", "enum"):
            return a == b
        if a == b and c[1] == "is":
            return True
        if b == ("const", None) and a[0] in ("pure",) and str(a[1]).startswith("new "):
            return False
    return None


# ---------------------------------------------------------------------------
# E5 - linear normal form
# ---------------------------------------------------------------------------

def linear(t: Any) -> tuple[Fraction, dict[Any, Fraction]] | None:
    """c0 + sum ci*vi with non-arithmetic sub-terms as variables; None if non-linear"""
    if t[0] == "const":
        if isinstance(t[1], bool) or not isinstance(t[1], (int, float)):
            return None
        return Fraction(t[1]), {}
    if t[0] == "op" and t[1] in ("+", "-"):
        a, b = linear(t[2]), linear(t[3])
        if a is None or b is None:
            return None
        sign = 1 if t[1] == "+" else -1
        terms = dict(a[1])
        for k, v in b[1].items():
            terms[k] = terms.get(k, 0) + sign * v
        return a[0] + sign * b[0], {k: v for k, v in terms.items() if v != 0}
    if t[0] == "op" and t[1] == "*":
        a, b = linear(t[2]), linear(t[3])
        if a is None or b is None:
            return None
        if not a[1]:
            return a[0] * b[0], {k: v * a[0] for k, v in b[1].items() if v * a[0] != 0}
        if not b[1]:
            return a[0] * b[0], {k: v * b[0] for k, v in a[1].items() if v * b[0] != 0}
        return Fraction(0), {t: Fraction(1)}
    if t[0] == "un" and t[1] == "-":
        a = linear(t[2])
        if a is None:
            return None
        return -a[0], {k: -v for k, v in a[1].items()}
    return Fraction(0), {t: Fraction(1)}


def norm_less(atom: Any, polarity: bool, integer: bool) -> tuple[str, tuple, Fraction] | None:
    """Normal form of an ordering literal.

    ('cmp','<',a,b) with polarity  ->  (rel, terms, const) meaning  sum(terms) + const  rel  0
    with rel in {'>0', '>=0'}; for integers everything is brought to '>=0'.
    terms is a sorted tuple of (variable term, coefficient).
    """
    if not (isinstance(atom, tuple) and atom[0] == "cmp" and atom[1] == "<"):
        return None
    a, b = linear(atom[2]), linear(atom[3])
    if a is None or b is None:
        return None
    if polarity:  # a < b  <=>  b - a > 0
        c = b[0] - a[0]
        terms = dict(b[1])
        for k, v in a[1].items():
            terms[k] = terms.get(k, 0) - v
        rel = ">0"
    else:  # not a < b  <=>  a - b >= 0
        c = a[0] - b[0]
        terms = dict(a[1])
        for k, v in b[1].items():
            terms[k] = terms.get(k, 0) - v
        rel = ">=0"
    terms = {k: v for k, v in terms.items() if v != 0}
    if integer and rel == ">0":
        c -= 1
        rel = ">=0"
    return rel, tuple(sorted(terms.items(), key=repr)), c


def strip(t: Any, fn: Callable[[Any], Any]) -> Any:
    """bottom-up rewrite"""
    if isinstance(t, tuple):
        t2 = tuple(strip(x, fn) for x in t)
        return fn(t2)
    return t


def subterms(t: Any) -> Iterable[Any]:
    if isinstance(t, tuple):
        yield t
        for x in t:
            yield from subterms(x)


def match(t: Any, pat: Any, binds: dict | None = None) -> dict | None:
    """structural match; pattern strings starting with '?' are wildcards (bound by name)"""
    binds = {} if binds is None else binds
    if isinstance(pat, str) and pat.startswith("?"):
        if pat == "?":
            return binds
        if pat in binds:
            return binds if binds[pat] == t else None
        binds[pat] = t
        return binds
    if isinstance(pat, tuple):
        if not isinstance(t, tuple) or len(t) != len(pat):
            return None
        for a, b in zip(t, pat):
            if match(a, b, binds) is None:
                return None
        return binds
    return binds if t == pat else None


# ---------------------------------------------------------------------------
# concrete evaluation of pure terms / path conditions under an assignment of leaves
# ---------------------------------------------------------------------------

class CannotEval(Exception):
    pass


def evaluate(t: Any, leaf: Callable[[Any], Any]) -> Any:
    """evaluate a pure term; `leaf(term)` supplies values for non-structural terms
    (raise CannotEval when unknown).  Supports ite / bool / not / cmp is,== / tuple / const."""
    k = t[0]
    if k == "const":
        return t[1]
    if k == "enum":
        return t
    if k in ("ite", "bool", "pure", "call", "attr", "sub"):
        try:
            return leaf(t)  # the caller may assign a value to a whole compound term
        except CannotEval:
            if k not in ("ite", "bool"):
                raise
    if k == "tuple":
        return tuple(evaluate(x, leaf) for x in t[1])
    if k == "ite":
        return evaluate(t[2], leaf) if truth(t[1], leaf) else evaluate(t[3], leaf)
    if k == "bool":
        v = None
        for x in t[2]:
            v = evaluate(x, leaf)
            if t[1] == "or" and v:
                return v
            if t[1] == "and" and not v:
                return v
        return v
    if k in ("not", "cmp", "truth"):
        return truth(t, leaf)
    return leaf(t)


def truth(c: Any, leaf: Callable[[Any], Any]) -> bool:
    if c[0] == "not":
        return not truth(c[1], leaf)
    if c[0] == "truth":
        return truth(c[1], leaf)
    if c[0] == "cmp":
        if c[1] in ("is", "=="):
            return evaluate(c[2], leaf) == evaluate(c[3], leaf)
        if c[1] == "in" and c[3][0] in ("tuple", "set"):
            v = evaluate(c[2], leaf)
            return any(v == evaluate(x, leaf) for x in c[3][1])
        if c[1] == "<":
            try:
                return evaluate(c[2], leaf) < evaluate(c[3], leaf)
            except TypeError as exc:
                raise CannotEval() from exc
        return bool(leaf(c))
    if c[0] == "bool":
        v = None
        for x in c[2]:
            v = truth(x, leaf) if x[0] in ("not", "cmp", "truth", "bool") else evaluate(x, leaf)
            if c[1] == "or" and v:
                return True
            if c[1] == "and" and not v:
                return False
        return bool(v)
    return bool(evaluate(c, leaf))


def feasible_paths(paths: list[SymPath], leaf: Callable[[Any], Any]) -> list[SymPath]:
    out = []
    for p in paths:
        ok = True
        for a, pol, _ in p.conds:
            try:
                if truth(a, leaf) != pol:
                    ok = False
                    break
            except CannotEval:
                continue
        if ok:
            out.append(p)
    return out
