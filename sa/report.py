"""Evidence, findings, known-findings matching and the exit-code protocol.

exit 0  all obligations discharged (known findings printed as KNOWN-FINDING lines)
exit 1  at least one `VIOLATION property=<id> replay=<path>` line
exit 2  ANALYSIS-ERROR (anchor vanished, unrecognised construct, instance floor not met,
        internal error) - never a VIOLATION line
"""

from __future__ import annotations

import hashlib
import json
import os
import re
import time
from dataclasses import dataclass, field
from typing import Any

from .model import AnalysisError, Program

VERIF = os.path.dirname(os.path.dirname(os.path.abspath(__file__)))
KNOWN_FILE = os.path.join(VERIF, "known_findings.json")
# self-test runs redirect evidence/findings so that the committed evidence is never
# overwritten by a run against a scratch copy
OUT = os.environ.get("VERIF_OUT") or VERIF


def norm_text(s: str) -> str:
    return re.sub(r"\s+", " ", s).strip()


@dataclass
class Finding:
    prop: str
    rule: str
    key: str  # stable: rule + construct, no line numbers
    message: str
    where: str = ""  # file:line (informational)
    function: str = ""
    detail: dict = field(default_factory=dict)


class Report:
    def __init__(self, prop: str, prog: Program, tier: str) -> None:
        self.prop = prop
        self.prog = prog
        self.tier = tier
        self.t0 = time.time()
        self.obligations = 0
        self.discharged = 0
        self.evaluations = 0
        self.distinct: set[str] = set()
        self.samples: list[Any] = []
        self.findings: list[Finding] = []
        self.rules: dict[str, dict] = {}
        self.functions: set[str] = set()
        self.notes: list[str] = []
        self.assumptions: list[str] = []
        self.not_decided: list[str] = []
        self.explanation = ""
        self.trusted_base: list[str] = []
        self.extra: dict[str, Any] = {}

    # ------------------------------------------------------------------ bookkeeping
    def rule(self, rid: str, text: str) -> None:
        self.rules.setdefault(rid, {"text": text, "instances": 0, "obligations": 0, "discharged": 0})

    def instance(self, rid: str, construct: str, sample: Any = None) -> None:
        """a construct the rule had something to decide on"""
        self.rules[rid]["instances"] += 1
        self.evaluations += 1
        self.distinct.add(f"{rid}|{construct}")
        if sample is not None and len(self.samples) < 40:
            self.samples.append({"rule": rid, "construct": construct, **(sample if isinstance(sample, dict) else {"case": sample})})

    def check(self, rid: str, ok: bool, finding: Finding | None = None) -> bool:
        self.obligations += 1
        self.rules[rid]["obligations"] += 1
        if ok:
            self.discharged += 1
            self.rules[rid]["discharged"] += 1
        else:
            assert finding is not None
            self.findings.append(finding)
        return ok

    def fail(self, rid: str, key: str, message: str, where: str = "", function: str = "", **detail: Any) -> None:
        self.check(rid, False, Finding(self.prop, rid, f"{rid}|{key}", message, where, function, detail))

    def ok(self, rid: str, n: int = 1) -> None:
        for _ in range(n):
            self.check(rid, True)

    def floor(self, rid: str, minimum: int) -> None:
        have = self.rules[rid]["instances"]
        if have < minimum:
            raise AnalysisError(
                f"rule {rid} matched {have} constructs, fewer than the {minimum} confirmed by hand on the pinned tree "
                f"(anchor moved or recogniser out of date): refusing a vacuous pass"
            )

    def analysed(self, *quals: str) -> None:
        self.functions.update(quals)

    # ------------------------------------------------------------------ output
    def finish(self) -> int:
        known = load_known()
        os.makedirs(os.path.join(OUT, "evidence"), exist_ok=True)
        fdir = os.path.join(OUT, "findings", self.prop)
        os.makedirs(fdir, exist_ok=True)
        for old in os.listdir(fdir):
            if old.endswith(".json"):
                os.unlink(os.path.join(fdir, old))
        new_violations = 0
        known_hits = 0
        seen: set[str] = set()
        lines: list[str] = []
        for f in self.findings:
            if f.key in seen:
                continue
            seen.add(f.key)
            entry = known.get((self.prop, f.key))
            if entry is not None and entry.get("status") == "known":
                known_hits += 1
                lines.append(f"KNOWN-FINDING: property={self.prop} {f.key} :: {f.message} [{f.where}]")
                continue
            new_violations += 1
            h = hashlib.sha256(f.key.encode()).hexdigest()[:12]
            path = os.path.join(fdir, f"{h}.json")
            with open(path, "w") as fh:
                json.dump(
                    {
                        "property": self.prop,
                        "rule": f.rule,
                        "key": f.key,
                        "message": f.message,
                        "where": f.where,
                        "function": f.function,
                        "detail": f.detail,
                        "rule_text": self.rules.get(f.rule, {}).get("text", ""),
                    },
                    fh,
                    indent=1,
                    default=str,
                )
            lines.append(f"  {f.rule}: {f.message} [{f.where}]")
            lines.append(f"VIOLATION property={self.prop} replay={path}")
        for r in self.rules.values():
            if r["instances"] == 0 and r["obligations"]:
                r["instances"] = r["obligations"]  # rules decided inside another rule's loop over constructs
        wall = time.time() - self.t0
        ev = {
            "property_id": self.prop,
            "tier": self.tier,
            "seed": int(os.environ.get("VERIF_SEED", "0") or 0),
            "level": "other",
            "coverage": {
                "explanation": self.explanation,
                "obligations": self.obligations,
                "discharged": self.discharged,
                "evaluations": self.evaluations,
                "distinct_nontrivial": len(self.distinct),
                "rule": "one evaluation = one construct (call site, handler row, path, table row, emit site, "
                "forwarded keyword) a rule had to decide; distinct = distinct (rule, construct) pairs",
                "samples": self.samples[:40] or [{"note": "no constructs"}],
                "rules": self.rules,
                "functions_analysed": sorted(self.functions),
                "files": self.prog.digests(),
                "trusted_base": self.trusted_base,
                "not_decided": self.not_decided,
                "known_findings_matched": known_hits,
                "checker_cmd": f"/venv/bin/python check {self.prop} --tier {self.tier}",
                "exhaustive": True,
                **self.extra,
            },
            "assumptions": self.assumptions,
            "wall_s": round(wall, 3),
            "violations": new_violations,
        }
        with open(os.path.join(OUT, "evidence", f"{self.prop}.json"), "w") as fh:
            json.dump(ev, fh, indent=1, default=str)
        print(
            f"[{self.prop}] tier={self.tier} rules={len(self.rules)} obligations={self.obligations} "
            f"discharged={self.discharged} constructs={self.evaluations} distinct={len(self.distinct)} "
            f"functions={len(self.functions)} known={known_hits} violations={new_violations} wall={wall:.2f}s"
        )
        for rid, r in self.rules.items():
            print(f"  {rid}: instances={r['instances']} obligations={r['obligations']} discharged={r['discharged']} :: {r['text'][:110]}")
        for ln in lines:
            print(ln)
        return 1 if new_violations else 0


def load_known() -> dict[tuple[str, str], dict]:
    if not os.path.exists(KNOWN_FILE):
        return {}
    with open(KNOWN_FILE) as fh:
        data = json.load(fh)
    out = {}
    for e in data.get("findings", []):
        out[(e["property"], e["key"])] = e
    return out
