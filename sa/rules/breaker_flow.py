"""Settlement typestate of the four Policy entry points (shared by C07, C08, C09).

Typestate per path:  adm in {NA, NB, ASKED, AD, REJ}  x  the sequence of breaker records made.

    NA     the breaker has not been asked yet
    NB     the `breaker is None` edge was taken: there is no breaker on this path
    ASKED  CircuitBreaker.allow() returned, `.allowed` not yet tested
    AD     the allowed-edge was taken: the call is admitted
    REJ    the rejected edge was taken

Events: CircuitBreaker.allow / record_success / record_failure / record_cancel (resolved
callees, never descended into), tests of `<x>.allowed`, invocations of the operation
(category `operation`) and of the retry component (Retry/AsyncRetry.call/execute, treated
as one opaque user-level event that may end in any way the operation may end).
"""

from __future__ import annotations

import ast
from typing import Any, Iterable

from ..absint import Client, Event, Exit, Interp
from ..cfg import CFGs
from ..model import FuncInfo, Program

CB = "redress.circuit:CircuitBreaker"
ENTRY_POINTS = [
    "redress.policy.policy:Policy.call",
    "redress.policy.policy:Policy.execute",
    "redress.policy.async_policy:AsyncPolicy.call",
    "redress.policy.async_policy:AsyncPolicy.execute",
]
DESCEND_MODULES = {
    "redress.policy.policy",
    "redress.policy.async_policy",
    "redress.policy.execution",
    "redress.policy.policy_helpers",
}
RETRY_CLASSES = {"redress.policy.retry_sync:Retry", "redress.policy.retry_async:AsyncRetry"}

ALL_KINDS = (
    "AbortRetryError",
    "CancelledError",
    "KeyboardInterrupt",
    "SystemExit",
    "GeneratorExit",
    "RetryExhaustedError",
    "CircuitOpenError",
    "TimeoutError",
    "OtherException",
    "OtherBase",
)
EXC_KINDS = ("AbortRetryError", "RetryExhaustedError", "CircuitOpenError", "TimeoutError", "OtherException")
CANCELLATION = ("AbortRetryError", "CancelledError", "KeyboardInterrupt", "SystemExit", "GeneratorExit", "OtherBase")

RECORDS = {f"{CB}.record_success": "success", f"{CB}.record_failure": "failure", f"{CB}.record_cancel": "cancel"}


def breaker_absent(env: dict) -> bool:
    return any(p[-1] == "breaker" and v == ("c", None) for p, v in env.items() if isinstance(p[-1], str))


class BreakerFlow(Client):
    name = "breaker-settlement"

    def __init__(self, prog: Program, model: str = "stated") -> None:
        """model: 'stated' = the fault model of the property text;
        'wide' = every callback (hooks included) may raise every kind"""
        self.prog = prog
        self.model = model
        self.sites: dict[str, set[str]] = {"allow": set(), "record": set(), "operation": set(), "retry": set(), "callback": set()}

    def initial(self) -> Any:
        # (adm, records, flags)
        return ("NA", (), frozenset())

    # ---- structure
    def descend(self, fi: FuncInfo, ev: Event) -> bool:
        if fi.cls is not None and fi.cls.qual in RETRY_CLASSES:
            return False
        if fi.cls is not None and fi.cls.qual == CB:
            return False
        if fi.module.name in DESCEND_MODULES:
            return True
        from .runner_flow import KNOWN_MODULES

        # code moved into a module that did not exist when the rules were written
        return fi.module.name.startswith("redress.policy") and fi.module.name not in KNOWN_MODULES

    # ---- fault model
    def callback_kinds(self, category: str, ev: Event) -> Iterable[str]:
        if category == "operation":
            return ALL_KINDS
        if category in ("on_metric", "on_log"):
            return ALL_KINDS if self.model == "wide" else EXC_KINDS
        if category in ("attempt_hook", "classifier", "abort_if"):
            return ALL_KINDS if self.model == "wide" else EXC_KINDS
        return ALL_KINDS if self.model == "wide" else EXC_KINDS

    def await_kinds(self, category: str | None, ev: Event) -> Iterable[str]:
        # a real suspension point: the task may be cancelled or the coroutine closed here,
        # and the awaited operation may end in any way
        return ALL_KINDS

    def opaque_kinds(self, fi: FuncInfo, ev: Event) -> Iterable[str]:
        if fi.cls is not None and fi.cls.qual in RETRY_CLASSES and fi.name in ("call", "execute"):
            return ALL_KINDS
        return ()

    # ---- typestate
    def on_event(self, ev: Event, cs: Any) -> Any:
        adm, recs, flags = cs
        if ev.kind == "await" and ev.real and adm == "ASKED":
            return (adm, recs, flags | {f"await-asked: suspension point between allow() and the test of its answer in {ev.func.qual}"})
        if ev.kind == "call" and ev.target is not None:
            tg = ev.target
            if tg.kind == "repo" and tg.func is not None:
                q = tg.func.qual
                if q == f"{CB}.allow":
                    self.sites["allow"].add(ev.where())
                    if adm not in ("NA", "NAa"):
                        flags = flags | {f"allow-twice@{ev.func.qual}"}
                    return ("ASKED", recs, flags)
                if q in RECORDS:
                    self.sites["record"].add(ev.where())
                    kind = RECORDS[q]
                    if adm in ("NA", "NAa", "REJ", "NB"):
                        # identified by the history that leads to it (not by the function it happens to sit in):
                        # which user callback was consulted last before the breaker was told
                        after = "abort_if" if adm == "NAa" else "none"
                        flags = flags | {f"record-unadmitted|{'NA' if adm == 'NAa' else adm}|{kind}|{ev.func.qual}|after={after}"}
                    if len(recs) < 3:
                        recs = recs + (kind,)
                    return (adm, recs, flags)
                if tg.func.cls is not None and tg.func.cls.qual in RETRY_CLASSES and tg.func.name in ("call", "execute"):
                    self.sites["retry"].add(ev.where())
                    if adm in ("ASKED", "REJ", "NA", "NAa"):
                        flags = flags | {f"operation-unadmitted|{'NA' if adm == 'NAa' else adm}|{ev.func.qual}|retry.{tg.func.name}"}
                    return (adm, recs, flags)
            if tg.kind == "callback":
                self.sites["callback"].add(f"{ev.where()}:{tg.category}")
                if tg.category == "operation":
                    self.sites["operation"].add(ev.where())
                    if adm in ("ASKED", "REJ", "NA", "NAa"):
                        flags = flags | {f"operation-unadmitted|{'NA' if adm == 'NAa' else adm}|{ev.func.qual}|func"}
                    return (adm, recs, flags)
                if adm in ("NA", "NAa"):
                    # before admission: remember whether the abort predicate was the last user code consulted
                    return ("NAa" if tg.category == "abort_if" else "NA", recs, flags)
        return cs

    def _no_breaker(self, ev: Event) -> bool:
        return breaker_absent(ev.env)

    def on_event_exc(self, ev: Event, cs: Any, kind: str) -> Any:
        # the invocation itself happened even when it raises
        if ev.kind == "call" and ev.target is not None:
            tg = ev.target
            is_op = tg.kind == "callback" and tg.category == "operation"
            is_retry = tg.kind == "repo" and tg.func is not None and tg.func.cls is not None and tg.func.cls.qual in RETRY_CLASSES
            if is_op or is_retry:
                return self.on_event(ev, cs)
        return cs

    def on_branch(self, ev: Event, cs: Any, branch: bool) -> Any:
        adm, recs, flags = cs
        cond = ev.node.info["cond"]
        if adm == "ASKED" and isinstance(cond, ast.Attribute) and cond.attr == "allowed":
            return ("AD" if branch else "REJ", recs, flags)
        if adm in ("NA", "NAa") and breaker_absent(ev.env):
            # the refined environment says `<ctx>.breaker is None` (tested directly, through a walrus or a local alias)
            return ("NB", recs, flags)  # there is no breaker on this path
        return cs


class FlowResult:
    def __init__(self, prog: Program, model: str) -> None:
        self.prog = prog
        self.cfgs = CFGs(prog)
        self.client = BreakerFlow(prog, model)
        self.interp = Interp(prog, self.cfgs, self.client)
        self.exits: dict[str, list[Exit]] = {}
        for q in ENTRY_POINTS:
            fi = prog.func(q)
            self.exits[q] = self.interp.run(fi, {}, self.client.initial())

    def witness(self, ex: Exit, limit: int = 60) -> list[Any]:
        steps = self.interp.witness_path(ex.witness)
        out = []
        for s in steps:
            if s[0] == "callee-exit":
                out.append(("callee-exit", s[1], s[2], s[3]))
                if s[2] == "raise" and s[4] is not None:
                    inner = [x for x in self.interp.witness_path(s[4]) if x[0] in ("raise", "callback", "opaque-call", "enter")]
                    out.extend(("  in-callee",) + tuple(x) for x in inner[-4:])
            else:
                out.append(s)
        return out[-limit:]


_CACHE: dict[str, FlowResult] = {}


def flow(prog: Program, model: str = "stated") -> FlowResult:
    if model not in _CACHE:
        _CACHE[model] = FlowResult(prog, model)
    return _CACHE[model]
