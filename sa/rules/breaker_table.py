"""Complete abstract transition table of CircuitBreaker (shared by C06, C07)."""

from __future__ import annotations

from dataclasses import dataclass
from typing import Any

from ..ctx import engine
from ..model import AnalysisError, Program
from ..paths import PEvent, SymPath, norm_less, show
from ..table import expand, fmt_val
from .common import SELF, attr, ctor_args, enum_name

CB = "redress.circuit:CircuitBreaker"
S = attr(SELF, "_state")
P = attr(SELF, "_probe_in_flight")
OA = attr(SELF, "_opened_at")
RT = attr(SELF, "_recovery_timeout_s")
STATES = ["CLOSED", "OPEN", "HALF_OPEN"]


def is_clock(t: Any) -> bool:
    return isinstance(t, tuple) and t[0] == "call" and str(t[2]) == "callback:clock"


def classify(atom: Any, pol: bool, p: SymPath) -> tuple:
    if atom[0] == "cmp" and atom[1] in ("is", "==") and atom[2] == S:
        m = enum_name(atom[3], "CircuitState")
        if m is not None:
            return ("fn", lambda v, m=m, pol=pol: (v["ST"] == m) == pol)
    if atom == P:
        return ("atom", "probe", pol)
    if atom[0] == "cmp" and atom[1] == "is" and atom[2] == OA and atom[3] == ("const", None):
        return ("atom", "opened_none", pol)
    if atom[0] == "cmp" and atom[1] == "in" and atom[2] == ("param", "klass") and atom[3] == attr(SELF, "_trip_on"):
        return ("atom", "counted", pol)
    if isinstance(atom, tuple) and atom[0] == "call" and str(atom[2]).endswith("CircuitBreaker._note_failure"):
        return ("atom", "reached", pol)
    if atom[0] == "cmp" and atom[1] == "<":
        nf = norm_less(atom, pol, integer=False)
        if nf is not None:
            rel, terms, c = nf
            td = dict(terms)
            clk = [k for k in td if is_clock(k)]
            if c == 0 and len(clk) == 1 and set(td) == {clk[0], OA, RT}:
                if td[clk[0]] == 1 and td[OA] == -1 and td[RT] == -1 and rel == ">=0":
                    return ("atom", "timeout_elapsed", True)
                if td[clk[0]] == -1 and td[OA] == 1 and td[RT] == 1 and rel == ">0":
                    return ("atom", "timeout_elapsed", False)
            if c == 0 and set(td) == {RT}:
                # now - now >= recovery_timeout_s with recovery_timeout_s > 0 (validated in __init__)
                if td[RT] == -1 and rel == ">=0":
                    return ("fn", lambda v: False)
                if td[RT] == 1 and rel == ">0":
                    return ("fn", lambda v: True)
    return ("unknown", show(atom), pol)


def val_name(t: Any, now_ok: bool = True) -> str:
    if t is None:
        return "-"
    if t[0] == "enum":
        return t[2]
    if t[0] == "const":
        return repr(t[1])
    if is_clock(t):
        return "now"
    if t == S:
        return "<state>"
    return show(t)


@dataclass(frozen=True)
class Effect:
    state: str  # value stored to _state or '-'
    opened_at: str
    probe: str
    clears: int
    notes: tuple  # args of _note_failure calls
    ret: tuple
    other: tuple  # any other effect event (unexpected)


def is_lock_op(e: PEvent) -> bool:
    import ast

    f = e.node.ast.func if isinstance(e.node.ast, ast.Call) else None
    return isinstance(f, ast.Attribute) and f.attr in ("acquire", "release") and e.recv == attr(SELF, "_lock") and not e.args and not e.kwargs


def _is_clear(e: PEvent, container: Any) -> bool:
    import ast

    f = e.node.ast.func if isinstance(e.node.ast, ast.Call) else None
    return isinstance(f, ast.Attribute) and f.attr == "clear" and e.recv == container and not any(t.kind in ("repo", "ctor", "callback") for t in e.targets)


def decode(p: SymPath) -> Effect:
    st = oa = pr = "-"
    clears = 0
    notes = []
    other = []
    # `_clear_failures()` spelled out: one clear of each window container counts as one clearing
    inline_f = [e for e in p.events if e.kind == "call" and _is_clear(e, attr(SELF, "_failures"))]
    inline_c = [e for e in p.events if e.kind == "call" and _is_clear(e, attr(SELF, "_class_failures"))]
    paired = min(len(inline_f), len(inline_c))
    clears += paired
    skip = set(map(id, inline_f[:paired] + inline_c[:paired]))
    for e in p.events:
        if id(e) in skip:
            continue
        if e.kind == "store":
            if e.loc == S:
                st = val_name(e.value)
            elif e.loc == OA:
                oa = val_name(e.value)
            elif e.loc == P:
                pr = val_name(e.value)
            else:
                other.append("store " + show(e.loc))
        elif e.kind == "call" and not e.pure:
            if e.is_repo("CircuitBreaker._clear_failures"):
                clears += 1
            elif e.is_repo("CircuitBreaker._note_failure"):
                from .windows import arg_of, param_roles

                nroles = param_roles(next(t.func for t in e.targets if t.func is not None))
                vals = [arg_of(e, nroles.get("klass")), arg_of(e, nroles.get("now"))]
                notes.append(tuple("klass" if a == ("param", "klass") else val_name(a) for a in vals))
            elif e.callback() == "clock":
                pass
            elif is_lock_op(e):
                pass  # `self._lock.acquire()` ... `finally: release()`: the spelled-out `with self._lock` (judged by C17)
            else:
                other.append("call " + e.label)
    if p.exit[0] != "return":
        ret: tuple = ("?" + p.exit[0],)
    else:
        rv = p.exit[1]
        d = ctor_args(rv, "_BreakerDecision", ["allowed", "state", "event"])
        if d is not None:
            ev = d.get("event", ("const", None))
            ret = (val_name(d.get("allowed")), val_name(d.get("state")), val_name(ev))
        else:
            ret = (val_name(rv),)
    return Effect(st, oa, pr, clears, tuple(notes), ret, tuple(other))


def reference(method: str, v: dict) -> Effect:
    """the specified transition table"""
    st = v["ST"]
    no = Effect("-", "-", "-", 0, (), ("None",), ())
    if method == "allow":
        if st == "OPEN":
            if v["timeout_elapsed"]:
                return Effect("HALF_OPEN", "-", "True", 0, (), ("True", "HALF_OPEN", "CIRCUIT_HALF_OPEN"), ())
            return Effect("-", "-", "-", 0, (), ("False", "<state>", "CIRCUIT_REJECTED"), ())
        if st == "HALF_OPEN":
            if v["probe"]:
                return Effect("-", "-", "-", 0, (), ("False", "<state>", "CIRCUIT_REJECTED"), ())
            return Effect("-", "-", "True", 0, (), ("True", "<state>", "None"), ())
        return Effect("-", "-", "-", 0, (), ("True", "<state>", "None"), ())
    if method == "record_success":
        if st == "HALF_OPEN":
            return Effect("CLOSED", "None", "False", 1, (), ("CIRCUIT_CLOSED",), ())
        return no
    if method == "record_failure":
        if st == "HALF_OPEN":
            return Effect("OPEN", "now", "False", 1, (), ("CIRCUIT_OPENED",), ())
        if st == "OPEN":
            return no
        if not v["counted"]:
            return no
        if v["reached"]:
            return Effect("OPEN", "now", "-", 1, (("klass", "now"),), ("CIRCUIT_OPENED",), ())
        return Effect("-", "-", "-", 0, (("klass", "now"),), ("None",), ())
    if method == "record_cancel":
        if st == "HALF_OPEN":
            return Effect("-", "-", "False", 0, (), ("None",), ())
        return no
    raise AssertionError(method)


DIMS = {
    "allow": {"ST": STATES, "probe": [False, True], "timeout_elapsed": [False, True], "opened_none": [False]},
    "record_success": {"ST": STATES},
    "record_failure": {"ST": STATES, "counted": [False, True], "reached": [False, True]},
    "record_cancel": {"ST": STATES},
}


class BreakerTable:
    def __init__(self, prog: Program) -> None:
        self.prog = prog
        self.tables: dict[str, tuple] = {}
        for m, dims in DIMS.items():
            fi = prog.func(f"{CB}.{m}")
            paths = engine(prog).paths(fi)
            rows, unknown = expand(paths, classify, dims, decode)
            self.tables[m] = (fi, paths, rows, unknown)


_T: dict = {}


def breaker_table(prog: Program) -> BreakerTable:
    if "t" not in _T:
        _T["t"] = BreakerTable(prog)
    return _T["t"]


def equivalent(found: Effect, want: Effect, st: str) -> bool:
    """compare modulo `<state>` (unchanged state read back) == the row's state"""
    def norm(e: Effect) -> Effect:
        ret = tuple(st if x == "<state>" else x for x in e.ret)
        return Effect(e.state, e.opened_at, e.probe, e.clears, e.notes, ret, e.other)

    return norm(found) == norm(want)


def check_method(rep, rid: str, prog: Program, method: str, row_filter=None) -> None:
    T = breaker_table(prog)
    fi, paths, rows, unknown = T.tables[method]
    rep.analysed(fi.qual)
    for val, outs in rows:
        if row_filter is not None and not row_filter(val):
            continue
        construct = f"{method}|{fmt_val(val)}"
        want = reference(method, val)
        rep.instance(rid, construct, {"method": method, "inputs": dict(val), "expected": want.__dict__, "found": [o.__dict__ for o in outs]} if len(rep.samples) < 30 else None)
        if len(outs) != 1:
            rep.fail(rid, f"{construct}|outcomes={len(outs)}", f"CircuitBreaker.{method} [{fmt_val(val)}]: {len(outs)} different effects ({[o.__dict__ for o in outs]}); unrecognised conditions: {unknown}", where=fi.where(), function=fi.qual)
            continue
        (o, ps), = outs.items()
        if equivalent(o, want, val["ST"]):
            rep.ok(rid)
        else:
            rep.fail(rid, f"{method}|{val['ST']}|" + "|".join(f"{k}={v}" for k, v in val.items() if k not in ("ST",) and not k.startswith("?")) + f"|found={o.state},{o.opened_at},{o.probe},{o.clears},{o.ret}", f"CircuitBreaker.{method} [{fmt_val(val)}]: expected {want.__dict__}, found {o.__dict__}", where=f"{fi.module.relpath}:{ps[0].items[-1][1].lineno if ps[0].items and ps[0].items[-1][0]=='ev' else fi.node.lineno}", function=fi.qual, path=ps[0].describe())
