"""C01 - attempt caps (global, per-class, UNKNOWN, non-retryable) are never exceeded."""

from __future__ import annotations

import ast
from fractions import Fraction
from typing import Any

from ..absint import Event
from ..ctx import engine
from ..model import AnalysisError, Program
from ..paths import linear, show
from ..report import Report
from ..table import fmt_val
from .common import ERROR_CLASSES, HANDLE_FAILURE, NON_RETRYABLE, RUNNERS, SELF, attr, check_enums, path_where, owned_by
from .failure_table import COUNT0, KLASS, UNK0, failure_table
from .runner_flow import flag1, RUN_MODULES, RunnerClient, run_runners, short_witness

CAP_ATTRS = {"max_attempts", "per_class_max_attempts", "max_unknown_attempts"}
COUNTER_ATTRS = {"per_class_counts", "unknown_attempts"}


def op_calls_in(prog: Program, fi, body: list[ast.stmt], _seen: frozenset = frozenset()) -> list[ast.Call]:
    """calls in `body` that invoke the operation: directly, through _call_with_timeout, or through a helper that is
    handed the operation and invokes it (`_invoke_attempt(func, timeout)`), however deep"""
    out = []
    for st in body:
        for n in ast.walk(st):
            if isinstance(n, ast.Call):
                for t in prog.resolve_call(n, fi):
                    if (t.kind == "callback" and t.category == "operation") or (t.func is not None and t.func.qual.endswith(":_call_with_timeout")):
                        out.append(n)
                    elif t.kind == "repo" and t.func is not None and t.func.qual not in _seen and t.func.qual not in RUNNERS.values():
                        passes_op = any(any(a[0] == "cb" and a[1] == "operation" for a in prog.type_of(x, fi)) for x in list(n.args) + [k.value for k in n.keywords] if not isinstance(x, ast.Starred))
                        if passes_op and op_calls_in(prog, t.func, t.func.node.body, _seen | {t.func.qual}):
                            out.append(n)
    return out


def op_use_ok(prog: Program, fi, n: ast.Name, parents: list[ast.Call], _depth: int = 0) -> bool:
    """this load of the operation is its invocation, its hand-over to _call_with_timeout, or its hand-over to a helper
    in which the like-bound parameter is again used only in these ways"""
    for c in parents:
        if c.func is n:
            return True
        tg = prog.resolve_call(c, fi)
        if any(t.func is not None and t.func.qual.endswith(":_call_with_timeout") for t in tg) and c.args and c.args[0] is n:
            return True
        if _depth < 3 and len(tg) == 1 and tg[0].kind == "repo" and tg[0].func is not None and tg[0].func.qual not in RUNNERS.values():
            g = tg[0].func
            pos = g.positional_params()
            pname = pos[c.args.index(n)] if n in c.args and c.args.index(n) < len(pos) else next((k.arg for k in c.keywords if k.value is n), None)
            if pname is None:
                continue
            loads = [x for x in prog._own_nodes(g.node) if isinstance(x, ast.Name) and x.id == pname and isinstance(x.ctx, ast.Load)]
            if loads and all(op_use_ok(prog, g, x, [cc for cc in prog._own_nodes(g.node) if isinstance(cc, ast.Call) and (cc.func is x or x in cc.args or any(k.value is x for k in cc.keywords))], _depth + 1) for x in loads):
                return True
    return False


def check_loop(rep: Report, prog: Program) -> None:
    rep.rule("R1.1", "each runner has exactly one loop containing the operation invocation; it iterates range(a, b) with b - a == policy.max_attempts; the loop variable is not re-bound; no reachable store to a cap attribute")
    for name, q in RUNNERS.items():
        fi = prog.func(q)
        rep.analysed(q)
        loops = [n for n in prog._own_nodes(fi.node) if isinstance(n, (ast.For, ast.While, ast.AsyncFor))]
        op_loops = [l for l in loops if op_calls_in(prog, fi, l.body)]
        outside = [c for c in op_calls_in(prog, fi, fi.node.body) if not any(c in list(ast.walk(l)) for l in op_loops)]
        rep.instance("R1.1", f"{name}|loops", {"runner": q, "loops_with_operation": len(op_loops), "operation_calls_outside_loops": len(outside)})
        if len(op_loops) != 1 or outside or not isinstance(op_loops[0], ast.For):
            rep.fail("R1.1", f"{name}|loop-structure", f"{q}: expected exactly one for-loop containing the operation invocation, found {len(op_loops)} (+{len(outside)} invocations outside any loop)", where=fi.where(), function=q)
            continue
        rep.ok("R1.1")
        loop = op_loops[0]
        # trip count from the symbolic iterable
        its = [e for p in engine(prog).paths(fi) for e in p.events if e.kind == "iter" and e.node.ast is loop]
        if not its:
            raise AnalysisError(f"{q}: loop head not reached by path enumeration")
        it = its[0].recv
        ok = False
        desc = show(it)
        if it[0] == "pure" and it[1] == "range" and len(it[2]) in (1, 2) and not it[3]:
            a = it[2][0] if len(it[2]) == 2 else ("const", 0)
            b = it[2][-1]
            la, lb = linear(a), linear(b)
            if la is not None and lb is not None:
                c = lb[0] - la[0]
                terms = dict(lb[1])
                for k, v in la[1].items():
                    terms[k] = terms.get(k, 0) - v
                terms = {k: v for k, v in terms.items() if v != 0}
                want = {attr(("param", "policy"), "max_attempts"): Fraction(1)}
                ok = c == 0 and terms == want
        rep.instance("R1.1", f"{name}|trip-count", {"iterable": desc})
        if ok:
            rep.ok("R1.1")
        else:
            rep.fail("R1.1", f"{name}|trip-count", f"{q}: loop iterates over {desc}; its trip count is not exactly policy.max_attempts", where=fi.where(loop), function=q)
        # loop variable not re-bound
        tname = loop.target.id if isinstance(loop.target, ast.Name) else None
        rebound = [n for st in loop.body for n in ast.walk(st) if isinstance(n, ast.Name) and isinstance(n.ctx, ast.Store) and n.id == tname]
        rep.instance("R1.1", f"{name}|loop-var")
        if tname is None or rebound:
            rep.fail("R1.1", f"{name}|loop-var-rebound", f"{q}: loop variable `{tname}` is re-bound in the loop body", where=fi.where(rebound[0] if rebound else loop), function=q)
        else:
            rep.ok("R1.1")
    # ownership of the cap attributes / counters
    written: set[str] = set()
    for m in prog.modules.values():
        for fi in [f for f in prog.funcs.values() if f.module is m]:
            for n in prog._own_nodes(fi.node):
                if isinstance(n, ast.Attribute) and isinstance(n.ctx, (ast.Store, ast.Del)) and n.attr in CAP_ATTRS | COUNTER_ATTRS:
                    owner_ok = (
                        (n.attr in CAP_ATTRS and owned_by(prog, fi, "redress.policy.base:_BaseRetryPolicy.__init__"))
                        or (n.attr in COUNTER_ATTRS and owned_by(prog, fi, ("redress.policy.state:_RetryState.__init__", HANDLE_FAILURE)))
                    )
                    selfbase = isinstance(n.value, ast.Name) and n.value.id == "self"
                    rep.instance("R1.1", f"writer|{fi.qual}|{n.attr}")
                    written.add(n.attr)
                    if owner_ok and selfbase:
                        rep.ok("R1.1")
                    else:
                        rep.fail("R1.1", f"writer|{fi.qual}|{n.attr}", f"{fi.qual} writes `{ast.unparse(n)}`: caps are written only by _BaseRetryPolicy.__init__, counters only by _RetryState", where=fi.where(n), function=fi.qual)
                if isinstance(n, ast.Subscript) and isinstance(n.ctx, (ast.Store, ast.Del)) and isinstance(n.value, ast.Attribute) and n.value.attr in CAP_ATTRS | COUNTER_ATTRS:
                    rep.instance("R1.1", f"item-writer|{fi.qual}|{n.value.attr}")
                    if owned_by(prog, fi, HANDLE_FAILURE) and n.value.attr == "per_class_counts":
                        rep.ok("R1.1")
                    else:
                        rep.fail("R1.1", f"item-writer|{fi.qual}|{n.value.attr}", f"{fi.qual} writes an item of `{n.value.attr}`", where=fi.where(n), function=fi.qual)
                if isinstance(n, ast.Call) and isinstance(n.func, ast.Name) and n.func.id in ("setattr", "delattr") and fi.module.name in RUN_MODULES:
                    rep.fail("R1.1", f"setattr|{fi.qual}", f"{fi.qual} uses {n.func.id}() on the run path", where=fi.where(n), function=fi.qual)
    if not CAP_ATTRS <= written:
        raise AnalysisError(f"R1.1: no store to the cap attribute(s) {sorted(CAP_ATTRS - written)} found anywhere (anchor renamed?)")
    rep.floor("R1.1", 4 * 3 + len(CAP_ATTRS))  # the four runners, and each cap written at least once (how many counter stores exist is the code's business)


class InvocationClient(RunnerClient):
    name = "invocations-per-iteration"
    fault = {"operation": RunnerClient.fault["operation"]}

    def initial(self) -> Any:
        return (0, None, frozenset())

    def on_event(self, ev: Event, cs: Any) -> Any:
        inv, dec, flags = cs
        if ev.kind == "iter":
            if inv == 0 and dec is None:
                return cs
            if inv != 1:
                flags = flag1(flags, f"loop continues with {inv} operation invocations in the iteration")
            if dec != "retry":
                flags = flag1(flags, f"next attempt starts although the failure decision was `{dec}`")
            return (0, None, flags)
        if ev.kind == "call" and self.is_operation(ev):
            if inv >= 1:
                flags = flag1(flags, "operation invoked twice in one iteration")
            return (min(inv + 1, 2), dec, flags)
        if ev.kind == "store":
            v = ev.node.info["value"]
            if isinstance(v, ast.Call):
                tg = ev.interp.prog.resolve_call(v, ev.func)
                if any(t.func is not None and t.func.qual.endswith(("_RetryState.handle_exception", "_RetryState.handle_result")) for t in tg):
                    rec = ev.value(v)
                    act = None
                    if rec is not None and rec[0] == "i":
                        for k, val in rec[2]:
                            if k == "action" and val[0] == "c":
                                act = val[1]
                    if act is None:
                        flags = flag1(flags, "failure decision is not a constant action")
                    if dec is not None:
                        flags = flag1(flags, "two failure decisions in one iteration")
                    return (inv, act or "?", flags)
        return cs

    def on_event_exc(self, ev: Event, cs: Any, kind: str) -> Any:
        if ev.kind == "call" and self.is_operation(ev):
            return self.on_event(ev, cs)
        return cs


def check_iteration(rep: Report, prog: Program) -> None:
    rep.rule("R1.2", "on every path through one loop iteration (exception edges included) the operation is invoked at most once")
    rep.rule("R1.4", "the loop head is re-entered only after exactly one invocation whose failure decision was `retry` (a `raise` decision never reaches `continue`)")
    res = run_runners(prog, lambda: InvocationClient(prog))
    for name, (interp, exits, client) in res.items():
        rep.analysed(*interp.visited_funcs)
        q = RUNNERS[name]
        for ex in exits:
            inv, dec, flags = ex.cstate
            rep.instance("R1.2", f"{name}|{ex.how}:{ex.kind}|inv={inv}|dec={dec}", {"runner": q, "exit": f"{ex.how}:{ex.kind}", "invocations_in_last_iteration": inv, "last_decision": dec} if len(rep.samples) < 25 else None)
            twice = [f for f in flags if "twice" in f or "invocations" in f]
            chain = [f for f in flags if f not in twice]
            if twice:
                for f in twice:
                    rep.fail("R1.2", f"{name}|{f}", f"{q}: {f}", where=prog.func(q).where(), function=q, path=short_witness(interp, ex))
            else:
                rep.ok("R1.2")
            if chain:
                for f in chain:
                    rep.fail("R1.4", f"{name}|{f}", f"{q}: {f}", where=prog.func(q).where(), function=q, path=short_witness(interp, ex))
            else:
                rep.ok("R1.4")
    rep.floor("R1.2", 40)
    # _call_with_timeout submits its argument exactly once
    fi = prog.func("redress.policy.runner.sync_core:_call_with_timeout")
    rep.analysed(fi.qual)
    for p in engine(prog).paths(fi):
        subs = [e for e in p.calls() if (e.lib() or "").endswith(".submit")]
        rep.instance("R1.2", "_call_with_timeout|" + "|".join(p.describe()[-2:]))
        if len(subs) == 1 and subs[0].args and subs[0].args[0] == ("param", "func"):
            rep.ok("R1.2")
        else:
            rep.fail("R1.2", "_call_with_timeout|submit-count", f"_call_with_timeout submits the operation {len(subs)} times on a path", where=fi.where(), function=fi.qual, path=p.describe())
    # the operation value flows nowhere else
    for name, q in RUNNERS.items():
        fi = prog.func(q)
        for n in prog._own_nodes(fi.node):
            if isinstance(n, ast.Name) and n.id == "func" and isinstance(n.ctx, ast.Load):
                parents = [c for c in prog._own_nodes(fi.node) if isinstance(c, ast.Call) and (c.func is n or n in c.args or any(k.value is n for k in c.keywords))]
                okuse = op_use_ok(prog, fi, n, parents)
                rep.instance("R1.2", f"{name}|func-use@{ast.unparse(parents[0])[:40] if parents else '?'}")
                if okuse:
                    rep.ok("R1.2")
                else:
                    rep.fail("R1.2", f"{name}|func-escapes", f"{q}: the operation `func` is used other than being invoked once", where=fi.where(n), function=q)


def check_caps(rep: Report, prog: Program) -> None:
    rep.rule("R1.3", "cap rows of the _handle_failure table: non-retryable class / per-class cap reached / UNKNOWN cap reached => `raise`; counters incremented exactly once per failure, before the test")
    T = failure_table(prog)
    rep.analysed(HANDLE_FAILURE)
    seen = set()
    for val, outs in T.rows:
        caps = []
        if val["K"] in NON_RETRYABLE:
            caps.append("non-retryable")
        if val["limit_set"] and val["percls_reached"]:
            caps.append("per-class")
        if val["K"] == "UNKNOWN" and val["unk_set"] and val["unk_reached"]:
            caps.append("unknown")
        if val.get("global_reached"):
            caps.append("global")
        if not caps:
            continue
        rep.instance("R1.3", fmt_val(val))
        bad = [o for o in outs if o.decision != "raise"]
        if bad or not outs:
            key = "+".join(caps)
            if key not in seen:
                seen.add(key)
                p = outs[bad[0]][0] if bad else None
                rep.fail("R1.3", f"_handle_failure|cap-not-enforced|{key}", f"inputs [{fmt_val(val)}]: cap(s) {caps} reached but a retry is granted", where=path_where(prog, HANDLE_FAILURE, p) if p else T.fi.where(), function=HANDLE_FAILURE, path=p.describe() if p else None)
        else:
            rep.ok("R1.3")
    # counter discipline per path
    one = ("const", 1)
    for p in T.paths:
        cs = [e for e in p.stores() if e.loc == COUNT0]
        us = [e for e in p.stores() if e.loc == UNK0]
        is_unknown = any(a[0] == "cmp" and a[2] == KLASS and a[3] == ("enum", "ErrorClass", "UNKNOWN") and pol for a, pol, _ in p.conds)
        not_unknown = any(a[0] == "cmp" and a[2] == KLASS and a[3] == ("enum", "ErrorClass", "UNKNOWN") and not pol for a, pol, _ in p.conds)
        stopped_early = not (is_unknown or not_unknown)
        rep.instance("R1.3", "counters|" + "|".join(p.describe()[-2:]))
        ok = len(cs) == 1 and cs[0].value == ("op", "+", COUNT0, one)
        if is_unknown:
            ok = ok and len(us) == 1 and us[0].value == ("op", "+", UNK0, one)
        else:
            ok = ok and len(us) == 0
        # the class counter is bumped before any test that reads it
        if ok:
            idx = p.index_of(cs[0])
            for i, it in enumerate(p.items):
                if it[0] == "cond" and i < idx and any(x == attr(SELF, "per_class_counts") for x in _sub(it[1])):
                    ok = False
        if ok:
            rep.ok("R1.3")
        else:
            rep.fail("R1.3", "_handle_failure|counter-discipline", f"per-class / UNKNOWN counter is not incremented exactly once before its cap test on a path (class stores={len(cs)}, unknown stores={len(us)}, unknown-branch={is_unknown})", where=path_where(prog, HANDLE_FAILURE, p), function=HANDLE_FAILURE, path=p.describe())
    # who may call _handle_failure
    callers = set()
    for fi in prog.funcs.values():
        for n in prog._own_nodes(fi.node):
            if isinstance(n, ast.Call):
                if any(t.func is not None and t.func.qual == HANDLE_FAILURE for t in prog.resolve_call(n, fi)):
                    callers.add(fi.qual)
    rep.instance("R1.3", "callers-of-_handle_failure", {"callers": sorted(callers)})
    want = {"redress.policy.state:_RetryState.handle_exception", "redress.policy.state:_RetryState.handle_result"}
    if callers == want:
        rep.ok("R1.3")
    else:
        rep.fail("R1.3", "_handle_failure|callers", f"_handle_failure is called from {sorted(callers)}, expected exactly {sorted(want)}", where=T.fi.where(), function=HANDLE_FAILURE)
    rep.floor("R1.3", 1000)


def _sub(t: Any):
    from ..paths import subterms

    return subterms(t)


def check_fresh_state(rep: Report, prog: Program) -> None:
    rep.rule("R1.5", "_RetryState is constructed exactly once per runner invocation, before the loop, bound to a local; counters exist only as its instance attributes")
    sites = []
    for fi in prog.funcs.values():
        for n in prog._own_nodes(fi.node):
            if isinstance(n, ast.Call) and any(t.kind == "ctor" and t.cls is not None and t.cls.qual == "redress.policy.state:_RetryState" for t in prog.resolve_call(n, fi)):
                sites.append((fi, n))
    by_runner = {q: [n for fi, n in sites if fi.qual == q] for q in RUNNERS.values()}
    # a factory that did not exist when the rules were written, called only by the runners, whose single construction
    # is what it returns (`return _RetryState(...)`): calling it *is* constructing the state - its call sites in the
    # runners are judged like constructor sites
    factories = set()
    for fi, n in list(sites):
        if fi.qual in RUNNERS.values() or not owned_by(prog, fi, tuple(RUNNERS.values())):
            continue
        own_sites = [m for g, m in sites if g is fi]
        rets = [r for r in prog._own_nodes(fi.node) if isinstance(r, ast.Return) and r.value is not None]
        direct = all(r.value is own_sites[0] for r in rets)
        via_local = False
        if not direct and len(own_sites) == 1:
            asg = [a for a in prog._own_nodes(fi.node) if isinstance(a, ast.Assign) and a.value is own_sites[0] and len(a.targets) == 1 and isinstance(a.targets[0], ast.Name)]
            via_local = len(asg) == 1 and all(isinstance(r.value, ast.Name) and r.value.id == asg[0].targets[0].id or (isinstance(r.value, ast.Tuple) and any(isinstance(x, ast.Name) and x.id == asg[0].targets[0].id for x in r.value.elts)) for r in rets)
        if len(own_sites) == 1 and rets and (direct or via_local):
            factories.add(fi.qual)
    if factories:
        for q in RUNNERS.values():
            rf = prog.func(q)
            for c in prog._own_nodes(rf.node):
                if isinstance(c, ast.Call) and any(t.kind == "repo" and t.func is not None and t.func.qual in factories for t in prog.resolve_call(c, rf)):
                    by_runner[q].append(c)
    for fi, n in sites:
        if fi.qual in factories:
            rep.instance("R1.5", f"ctor-site|{fi.qual}|factory")
            rep.ok("R1.5")
            continue
        if fi.qual not in RUNNERS.values():
            rep.instance("R1.5", f"ctor-site|{fi.qual}")
            rep.fail("R1.5", f"ctor-outside-runner|{fi.qual}", f"_RetryState constructed in {fi.qual} (a state that outlives one call would carry counters over)", where=fi.where(n), function=fi.qual)
    for name, q in RUNNERS.items():
        fi = prog.func(q)
        ns = by_runner[q]
        rep.instance("R1.5", f"{name}|ctor-sites={len(ns)}")
        if len(ns) != 1:
            rep.fail("R1.5", f"{name}|ctor-count", f"{q}: _RetryState constructed at {len(ns)} sites", where=fi.where(), function=q)
            continue
        n = ns[0]
        in_loop = any(n in list(ast.walk(l)) for l in prog._own_nodes(fi.node) if isinstance(l, (ast.For, ast.While)))
        assign = [a for a in prog._own_nodes(fi.node) if isinstance(a, ast.Assign) and a.value is n]
        local = bool(assign) and all(isinstance(t, ast.Name) or (isinstance(t, ast.Tuple) and all(isinstance(x, ast.Name) for x in t.elts)) for t in assign[0].targets)
        top_level = bool(assign) and assign[0] in fi.node.body
        if in_loop or not local or not top_level:
            rep.fail("R1.5", f"{name}|ctor-placement", f"{q}: _RetryState must be built once, unconditionally, before the loop and bound to a local (in_loop={in_loop}, local={local}, unconditional={top_level})", where=fi.where(n), function=q)
        else:
            rep.ok("R1.5")
    # no class-level / module-level counter
    for ci in prog.classes.values():
        for f in COUNTER_ATTRS:
            # a bare annotation (`unknown_attempts: int`, e.g. next to __slots__) declares, it does not share; a value
            # does - except the per-instance default of a dataclass field (immutable constant or default_factory)
            val = ci.class_consts.get(f, ci.field_default.get(f))
            is_dc = any(ast.unparse(d).split("(")[0].split(".")[-1] == "dataclass" for d in ci.node.decorator_list)
            per_instance = is_dc and f in ci.field_default and (isinstance(val, ast.Constant) or (isinstance(val, ast.Call) and ast.unparse(val.func).split(".")[-1] == "field" and any(k.arg == "default_factory" or (k.arg == "default" and isinstance(k.value, ast.Constant)) for k in val.keywords)))
            if val is not None and not per_instance:
                rep.instance("R1.5", f"class-level|{ci.qual}.{f}")
                rep.fail("R1.5", f"class-level-counter|{ci.qual}.{f}", f"{ci.qual} declares `{f}` at class level (shared between calls)", where=f"{ci.module.relpath}:{ci.node.lineno}", function=ci.qual)
    init = prog.func("redress.policy.state:_RetryState.__init__")
    inits = {t.attr: ast.unparse(a.value) for a in prog._own_nodes(init.node) if isinstance(a, (ast.Assign, ast.AnnAssign)) for t in ([a.target] if isinstance(a, ast.AnnAssign) else a.targets) if isinstance(t, ast.Attribute) and t.attr in COUNTER_ATTRS}
    # a zero-argument factory of the same module that only returns a fresh empty counter stands for what it returns
    pc = next((a.value for a in prog._own_nodes(init.node) if isinstance(a, (ast.Assign, ast.AnnAssign)) for t in ([a.target] if isinstance(a, ast.AnnAssign) else a.targets) if isinstance(t, ast.Attribute) and t.attr == "per_class_counts"), None)
    if isinstance(pc, ast.Call) and isinstance(pc.func, ast.Name) and not pc.args and not pc.keywords:
        k0, fac = prog.lookup_name(pc.func.id, init, init.module)
        if k0 == "func" and fac is not None and not fac.param_names():
            body0 = [b for b in fac.node.body if not (isinstance(b, ast.Expr) and isinstance(b.value, ast.Constant))]
            if len(body0) == 1 and isinstance(body0[0], ast.Return) and body0[0].value is not None:
                inits["per_class_counts"] = ast.unparse(body0[0].value)
    rep.instance("R1.5", "init-values", {"initialisers": inits})
    if inits.get("unknown_attempts") == "0" and inits.get("per_class_counts", "").replace("collections.", "") in ("defaultdict(int)", "Counter()"):
        rep.ok("R1.5")
    else:
        rep.fail("R1.5", "init-values", f"_RetryState.__init__ does not start the counters at zero: {inits}", where=init.where(), function=init.qual)
    rep.floor("R1.5", 5)


def run(rep: Report, prog: Program, tier: str) -> None:
    check_enums(prog)
    rep.explanation = (
        "Composition of structural lemmas: (R1.1) the only loop that contains the operation invocation runs exactly "
        "policy.max_attempts times (linear normal form of range bounds), caps/counters have a single owner; (R1.2) at "
        "most one invocation per iteration on every path incl. exception edges (typestate); (R1.3) the cap rows of the "
        "expanded _handle_failure truth table are all `raise`, counters are bumped exactly once before their test; "
        "(R1.4) the loop head is re-entered only after a `retry` decision (path-sensitive constant propagation through "
        "_finalize_attempt / determine_action_from_outcome / the isinstance dispatch); (R1.5) a fresh _RetryState per call."
    )
    rep.trusted_base = ["sa/cfg.py, sa/absint.py, sa/paths.py", "range(a, b) iterates b - a times"]
    rep.assumptions = ["classifier, result classifier, strategy and hooks return normally (raising attempt hooks are outside the quantifier)"]
    rep.not_decided = ["nothing numeric remains; exactness rests on the trusted base"]
    check_loop(rep, prog)
    check_iteration(rep, prog)
    check_caps(rep, prog)
    check_fresh_state(rep, prog)
    rep.rule("R1.6", "the class the caps are applied to is the classifier's verdict on this very failure: handle_exception asks the classifier once about this exception and forwards the normalised answer; handle_result forwards the classification of this result; no verdict is cached or carried over between attempts or calls")
    from .common import failure_entry

    failure_entry(rep, "R1.6", prog)
    rep.floor("R1.6", 2)
    rep.rule("R1.7", "caps assigned after construction through the sugar objects (policy.max_attempts = n, policy.per_class_max_attempts = {...}) reach the retry component that enforces them (= C12 R12.5)")
    from .c12 import sugar_setattr

    sugar_setattr(rep, "R1.7", prog)
    rep.floor("R1.7", 8)

    from .common import forwarding_slice

    forwarding_slice(rep, "R1.8", prog, ("max_attempts", "max_unknown_attempts", "per_class_max_attempts"), "the caps the caller configured are the caps that are enforced: max_attempts, max_unknown_attempts and per_class_max_attempts reach the retry component unchanged through every layer - decorator, sugar classes, from_config, policy (= the cap obligations of C12 R12.3)")
