"""C02 - deadline envelope: no attempt starts and no sleep extends past deadline_s."""

from __future__ import annotations

import ast
from typing import Any

from ..absint import Event
from ..ctx import engine
from ..model import AnalysisError, Program
from ..paths import show
from ..report import Report
from ..table import fmt_val
from .c05 import check_sanitised
from .common import HANDLE_FAILURE, RUNNERS, SELF, attr, path_where, runner_paths, owned_by
from .failure_table import failure_table
from .runner_flow import RunnerClient, flag1, run_runners, short_witness

MONO_SCOPE = ("redress.policy", "redress.budget", "redress.circuit", "redress.strategies", "redress.sleep", "redress.config")
WALL = {
    "time.time", "time.time_ns", "time.localtime", "time.gmtime", "time.ctime", "time.strftime", "time.mktime", "time.asctime",
    "datetime.datetime.now", "datetime.datetime.utcnow", "datetime.datetime.today", "datetime.date.today", "datetime.datetime.fromtimestamp",
    "time.clock_gettime", "time.perf_counter_ns", "time.process_time",
}
ALLOW_WALL = {"redress.extras.http:_parse_retry_after": "an HTTP-date is wall-clock by definition; outside the deadline envelope"}
ALLOW_WALL_SCOPE = "redress.extras"  # the package the legitimate use lives in (outside MONO_SCOPE by construction)


def dotted(prog: Program, fi, e: ast.expr) -> str | None:
    """resolved dotted name of an attribute/name expression referring to a library symbol"""
    try:
        t = prog.type_of(e, fi)
    except Exception:
        return None
    for a in t:
        if a[0] == "ext":
            return a[1]
    return None


class GateClient(RunnerClient):
    """a post-sleep / pre-attempt deadline gate lies on every way back to the loop head"""

    name = "deadline-gate"
    fault = {"operation": ("OtherException",)}

    def initial(self) -> Any:
        # (slept since last gate, failed attempt since last gate, flags)
        return (False, False, frozenset())

    def on_event(self, ev: Event, cs: Any) -> Any:
        slept, failed, flags = cs
        if ev.kind == "iter":
            if slept:
                flags = flag1(flags, "the next attempt starts after a backoff sleep without re-checking elapsed() > deadline")
            if failed:
                flags = flag1(flags, "the next attempt starts after a failed attempt without any elapsed() > deadline test")
            return (False, False, flags)
        if ev.kind == "call":
            if self.is_callback(ev, "sleeper") or (ev.target is not None and ev.target.kind == "lib" and (ev.target.name or "") in ("time.sleep", "asyncio.sleep")):
                return (True, failed, flags)
        if ev.kind == "enter" and self.callee_is(ev, "_RetryState._handle_failure"):
            return (slept, True, flags)
        return cs

    def on_branch(self, ev: Event, cs: Any, branch: bool) -> Any:
        slept, failed, flags = cs
        cond = ev.node.info["cond"]
        if is_deadline_test(cond):
            passed_edge = deadline_passed_on(cond, branch)
            if passed_edge is False:
                return (False, False, flags)  # crossed the not-passed edge
        return cs


def is_elapsed_call(e: ast.expr) -> bool:
    return isinstance(e, ast.Call) and isinstance(e.func, ast.Attribute) and e.func.attr == "elapsed"


def is_deadline_attr(e: ast.expr) -> bool:
    return isinstance(e, ast.Attribute) and e.attr == "deadline"


def is_deadline_test(cond: ast.expr) -> bool:
    if isinstance(cond, ast.Compare) and len(cond.ops) == 1 and isinstance(cond.ops[0], (ast.Gt, ast.GtE, ast.Lt, ast.LtE)):
        l, r = cond.left, cond.comparators[0]
        return (is_elapsed_call(l) and is_deadline_attr(r)) or (is_deadline_attr(l) and is_elapsed_call(r))
    return False


def deadline_passed_on(cond: ast.Compare, branch: bool) -> bool | None:
    """True if taking `branch` means elapsed > deadline (passed); False if it means not passed;
    None for the non-strict spellings we do not accept as the gate"""
    op = cond.ops[0]
    l = cond.left
    elapsed_left = is_elapsed_call(l)
    if isinstance(op, ast.Gt):  # a > b
        return branch if elapsed_left else None if False else (branch if elapsed_left else (not branch) if False else None)
    return None


def gate_edge(cond: ast.Compare, branch: bool) -> bool | None:
    op = cond.ops[0]
    elapsed_left = is_elapsed_call(cond.left)
    # normalise to: elapsed > deadline  (strict)
    if isinstance(op, ast.Gt) and elapsed_left:
        return branch
    if isinstance(op, ast.Lt) and not elapsed_left:
        return branch
    if isinstance(op, ast.LtE) and elapsed_left:  # elapsed <= deadline
        return not branch
    if isinstance(op, ast.GtE) and not elapsed_left:  # deadline >= elapsed
        return not branch
    return None


def deadline_passed_on(cond: ast.Compare, branch: bool) -> bool | None:  # noqa: F811
    return gate_edge(cond, branch)


def run(rep: Report, prog: Program, tier: str) -> None:
    rep.explanation = (
        "Structural clauses of the deadline envelope. R2.1 who-may-reference: no wall-clock API anywhere in the policy, "
        "budget, circuit or strategies modules (calls, aliases and default arguments alike); elapsed time comes from "
        "time.monotonic only. R2.2 rows of the expanded _handle_failure truth table: elapsed() > deadline or remaining <= "
        "0 always stop with DEADLINE_EXCEEDED (operators pinned by normal form: a failure observed at the deadline is not "
        "retried once no time remains). R2.3 the delay returned for a retry is bounded by [0, remaining] (min/max bound "
        "domain) where remaining is (deadline - elapsed()).total_seconds() and is > 0 on that path. R2.4 the decision "
        "object travels unchanged from handle_* to the sleeper (which receives decision.sleep_s, C16). R2.5 typestate: "
        "every way back to the loop head after a sleep / failed attempt crosses the not-passed edge of an elapsed() > "
        "deadline test. R2.6 one clock origin and one unit."
    )
    rep.trusted_base = ["sa/paths.py, sa/absint.py", "timedelta(seconds=x) / total_seconds() are inverse up to microsecond rounding"]
    rep.assumptions = ["real arithmetic on clock readings"]
    rep.not_decided = ["microsecond rounding of timedelta(seconds=float)", "float comparison at exact equality", "the corollary `total requested sleep <= deadline_s` (needs the sleeper to advance the clock by what it was asked - a runtime fact)"]

    # ---- R2.1
    rep.rule("R2.1", "monotonic clock only: no reference to a wall-clock API in redress.policy.*, budget, circuit, strategies (zero-count rule; positive example: extras/http.py)")
    hits_pos = 0
    for m in prog.modules.values():
        in_scope = m.name.startswith(MONO_SCOPE) or m.name in MONO_SCOPE
        for fi in [f for f in prog.funcs.values() if f.module is m]:
            for n in ast.walk(fi.node):
                if isinstance(n, ast.Attribute):
                    d = dotted(prog, fi, n)
                    if d in WALL:
                        if not in_scope and fi.module.name.startswith(ALLOW_WALL_SCOPE):
                            hits_pos += 1  # positive example: the recogniser sees the one legitimate wall-clock use, wherever under redress.extras it lives
                            continue
                        if in_scope:
                            rep.instance("R2.1", f"wall|{fi.qual}|{d}")
                            rep.fail("R2.1", f"wall-clock|{fi.qual}|{d}", f"{fi.qual} references the wall-clock API {d}: wall-clock jumps would influence retry timing", where=fi.where(n), function=fi.qual)
        if in_scope:
            rep.instance("R2.1", f"module|{m.name}")
            # from time import time / datetime imports of wall-clock names
            bad = [a for (loc, (mod, a)) in m.imports.items() if f"{mod}.{a}" in WALL]
            if bad:
                rep.fail("R2.1", f"wall-clock-import|{m.name}|{bad[0]}", f"{m.name} imports wall-clock symbol(s) {bad}", where=f"{m.relpath}:1", function=m.name)
            else:
                rep.ok("R2.1")
    if hits_pos < 1:
        raise AnalysisError("R2.1 positive example (datetime.now in the Retry-After parser under redress.extras) no longer matches: recogniser out of date")
    mono = 0
    for fi in prog.funcs.values():
        if fi.module.name.startswith(MONO_SCOPE):
            for n in ast.walk(fi.node):
                if isinstance(n, ast.Attribute) and dotted(prog, fi, n) == "time.monotonic":
                    mono += 1
    rep.extra["monotonic_reference_sites"] = mono
    if mono < 7:
        raise AnalysisError(f"R2.1: only {mono} time.monotonic reference sites (7 confirmed by reading)")
    rep.floor("R2.1", 15)

    # ---- R2.2
    rep.rule("R2.2", "deadline rows of the _handle_failure table: elapsed() > deadline => raise DEADLINE_EXCEEDED; remaining_s <= 0 => raise DEADLINE_EXCEEDED; both tests precede the strategy call")
    T = failure_table(prog)
    rep.analysed(HANDLE_FAILURE)
    seen = set()
    have = {"deadline_passed": False, "no_time": False}
    for val, outs in T.rows:
        if not (val["deadline_passed"] or val["no_time"]):
            continue
        rep.instance("R2.2", fmt_val(val))
        bad = [o for o in outs if o.decision != "raise" or o.n_strategy]
        for k in have:
            have[k] = have[k] or val[k]
        if bad or not outs:
            key = f"dl={val['deadline_passed']}|nt={val['no_time']}"
            if key not in seen:
                seen.add(key)
                p = outs[bad[0]][0] if bad else None
                rep.fail("R2.2", f"_handle_failure|deadline-row|{key}", f"inputs [{fmt_val(val)}]: the deadline has passed / no time remains, yet decision={[o.decision for o in outs]} strategy calls={[o.n_strategy for o in outs]}", where=path_where(prog, HANDLE_FAILURE, p) if p else T.fi.where(), function=HANDLE_FAILURE)
        else:
            rep.ok("R2.2")
    from .failure_table import classify

    atoms = {classify(a, pol, p)[1] for p in T.paths for a, pol, _ in p.conds if classify(a, pol, p)[0] == "atom"}
    for need in ("deadline_passed", "no_time"):
        rep.instance("R2.2", f"test-present|{need}")
        if need in atoms:
            rep.ok("R2.2")
        else:
            rep.fail("R2.2", f"_handle_failure|missing-test|{need}", f"_handle_failure no longer tests `{ 'elapsed() > deadline' if need == 'deadline_passed' else 'remaining_s <= 0'}` in the pinned normal form", where=T.fi.where(), function=HANDLE_FAILURE)
    rep.floor("R2.2", 1000)

    # ---- R2.3
    rep.rule("R2.3", "clamp: the delay of every granted retry lies in [0, remaining_s], remaining_s = (deadline - elapsed()).total_seconds() > 0 on that path")
    check_sanitised(rep, "R2.3", prog, need_cap=True)
    rep.floor("R2.3", 4)

    # ---- R2.4
    rep.rule("R2.4", "the decision returned by handle_exception/handle_result reaches _X_failure_outcome (and from there the sleep action) unchanged")
    for name, q in RUNNERS.items():
        fi = prog.func(q)
        rep.analysed(q)
        n = 0
        for p in runner_paths(prog, name):
            for e in p.calls():
                if e.is_repo(":_sync_failure_outcome") or e.is_repo(":_async_failure_outcome"):
                    d = e.kwargs.get("decision")
                    n += 1
                    rep.instance("R2.4", f"{name}|failure_outcome@{e.lineno}")
                    if d is not None and d[0] == "call" and str(d[2]).endswith(("_RetryState.handle_exception", "_RetryState.handle_result")):
                        rep.ok("R2.4")
                    else:
                        rep.fail("R2.4", f"{name}|decision-arg", f"{q}: _X_failure_outcome receives decision={show(d)}, not the value returned by handle_exception/handle_result", where=f"{fi.module.relpath}:{e.lineno}", function=q)
        if n < 4:
            raise AnalysisError(f"{q}: failure-outcome call sites not found on both branches")

    rep.rule("R2.4b", "the sleeper receives decision.sleep_s unmodified (= C16 R16.3)")
    from .c16 import sleep_action_tables

    sleep_action_tables(rep, "R2.4b", prog)

    # ---- R2.5
    rep.rule("R2.5", "post-sleep gate: every way back to the loop head after a sleep or a failed attempt crosses the not-passed edge of an `elapsed() > deadline` test")
    res = run_runners(prog, lambda: GateClient(prog))
    for name, (interp, exits, client) in res.items():
        q = RUNNERS[name]
        rep.analysed(*interp.visited_funcs)
        for ex in exits:
            slept, failed, flags = ex.cstate
            rep.instance("R2.5", f"{name}|{ex.how}:{ex.kind}|{slept}|{failed}")
            if flags:
                for f in sorted(flags):
                    rep.fail("R2.5", f"{name}|{f[:60]}", f"{q}: {f}", where=prog.func(q).where(), function=q, path=short_witness(interp, ex))
            else:
                rep.ok("R2.5")
    rep.floor("R2.5", 16)

    # ---- R2.6
    rep.rule("R2.6", "one clock origin, one unit: start_mono = time.monotonic() written once in _RetryState.__init__; elapsed() = timedelta(seconds=time.monotonic() - start_mono); deadline = timedelta(seconds=deadline_s) written once")
    init = prog.func("redress.policy.state:_RetryState.__init__")
    el = prog.func("redress.policy.state:_RetryState.elapsed")
    binit = prog.func("redress.policy.base:_BaseRetryPolicy.__init__")
    rep.analysed(init.qual, el.qual, binit.qual)
    ok = False
    for p in engine(prog).paths(init):
        for e in p.stores():
            if e.loc == attr(SELF, "start_mono") and e.value[0] == "call" and str(e.value[2]) == "lib:time.monotonic":
                ok = True
    rep.instance("R2.6", "start_mono")
    if ok:
        rep.ok("R2.6")
    else:
        rep.fail("R2.6", "start_mono|origin", "_RetryState.__init__ does not set start_mono = time.monotonic()", where=init.where(), function=init.qual)
    for p in engine(prog).paths(el):
        v = p.exit[1] if p.exit[0] == "return" else None
        rep.instance("R2.6", "elapsed", {"value": show(v)})
        good = v is not None and v[0] == "pure" and v[1] == "datetime.timedelta" and not v[2] and len(v[3]) == 1 and v[3][0][0] == "seconds"
        if good:
            d = v[3][0][1]
            good = d[0] == "op" and d[1] == "-" and d[2][0] == "call" and str(d[2][2]) == "lib:time.monotonic" and d[3] == attr(SELF, "start_mono")
        if good:
            rep.ok("R2.6")
        else:
            rep.fail("R2.6", "elapsed|shape", f"_RetryState.elapsed returns {show(v)}; expected timedelta(seconds=time.monotonic() - self.start_mono)", where=el.where(), function=el.qual)
    dl_ok = False
    for p in engine(prog).paths(binit):
        for e in p.stores():
            if e.loc == attr(SELF, "deadline"):
                v = e.value
                dl_ok = v[0] == "pure" and v[1] == "datetime.timedelta" and v[3] == (("seconds", ("param", "deadline_s")),)
    rep.instance("R2.6", "deadline")
    if dl_ok:
        rep.ok("R2.6")
    else:
        rep.fail("R2.6", "deadline|unit", "_BaseRetryPolicy.__init__ does not set deadline = timedelta(seconds=deadline_s)", where=binit.where(), function=binit.qual)
    for fn in prog.funcs.values():
        for n in prog._own_nodes(fn.node):
            if isinstance(n, ast.Attribute) and n.attr in ("start_mono", "deadline") and isinstance(n.ctx, ast.Store):
                rep.instance("R2.6", f"writer|{fn.qual}|{n.attr}")
                if owned_by(prog, fn, (init.qual, binit.qual)):
                    rep.ok("R2.6")
                else:
                    rep.fail("R2.6", f"writer|{fn.qual}|{n.attr}", f"{fn.qual} re-binds `{n.attr}` (the clock origin / deadline must not move during a run)", where=fn.where(n), function=fn.qual)
    rep.floor("R2.6", 5)
    _foundations(rep, prog)


def _foundations(rep: Report, prog: Program) -> None:
    rep.rule("R2.7", "the clamped delay survives the hand-over: _RetryDecision and BackoffContext are transparent records (no __post_init__ / custom __init__ / shadowing property that could round, re-scale or replace sleep_s or remaining_s)")
    from .foundations import records_transparent

    records_transparent(rep, "R2.7", prog, ["redress.policy.state:_RetryDecision", "redress.strategies:BackoffContext"])
    rep.floor("R2.7", 2)

    rep.rule("R2.8", "time is read when it is needed: no memoised function or cached property in the policy layer reaches a clock or freezes an attribute that changes during the run (a remaining-time figure cached at the first failure would bound every later sleep)")
    from .foundations import memo_is_pure

    memo_is_pure(rep, "R2.8", prog, ("redress.policy", "redress.budget", "redress.circuit", "redress.sleep"))
    rep.floor("R2.8", 1)

    rep.rule("R2.10", "assigning policy.deadline on the sugar classes changes the deadline that is enforced: RetryPolicy / AsyncRetryPolicy.__setattr__ forward every attribute the retry component has (= C12 R12.5)")
    from .c12 import sugar_setattr

    sugar_setattr(rep, "R2.10", prog)
    rep.floor("R2.10", 8)
    from .common import forwarding_slice

    forwarding_slice(rep, "R2.9", prog, ("deadline_s", "deadline"), "the deadline the caller configured is the deadline that is enforced: deadline_s reaches the retry component unchanged through every layer - decorator, sugar classes, from_config (= the deadline obligations of C12 R12.3)")
