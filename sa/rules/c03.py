"""C03 - retry exactly when permitted: no premature give-up, no wasted backoff."""

from __future__ import annotations

import ast
from typing import Any

from ..absint import Event
from ..ctx import engine
from ..model import AnalysisError, Program
from ..paths import SymPath, norm_less, show
from ..report import Report
from ..table import expand, fmt_val
from .common import FINALIZE, HANDLE_FAILURE, REASON_EVENT, RUNNERS, attr, check_enums, ctor_args, emit_info, enum_name, is_emit, path_where
from .failure_table import Outcome, failure_table, true_reasons
from .runner_flow import flag1, RunnerClient, run_runners, short_witness

TIME_INDEPENDENT = {"MAX_ATTEMPTS_PER_CLASS", "NON_RETRYABLE_CLASS", "MAX_UNKNOWN_ATTEMPTS", "MAX_ATTEMPTS_GLOBAL", "NO_STRATEGY"}


# ---------------------------------------------------------------------------
# R3.1 / R3.4 / R3.5 on the _handle_failure table
# ---------------------------------------------------------------------------

def check_failure_table(rep: Report, prog: Program) -> None:
    rep.rule("R3.1", "_handle_failure == the specified decision list: raise iff a stop condition holds, reported reason holds, event paired with reason (expanded truth table, both directions)")
    rep.rule("R3.4", "every time-independent stop test (per-class, non-retryable, UNKNOWN cap, global cap, no strategy) dominates strategy call, budget.consume, `retry` emit")
    rep.rule("R3.5", "budget.consume() at most once per failure; refused -> BUDGET_EXHAUSTED only; granted -> retry only")
    T = failure_table(prog)
    rep.analysed(HANDLE_FAILURE)
    where0 = T.fi.where()
    if not T.has_global:
        rep.fail(
            "R3.4",
            "_handle_failure|global-cap-missing",
            "the global attempt cap (attempt >= max_attempts) is not among the stop tests of _handle_failure: on the last "
            "permitted attempt the strategy is called, a budget token is spent, `retry` is emitted and the runner sleeps "
            "before _finalize_attempt stops the run",
            where=where0,
            function=HANDLE_FAILURE,
        )
    else:
        rep.ok("R3.4")
    for u in T.unknown:
        rep.notes.append(f"unrecognised condition in _handle_failure: {u}")
    seen_bad: set[str] = set()
    for val, outs in T.rows:
        exp = true_reasons(val)
        construct = fmt_val(val)
        rep.instance("R3.1", construct, {"inputs": {k: v for k, v in val.items()}, "expected_stop_reasons": sorted(exp), "found": [o.decision + ":" + ",".join(o.reasons) for o in outs]} if len(rep.samples) < 6 else None)
        if len(outs) != 1:
            key = "nondeterministic|" + "|".join(sorted(o.decision + ":" + ",".join(o.reasons) for o in outs))
            if key not in seen_bad:
                seen_bad.add(key)
                p = next(iter(outs.values()))[0] if outs else None
                rep.fail(
                    "R3.1",
                    f"_handle_failure|{key}",
                    f"for inputs [{construct}] the extracted table has {len(outs)} outcomes "
                    f"({[o.decision + ':' + ','.join(o.reasons) for o in outs]}): the decision depends on a condition outside the specification "
                    f"{T.unknown}" if outs else f"no path covers inputs [{construct}]",
                    where=path_where(prog, HANDLE_FAILURE, p) if p else where0,
                    function=HANDLE_FAILURE,
                    inputs=val,
                )
            continue
        (o, ps), = outs.items()
        p = ps[0]
        problem = None
        if bool(exp) != (o.decision == "raise"):
            if exp:
                problem = f"stop condition(s) {sorted(exp)} hold but the decision is `{o.decision}` (retry granted although not permitted)"
            else:
                problem = f"no stop condition holds but the decision is `{o.decision}` with reason {o.reasons} (premature give-up)"
        elif exp:
            if len(o.reasons) != 1 or o.reasons[0] not in exp:
                problem = f"reported stop reason {o.reasons} is not one of the conditions that hold {sorted(exp)}"
            else:
                r = o.reasons[0]
                if o.emits != ((REASON_EVENT[r], r),):
                    problem = f"stop reason {r} must emit exactly ({REASON_EVENT[r]}, stop_reason={r}); found {o.emits}"
        else:
            if o.reasons:
                problem = f"retry granted but last_stop_reason written {o.reasons}"
            elif o.emits != (("RETRY", None),):
                problem = f"granted retry must emit exactly one `retry` without stop_reason; found {o.emits}"
        if problem is None:
            rep.ok("R3.1")
        else:
            key = f"{o.decision}:{','.join(o.reasons)}|{'+'.join(sorted(exp)) or 'none'}|{problem.split(' ')[0]}"
            if key in seen_bad:
                rep.ok("R3.1", 0)
                continue
            seen_bad.add(key)
            rep.fail("R3.1", f"_handle_failure|{key}", f"inputs [{construct}]: {problem}", where=path_where(prog, HANDLE_FAILURE, p), function=HANDLE_FAILURE, inputs=val, path=p.describe())
        # R3.4: nothing is spent when a time-independent stop holds
        ti = exp & TIME_INDEPENDENT
        if ti:
            spent = o.n_strategy or o.n_consume or any(e[0] == "RETRY" for e in o.emits)
            k2 = f"spent|{'+'.join(sorted(ti))}"
            if spent and k2 not in seen_bad:
                seen_bad.add(k2)
                rep.fail(
                    "R3.4",
                    f"_handle_failure|{k2}",
                    f"inputs [{construct}]: stop condition {sorted(ti)} holds, yet strategy calls={o.n_strategy}, consume calls={o.n_consume}, emits={o.emits}",
                    where=path_where(prog, HANDLE_FAILURE, p),
                    function=HANDLE_FAILURE,
                    path=p.describe(),
                )
            elif not spent:
                rep.ok("R3.4")
    rep.floor("R3.1", 2000)
    # R3.5 per path
    for p in T.paths:
        from .failure_table import decode

        o = decode(p)
        rep.instance("R3.5", "path:" + "|".join(x for x in p.describe()[-3:]))
        if o.n_consume > 1:
            rep.fail("R3.5", "_handle_failure|consume-twice", "budget.consume() evaluated more than once on a path", where=path_where(prog, HANDLE_FAILURE, p), function=HANDLE_FAILURE, path=p.describe())
        elif o.n_strategy > 1:
            rep.fail("R3.5", "_handle_failure|strategy-twice", "strategy evaluated more than once on a path", where=path_where(prog, HANDLE_FAILURE, p), function=HANDLE_FAILURE, path=p.describe())
        else:
            rep.ok("R3.5")
    # ... and the token is spent exactly for a granted retry (= C10 R10.3 gate rows): never before a stop that is
    # decided afterwards (deadline, cap), never without the retry following
    from .c10 import gate_rows

    gate_rows(rep, "R3.5", prog)
    rep.floor("R3.5", 8)


# ---------------------------------------------------------------------------
# R3.2 _finalize_attempt
# ---------------------------------------------------------------------------

def check_finalize(rep: Report, prog: Program, rid: str = "R3.2") -> None:
    if rid == "R3.2":
        rep.rule("R3.2", "_finalize_attempt table: raise-decision -> RAISE; DEFER -> SCHEDULED; ABORT -> ABORTED; else deadline / global cap -> RAISE with that reason; else RETRY")
    fi = prog.func(FINALIZE)
    rep.analysed(FINALIZE)
    paths = engine(prog).paths(fi)
    state = ("param", "state")
    policy = attr(state, "policy")
    DEC_ACTION = attr(("param", "decision"), "action")
    SA = ("param", "sleep_action")

    def classify(atom: Any, pol: bool, p: SymPath) -> tuple:
        if atom[0] == "cmp" and atom[1] == "==" and atom[2] == DEC_ACTION and atom[3][0] == "const":
            return ("fn", lambda v, c=atom[3][1], pol=pol: (v["action"] == c) == pol)
        if atom[0] == "cmp" and atom[1] in ("is", "==") and atom[2] == SA:
            m = enum_name(atom[3], "SleepDecision")
            if m is not None:
                return ("fn", lambda v, m=m, pol=pol: (v["sleep_action"] == m) == pol)
            if atom[3] == ("const", None):
                return ("fn", lambda v, pol=pol: (v["sleep_action"] is None) == pol)
        if atom[0] == "cmp" and atom[1] == "<":
            nf = norm_less(atom, pol, integer=False)
            if nf is not None:
                rel, terms, c = nf
                td = dict(terms)
                el = [k for k in td if isinstance(k, tuple) and k[0] == "call" and str(k[2]).endswith("_RetryState.elapsed")]
                dl = attr(policy, "deadline")
                if len(el) == 1 and set(td) == {el[0], dl} and c == 0:
                    if td[el[0]] == 1 and rel == ">0":
                        return ("atom", "deadline_passed", True)
                    if td[el[0]] == -1 and rel == ">=0":
                        return ("atom", "deadline_passed", False)
            ni = norm_less(atom, pol, integer=True)
            if ni is not None:
                rel, terms, c = ni
                td = dict(terms)
                A, M = ("param", "attempt"), attr(policy, "max_attempts")
                if set(td) == {A, M}:
                    if td[A] == 1 and c == 0:
                        return ("atom", "global_reached", True)
                    if td[A] == -1 and c == -1:
                        return ("atom", "global_reached", False)
        if atom[0] == "cmp" and atom[1] == "==" and {atom[2], atom[3]} == {("param", "attempt"), attr(policy, "max_attempts")}:
            return ("atom", "global_reached", pol)
        return ("unknown", show(atom), pol)

    fields = ["decision", "classification", "exception", "result", "cause", "stop_reason", "sleep_s"]

    def outcome(p: SymPath) -> tuple:
        if p.exit[0] != "return":
            return ("?" + p.exit[0],)
        d = ctor_args(p.exit[1], "_AttemptOutcome", fields)
        if d is None:
            return ("?",)
        stores = tuple(enum_name(e.value, "StopReason") or show(e.value) for e in p.stores() if e.loc == attr(state, "last_stop_reason"))
        emits = tuple((emit_info(e)["event_name"], emit_info(e)["reason_name"]) for e in p.events if is_emit(e))
        sr = d.get("stop_reason")
        srn = enum_name(sr, "StopReason") or ("state.last_stop_reason" if sr == attr(state, "last_stop_reason") else ("None" if sr == ("const", None) else show(sr)))
        sl = d.get("sleep_s")
        sln = "decision.sleep_s" if sl == attr(("param", "decision"), "sleep_s") else ("None" if sl == ("const", None) else show(sl))
        passthrough = all(d.get(f) == ("param", f) for f in ("classification", "exception", "result", "cause"))
        return (enum_name(d.get("decision"), "AttemptDecision"), srn, sln, stores, emits, passthrough)

    dims = {
        "action": ["raise", "retry"],
        "sleep_action": [None, "SLEEP", "DEFER", "ABORT"],
        "deadline_passed": [False, True],
        "global_reached": [False, True],
    }
    rows, unknown = expand(paths, classify, dims, outcome)
    for val, outs in rows:
        construct = fmt_val(val)
        rep.instance(rid, construct, {"inputs": dict(val), "found": [list(map(str, o)) for o in outs]} if len(rep.samples) < 12 else None)
        if len(outs) != 1:
            rep.fail(rid, f"_finalize_attempt|nondeterministic|{sorted(map(str, outs))}", f"inputs [{construct}]: {len(outs)} outcomes {list(outs)}; unrecognised conditions {unknown}", where=fi.where(), function=FINALIZE)
            continue
        (o, ps), = outs.items()
        if val["action"] == "raise":
            exp = [("RAISE", "state.last_stop_reason", "None", (), (), True)]
        elif val["sleep_action"] == "DEFER":
            exp = [("SCHEDULED", "SCHEDULED", "decision.sleep_s", (), (), True)]
        elif val["sleep_action"] == "ABORT":
            exp = [("ABORTED", "ABORTED", "None", (), (), True)]
        else:
            exp = []
            if val["deadline_passed"]:
                exp.append(("RAISE", "DEADLINE_EXCEEDED", "None", ("DEADLINE_EXCEEDED",), (("DEADLINE_EXCEEDED", "DEADLINE_EXCEEDED"),), True))
            if val["global_reached"]:
                exp.append(("RAISE", "MAX_ATTEMPTS_GLOBAL", "None", ("MAX_ATTEMPTS_GLOBAL",), (("MAX_ATTEMPTS_EXCEEDED", "MAX_ATTEMPTS_GLOBAL"),), True))
            if not exp:
                exp = [("RETRY", "None", "decision.sleep_s", (), (), True)]
        if o in exp:
            rep.ok(rid)
        else:
            rep.fail(
                rid,
                f"_finalize_attempt|{val['action']}|{val['sleep_action']}|dl={val['deadline_passed']}|g={val['global_reached']}|found={o[0]}:{o[1]}",
                f"inputs [{construct}]: expected one of {exp}, found {o}",
                where=path_where(prog, FINALIZE, ps[0]),
                function=FINALIZE,
                path=ps[0].describe(),
            )
    rep.floor(rid, 32)


# ---------------------------------------------------------------------------
# R3.3 success ends the run (typestate over the runners)
# ---------------------------------------------------------------------------

class SuccessClient(RunnerClient):
    name = "success-ends-run"
    fault = {"operation": ("OtherException", "AbortRetryError")}

    def __init__(self, prog: Program, needs_retry_names: dict[str, set[str]]) -> None:
        super().__init__(prog)
        self.nr = needs_retry_names
        self.succ_edges: set[str] = set()

    def initial(self) -> Any:
        return ("run", frozenset())

    def on_branch(self, ev: Event, cs: Any, branch: bool) -> Any:
        st, flags = cs
        cond = ev.node.info["cond"]
        names = self.nr.get(ev.func.qual, set())
        if isinstance(cond, ast.Name) and cond.id in names and not branch:
            self.succ_edges.add(ev.where())
            return ("succ", flags)
        return cs

    def on_event(self, ev: Event, cs: Any) -> Any:
        st, flags = cs
        if st != "succ" or ev.kind not in ("call", "enter"):
            if ev.kind == "iter" and st == "succ":
                return (st, flag1(flags, "loop-continues-after-success"))
            return cs
        what = None
        if self.is_operation(ev):
            what = "operation invoked"
        elif self.is_callback(ev, "sleeper") or self.is_callback(ev, "sleep_handler"):
            what = "sleep requested"
        elif self.is_callback(ev, "strategy"):
            what = "strategy called"
        elif self.callee_is(ev, "Budget.consume"):
            what = "budget token spent"
        elif self.callee_is(ev, "_RetryState._handle_failure"):
            what = "failure handling entered"
        if what:
            return (st, flag1(flags, f"{what} after a successful attempt"))
        return cs

    on_event_exc = lambda self, ev, cs, kind: self.on_event(ev, cs)  # noqa: E731


def needs_retry_names(prog: Program) -> dict[str, set[str]]:
    out: dict[str, set[str]] = {}
    for q in RUNNERS.values():
        fi = prog.func(q)
        names: set[str] = set()
        for n in prog._own_nodes(fi.node):
            if isinstance(n, ast.Assign) and isinstance(n.value, ast.Call) and isinstance(n.targets[0], ast.Tuple):
                tg = prog.resolve_call(n.value, fi)
                if any(t.func is not None and t.func.qual.endswith(":should_classify_result") for t in tg):
                    e0 = n.targets[0].elts[0]
                    if isinstance(e0, ast.Name):
                        names.add(e0.id)
        if not names:
            raise AnalysisError(f"{q}: no `needs_retry, classification = should_classify_result(...)` found")
        out[q] = names
    return out


def result_verdict(rep: Report, rid: str, prog: Program) -> None:
    """should_classify_result: the only place where a returned value becomes `success` or `failure`"""
    fi = prog.func("redress.policy.runner.logic:should_classify_result")
    rep.analysed(fi.qual)
    pos = fi.positional_params()
    POL, RES = ("param", pos[0]), ("param", pos[1])
    RC = attr(POL, "result_classifier")
    rows = set()
    for p in engine(prog).paths(fi):
        cls_calls = [e for e in p.calls() if e.callback() == "result_classifier"]
        other = [e for e in p.calls() if e not in cls_calls and not e.is_repo(":_normalize_classification")]
        none_cfg = any(a == ("cmp", "is", RC, ("const", None)) and pol for a, pol, _ in p.conds)
        problem = None
        construct = "|".join(p.describe()[-3:])[:120]
        rep.instance(rid, "should_classify_result|" + construct)
        if other:
            problem = f"unexpected effects {[e.label for e in other]}"
        elif p.exit[0] != "return" or p.exit[1][0] != "tuple" or len(p.exit[1][1]) != 2:
            problem = f"does not return a (verdict, classification) pair: {p.exit}"
        else:
            verdict, klass = p.exit[1][1]
            extra = [show(a) for a, pol, _ in p.conds if a != ("cmp", "is", RC, ("const", None)) and not (cls_calls and a == ("cmp", "is", cls_calls[0].result, ("const", None)))]
            if extra:
                problem = f"the verdict depends on {extra}: only `no result classifier` and `the classifier answered None` may make a result a success"
            elif none_cfg:
                rows.add("no-classifier")
                if cls_calls or (verdict, klass) != (("const", False), ("const", None)):
                    problem = "without a result classifier every result is a success: expected (False, None) and no call"
            elif len(cls_calls) != 1 or cls_calls[0].args != [RES]:
                problem = f"the result classifier must be asked exactly once about the result itself; found {[[show(a) for a in e.args] for e in cls_calls]}"
            else:
                ans = cls_calls[0].result
                is_none = [pol for a, pol, _ in p.conds if a == ("cmp", "is", ans, ("const", None))]
                if is_none == [True]:
                    rows.add("answer-none")
                    if (verdict, klass) != (("const", False), ("const", None)):
                        problem = "classifier answered None (success) but the verdict is not (False, None)"
                elif is_none == [False]:
                    rows.add("answer-class")
                    nc = [e for e in p.calls() if e.is_repo(":_normalize_classification")]
                    if verdict != ("const", True) or len(nc) != 1 or nc[0].args != [ans] or klass != nc[0].result:
                        problem = f"classifier answered a class but the verdict is ({show(verdict)}, {show(klass)}); expected (True, _normalize_classification(answer))"
                else:
                    problem = "the classifier's answer is not tested against None"
        if problem:
            rep.fail(rid, f"should_classify_result|{problem[:50]}", f"should_classify_result: {problem}", where=path_where(prog, fi.qual, p), function=fi.qual, path=p.describe())
        else:
            rep.ok(rid)
    rep.instance(rid, "should_classify_result|rows")
    if rows == {"no-classifier", "answer-none", "answer-class"}:
        rep.ok(rid)
    else:
        rep.fail(rid, "should_classify_result|rows", f"should_classify_result: rows found {sorted(rows)}; expected no-classifier, answer-none, answer-class", where=fi.where(), function=fi.qual)


def check_success(rep: Report, prog: Program) -> None:
    rep.rule("R3.3", "from the success edge (result not classified as failure) every path leaves the runner without another operation invocation, sleep, strategy call, budget token or failure handling")
    nr = needs_retry_names(prog)
    res = run_runners(prog, lambda: SuccessClient(prog, nr))
    for name, (interp, exits, client) in res.items():
        rep.analysed(*interp.visited_funcs)
        n_succ = 0
        for ex in exits:
            st, flags = ex.cstate
            if st == "succ":
                n_succ += 1
            rep.instance("R3.3", f"{name}|{ex.how}:{ex.kind}|{st}")
            if flags:
                for f in sorted(flags):
                    rep.fail("R3.3", f"{name}|{f}", f"{RUNNERS[name]}: {f}", where=prog.func(RUNNERS[name]).where(), function=RUNNERS[name], path=short_witness(interp, ex))
            elif st == "succ" and ex.how != "return":
                # hooks are outside this fault model, so a success can only return
                rep.fail("R3.3", f"{name}|success-exit-{ex.how}:{ex.kind}", f"{RUNNERS[name]}: a successful attempt leaves by {ex.how} {ex.kind}", where=prog.func(RUNNERS[name]).where(), function=RUNNERS[name], path=short_witness(interp, ex))
            else:
                rep.ok("R3.3")
        if n_succ == 0 or not client.succ_edges:
            raise AnalysisError(f"R3.3: no success edge found in {RUNNERS[name]}")
    rep.floor("R3.3", 8)


def run(rep: Report, prog: Program, tier: str) -> None:
    check_enums(prog)
    rep.explanation = (
        "Decision-table extraction: all CFG paths of _handle_failure and _finalize_attempt are enumerated with symbolic "
        "copy propagation; branch literals are normalised (linear normal form for counters/ordering, per-member "
        "evaluation for class tests) into the inputs of the specification and the expanded truth table (every valuation "
        "of the inputs x 8 failure classes) is compared row by row with the specified decision list, in both "
        "directions. Ordering rule: stop tests that do not depend on time dominate every spend (strategy call, budget "
        "token, `retry` event). Typestate over the four runners: a success edge is followed by no further work."
    )
    rep.trusted_base = ["path enumeration and literal normalisation (sa/paths.py, sa/table.py)", "reference decision list in sa/rules/failure_table.py:true_reasons"]
    rep.assumptions = ["the per-class / UNKNOWN counters are integers; elapsed()/deadline are compared as reals"]
    rep.not_decided = ["stops that become true during the backoff (abort after the decision, DEFER/ABORT, deadline passed by an overshooting sleeper) may follow a spent token - inherent, not ordered by the property"]
    check_failure_table(rep, prog)
    check_finalize(rep, prog)
    check_success(rep, prog)
    rep.rule("R3.11", "`the failure class has a strategy` means a registered per-class entry or the default - decided by presence in the table, not by the truthiness of the strategy object (= C05 R5.1)")
    from .c05 import select_strategy_shape

    select_strategy_shape(rep, "R3.11", prog)
    rep.floor("R3.11", 1)
    rep.rule("R3.10", "`the failure class is retryable` is judged on the classifier's verdict for this very failure (no cached or substituted verdict)")
    from .common import failure_entry

    failure_entry(rep, "R3.10", prog)
    rep.floor("R3.10", 2)
    rep.rule("R3.9", "success/failure verdict on a returned value: should_classify_result is (False, None) iff there is no result classifier or it answers None; otherwise (True, normalised answer); the classifier is asked exactly once about the result itself; nothing else influences the verdict")
    result_verdict(rep, "R3.9", prog)
    rep.floor("R3.9", 4)

    from .common import forwarding_slice

    forwarding_slice(rep, "R3.12", prog, ("abort_if", "budget", "result_classifier", "classifier", "sleep", "sleep_fn"), "what decides whether a retry is permitted is what the caller passed: abort_if, budget, the sleep handler (which may defer or abort), classifier and result_classifier reach the runner / the retry component unchanged through every layer incl. the bound contexts (= their obligations of C12 R12.3)")

    rep.rule("R3.13", "the handler that may defer or abort a retry is the effective one: a per-call sleep handler wins over the policy-level one in call() and execute() of both Retry classes (= the _resolve_sleep rows and call sites of C16 R16.4)")
    from .c16 import selectors_and_rest
    from .common import RuleView

    selectors_and_rest(RuleView(rep, "R3.13", only=("R16.4",), keep=lambda key, msg: "_resolve_sleep|" in key or "_resolve_sleep(" in msg or "|sleep_fn|" in key), prog)
    rep.floor("R3.13", 8)
    # the remaining conjuncts of "retry exactly when permitted" are decided by the rules of the
    # properties that own them; they are re-run here under this property's id
    from .c10 import budget_shape
    from .c13 import abort_flow
    from .c16 import sleep_protocol

    rep.rule("R3.6", "sleep-handler conjunct: a configured handler is consulted for every granted retry; the next attempt starts only after SLEEP (or without a handler) and exactly one sleep; DEFER / ABORT end the run (= C16 R16.1/R16.2)")
    rep.rule("R3.6b", "DEFER ends the run as SCHEDULED, ABORT as ABORTED")
    sleep_protocol(rep, "R3.6", "R3.6b", prog)
    rep.rule("R3.7", "budget conjunct: the budget refuses a token only when the window is full and grants it otherwise (= C10 R10.1)")
    budget_shape(rep, "R3.7", prog)
    rep.rule("R3.8", "abort conjunct: an abort poll lies before every attempt and every backoff; after an abort no further work (= C13 R13.1-R13.3)")
    rep.rule("R3.8b", "poll before backoff")
    rep.rule("R3.8c", "abort is final")
    abort_flow(rep, "R3.8", "R3.8b", "R3.8c", prog)
