"""C04 - call() surfaces exactly the last attempt's value or exception."""

from __future__ import annotations

import ast
from typing import Any

from ..ctx import engine
from ..model import AnalysisError, Program
from ..paths import CannotEval, SymPath, evaluate, show, truth
from ..report import Report
from .common import is_attempt_no, is_loop_var, LOGIC, RUNNERS, SELF, STATE, attr, ctor_args, enum_name, runner_paths, owned_by

ST = ("param", "state")


def is_op_result(t: Any, p: SymPath) -> bool:
    """the value of the operation invocation of this iteration"""
    if not isinstance(t, tuple):
        return False
    if t[0] == "call" and (str(t[2]) == "callback:operation" or str(t[2]).endswith(":_call_with_timeout")):
        return True
    if t[0] == "call" and str(t[2]) == "lib:asyncio.wait_for":
        # awaited wait_for(func(), timeout=...) yields func()'s result
        for e in p.calls(pure=None):
            if e.result == t and e.args and e.args[0][0] == "call" and str(e.args[0][2]) == "callback:operation":
                return True
    return False


def run(rep: Report, prog: Program, tier: str) -> None:
    rep.explanation = (
        "Provenance by symbolic path enumeration (operation may raise, check_abort may raise AbortRetryError). R4.1: on "
        "every returning path of the two call-runners the returned term is the result of this iteration's operation "
        "invocation, and every forwarding layer (Retry, run_*, Policy, RetryPolicy, contexts, decorator, _call_with_timeout) "
        "returns its delegate's value unchanged. R4.2: in the handler of an ordinary exception every exit that is not an "
        "abort / deferral re-raises the handler-bound exception object itself (bare `raise`, `raise exc`), with no "
        "`from` clause and no traceback replacement. R4.3: every RetryExhaustedError construction takes each field from "
        "its designated source. R4.4: record_failure assigns class, classification, cause and both last_exc / last_result "
        "(one of them to None) on every path and is the first effect of _handle_failure; these fields have no other "
        "writer."
    )
    rep.trusted_base = ["sa/paths.py", "a bare `raise` inside an except block re-raises the exception being handled, traceback included"]
    rep.assumptions = ["typing.cast is the identity"]
    rep.not_decided = ["traceback contents (a runtime object): the rule establishes that the same exception object propagates through `raise`"]

    rep.rule("R4.1", "success value identity: the call-runners return the operation invocation's result; all forwarding layers return the delegate's value unchanged")
    for name in ("sync_call", "async_call"):
        q = RUNNERS[name]
        rep.analysed(q)
        n = 0
        for p in runner_paths(prog, name):
            if p.exit[0] != "return":
                continue
            n += 1
            rep.instance("R4.1", f"{name}|return|{show(p.exit[1])[:60]}")
            if is_op_result(p.exit[1], p):
                rep.ok("R4.1")
            else:
                rep.fail("R4.1", f"{name}|return-value", f"{q}: returns {show(p.exit[1])}, not the value produced by the operation invocation of the final attempt", where=prog.func(q).where(), function=q, path=p.describe())
        if n < 1:
            raise AnalysisError(f"{q}: no returning path")
    # forwarding layers: from every public entry point the returned term must be, on every returning path, the
    # result of a call that is the operation itself or a delegate which (recursively) forwards the same way, down
    # to the two call-runners checked above.  Intermediate helpers are discovered, not listed, so extracting or
    # inlining one changes nothing here.
    entries = [
        "redress.policy.runner.sync_runner:run_sync_call",
        "redress.policy.runner.async_runner:run_async_call",
        "redress.policy.retry_sync:Retry.call",
        "redress.policy.retry_async:AsyncRetry.call",
        "redress.policy.policy:Policy.call",
        "redress.policy.async_policy:AsyncPolicy.call",
        "redress.policy.wrappers:RetryPolicy.call",
        "redress.policy.wrappers:AsyncRetryPolicy.call",
        "redress.policy.context:_RetryContext.call",
        "redress.policy.context:_AsyncRetryContext.call",
        "redress.policy.context:_PolicyContext.call",
        "redress.policy.context:_AsyncPolicyContext.call",
    ]
    base = {RUNNERS["sync_call"], RUNNERS["async_call"]}
    memo: dict[str, str | None] = {}

    def forwards(fi, depth: int = 0) -> str | None:
        """None if every returning path of `fi` hands back its delegate's / the operation's value unchanged"""
        if fi.qual in base:
            return None
        if fi.qual in memo:
            return memo[fi.qual]
        memo[fi.qual] = None  # recursion guard
        if depth > 8:
            return f"forwarding chain deeper than 8 at {fi.qual}"
        rep.analysed(fi.qual)
        rets = [p for p in engine(prog).paths(fi) if p.exit[0] == "return"]
        if not rets:
            raise AnalysisError(f"{fi.qual}: no returning path")
        problem = None
        for p in rets:
            v = p.exit[1]
            rep.instance("R4.1", f"forward|{fi.qual.split(':')[1]}|{show(v)[:40]}")
            why = None
            if is_op_result(v, p) and not str(v[2]).endswith(":_call_with_timeout"):
                pass
            elif isinstance(v, tuple) and v[0] == "call" and str(v[2]).endswith(".submit().result"):
                pass
            elif isinstance(v, tuple) and v[0] == "call":
                evs = [e for e in p.calls(pure=False) if e.result == v]
                tg = [t for e in evs for t in e.targets]
                if not tg or not all(t.kind == "repo" and t.func is not None for t in tg):
                    why = f"returns {show(v)}, which is not the result of the operation or of a forwarding delegate"
                else:
                    for t in tg:
                        why = why or forwards(t.func, depth + 1)
            else:
                why = f"returns {show(v)}; expected the unchanged result of its delegate"
            if why:
                rep.fail("R4.1", f"forward|{fi.qual.split(':')[1]}", f"{fi.qual}: {why}", where=fi.where(), function=fi.qual, path=p.describe())
                problem = problem or f"{fi.qual} does not forward ({why[:80]})"
            else:
                rep.ok("R4.1")
        memo[fi.qual] = problem
        return problem

    for q in entries:
        forwards(prog.func(q))
    # decorator wrappers
    dec = prog.func("redress.policy.decorator:retry")
    for sub in _all_nested(dec):
        if sub.name in ("wrapper", "async_wrapper"):
            forwards(sub)
    reached = set(memo)
    for need in ("redress.policy.wrappers:RetryPolicy.call", "redress.policy.wrappers:AsyncRetryPolicy.call"):
        if need not in reached:
            raise AnalysisError(f"R4.1: {need} not reached")
    rep.floor("R4.1", 2 + 13 + 2 + 2)

    rep.rule("R4.2", "re-raise identity: in the call-runners an ordinary exception leaves only as the handler-bound object itself (bare `raise` / `raise exc`), never wrapped, chained or with a replaced traceback")
    for name in ("sync_call", "async_call"):
        q = RUNNERS[name]
        n = 0
        for p in runner_paths(prog, name):
            src = [e.value for e in p.events if e.kind == "exc"]
            if not src or src[0] != "OtherException" or p.exit[0] != "raise":
                continue
            kind, val = p.exit[1], p.exit[2]
            if kind in ("AbortRetryError", "RetryExhaustedError", "NoReturn"):
                continue  # abort / deferral (raise_scheduled): a different, specified way to end
            n += 1
            raises = [e for e in p.events if e.kind == "raise"]
            last = raises[-1] if raises else None
            rep.instance("R4.2", f"{name}|{kind}|{last.label if last else ''}")
            good = val is not None and val[0] == "exc" and val[1] == "OtherException" and kind == "OtherException"
            if good and last is not None and last.kwargs.get("cause") is not None:
                good = False
            if good:
                rep.ok("R4.2")
            else:
                rep.fail("R4.2", f"{name}|reraise|{last.label if last else kind}", f"{q}: after a failed final attempt the runner raises {show(val)} ({last.label if last else kind}{' from ' + show(last.kwargs['cause']) if last and last.kwargs.get('cause') else ''}), not the attempt's own exception object via bare `raise`", where=prog.func(q).where(), function=q, path=p.describe())
        if n < 1:
            raise AnalysisError(f"{q}: no re-raise path found")
    ex = prog.func(f"{LOGIC}:raise_exhausted_call")
    rep.analysed(ex.qual)
    for p in engine(prog).paths(ex):
        if p.exit[0] != "raise":
            continue
        v = p.exit[2]
        result_cause = any(a == ("cmp", "==", attr(ST, "last_cause"), ("const", "result")) and pol for a, pol, _ in p.conds)
        rep.instance("R4.2", f"raise_exhausted_call|{p.exit[1]}")
        last_exc = attr(ST, "last_exc")
        if result_cause:
            ok = v is not None and v[0] == "pure" and v[1] == "new RetryExhaustedError"
        elif p.exit[1] == "RuntimeError":
            ok = True  # defensive: no captured exception
        else:
            ok = v == ("pure", ".with_traceback", (last_exc, attr(last_exc, "__traceback__")), ()) or v == last_exc
        if ok:
            rep.ok("R4.2")
        else:
            rep.fail("R4.2", f"raise_exhausted_call|{p.exit[1]}", f"raise_exhausted_call raises {show(v)}; expected state.last_exc with its own traceback", where=ex.where(), function=ex.qual)
    rep.floor("R4.2", 4)

    rep.rule("R4.3", "RetryExhaustedError provenance: stop_reason, attempts, last_class, last_result / last_exception, next_sleep_s each come from their designated source at every construction site")
    UNK = None
    for name in ("sync_call", "async_call"):
        q = RUNNERS[name]
        n = 0
        for p in runner_paths(prog, name):
            if p.exit[0] != "raise" or p.exit[1] != "RetryExhaustedError" or p.exit[2] is None:
                continue
            d = ctor_args(p.exit[2], "RetryExhaustedError", ["stop_reason", "attempts", "last_class", "last_exception", "last_result", "next_sleep_s"])
            if d is None:
                continue
            n += 1
            rep.instance("R4.3", f"{name}|ctor")
            state_t = None
            for e in p.calls(pure=None):
                if e.is_ctor("_RetryState"):
                    state_t = e.result
            problems = []
            lc = d.get("last_class")
            if not (lc is not None and lc[0] == "attr" and lc[2] == "last_class"):
                problems.append(f"last_class={show(lc)}")
            lr = d.get("last_result")
            if not (lr is not None and lr[0] == "attr" and lr[2] == "last_result"):
                problems.append(f"last_result={show(lr)}")
            if d.get("last_exception") != ("const", None):
                problems.append(f"last_exception={show(d.get('last_exception'))}")
            at = d.get("attempts")
            if not (is_attempt_no(at, p)):
                problems.append(f"attempts={show(at)}")
            sr = d.get("stop_reason")
            srs = show(sr)
            if "last_stop_reason" not in srs and ".stop_reason" not in srs:
                problems.append(f"stop_reason={srs}")
            # the direct construction carries no next_sleep_s: it may only be reached when the loop action is known
            # not to be a ScheduledAction (whose fields - next_sleep_s of a deferral among them - raise_scheduled delivers)
            acts = [e for e in p.calls(pure=None) if e.is_repo(":determine_action_from_outcome")]
            if acts and d.get("next_sleep_s", ("const", None)) == ("const", None):
                a_res = acts[-1].result
                excluded = any(a[0] == "pure" and a[1] == "isinstance" and len(a[2]) == 2 and a[2][0] == a_res and "ScheduledAction" in show(a[2][1]) and not pol for a, pol, _ in p.conds)
                if not excluded:
                    problems.append("built directly (no next_sleep_s) on a path where the loop action may be a ScheduledAction: a deferral's next_sleep_s / stop reason would be dropped (expected `if isinstance(action, ScheduledAction): raise_scheduled(action)` first)")
            if problems:
                rep.fail("R4.3", f"{name}|ctor|{problems[0][:40]}", f"{q}: RetryExhaustedError built with {problems}", where=prog.func(q).where(), function=q, path=p.describe())
            else:
                rep.ok("R4.3")
        # (a call-runner need not build the error itself at all: with for_result=True every stop comes back as a
        # ScheduledAction and leaves through raise_scheduled - the rows above decide that by value; where a direct
        # construction exists it is held to the obligations just checked)
        rep.instance("R4.3", f"{name}|direct-sites={n}")
        rep.ok("R4.3")
    rs = prog.func(f"{LOGIC}:raise_scheduled")
    rep.analysed(rs.qual)
    for p in engine(prog).paths(rs):
        d = ctor_args(p.exit[2], "RetryExhaustedError", []) if p.exit[0] == "raise" and p.exit[2] is not None else None
        rep.instance("R4.3", "raise_scheduled")
        A = ("param", "action")
        want = {k: attr(A, k) for k in ("stop_reason", "attempts", "last_class", "last_exception", "last_result", "next_sleep_s")}
        if d == want:
            rep.ok("R4.3")
        else:
            rep.fail("R4.3", "raise_scheduled|fields", f"raise_scheduled builds RetryExhaustedError({[(k, show(v)) for k, v in (d or {}).items()]}); expected every field from the like-named field of the action", where=rs.where(), function=rs.qual)
    scheduled_action_fields(rep, "R4.3", prog)
    # the flag that selects last_result / last_exception is true exactly after a result-caused failure
    n_sites = 0
    for name in ("sync_call", "async_call"):
        q = RUNNERS[name]
        seen_sites: set = set()
        for p in runner_paths(prog, name):
            cause = None
            for e in p.calls(pure=None):
                if e.is_repo("_RetryState.handle_result"):
                    cause = "result"
                elif e.is_repo("_RetryState.handle_exception"):
                    cause = "exception"
                elif e.is_repo(":determine_action_from_outcome"):
                    flag = e.kwargs.get("for_result", e.args[3] if len(e.args) > 3 else ("const", False))
                    key = (e.node.lineno, cause, show(flag))
                    if key in seen_sites:
                        continue
                    seen_sites.add(key)
                    n_sites += 1
                    rep.instance("R4.3", f"{name}|for_result|L{e.node.lineno}|after={cause}")
                    if cause is not None and flag == ("const", cause == "result"):
                        rep.ok("R4.3")
                    else:
                        rep.fail("R4.3", f"{name}|for_result|after={cause}|{show(flag)}", f"{q}: determine_action_from_outcome(..., for_result={show(flag)}) after a {cause}-caused failure: RetryExhaustedError would carry the wrong one of last_result / last_exception", where=prog.func(q).where(e.node.ast), function=q, path=p.describe())
    if n_sites < 4:
        raise AnalysisError(f"R4.3: only {n_sites} determine_action_from_outcome sites found in the call-runners (4 confirmed by hand)")
    rep.floor("R4.3", 9)

    rep.rule("R4.8", "the stop reason call() surfaces is the reason the run stopped: the attempt-outcome table of _finalize_attempt (raise-decision / DEFER / ABORT / post-sleep deadline / post-sleep attempt cap) labels each stop with its own reason (= C03 R3.2)")
    from .c03 import check_finalize

    check_finalize(rep, prog, rid="R4.8")
    rep.floor("R4.8", 8)
    rep.rule("R4.9", "a deferred or aborted run ends call() the documented way: DEFER raises RetryExhaustedError(stop_reason=SCHEDULED, next_sleep_s=the delay), ABORT raises AbortRetryError - on the exception path and on the result path of both call-runners (= the DEFER / ABORT rows of C16 R16.2)")
    from .c16 import sleep_protocol

    sleep_protocol(rep, "R4.9", "R4.9", prog)
    rep.floor("R4.9", 8)

    rep.rule("R4.4", "record_failure assigns last_class, last_classification, last_cause and both last_exc / last_result (the other one to None) on every path; it is the first effect of _handle_failure; no other writer of these fields")
    final_failure_state(rep, "R4.4", prog)
    rep.floor("R4.4", 10)


    rep.rule("R4.5", "exception objects are not mutated on the run path: no store to __traceback__/__cause__/__context__/__suppress_context__/args/__notes__, no add_note/clear_frames, with_traceback only with the exception's own traceback (zero-count rule; positive example kept in the self-test)")
    MUT = {"__traceback__", "__cause__", "__context__", "__suppress_context__", "args", "__notes__"}
    n_mod = 0
    for fn in prog.funcs.values():
        if not fn.module.name.startswith("redress.policy"):
            continue
        n_mod += 1
        bad = []
        for n in prog._own_nodes(fn.node):
            if isinstance(n, ast.Attribute) and n.attr in MUT and isinstance(n.ctx, (ast.Store, ast.Del)):
                bad.append((n, f"writes `{ast.unparse(n)}`"))
            if isinstance(n, ast.Call) and isinstance(n.func, ast.Attribute) and n.func.attr in ("add_note", "clear_frames"):
                bad.append((n, f"calls {ast.unparse(n.func)}"))
            if isinstance(n, ast.Call) and isinstance(n.func, ast.Name) and n.func.id in ("setattr", "delattr") and len(n.args) >= 2 and isinstance(n.args[1], ast.Constant) and n.args[1].value in MUT:
                bad.append((n, f"{n.func.id}(..., {n.args[1].value!r})"))
            if isinstance(n, ast.Call) and isinstance(n.func, ast.Attribute) and n.func.attr == "with_traceback":
                own = len(n.args) == 1 and isinstance(n.args[0], ast.Attribute) and n.args[0].attr == "__traceback__" and ast.unparse(n.args[0].value) == ast.unparse(n.func.value)
                if not own:
                    bad.append((n, f"replaces a traceback: {ast.unparse(n)[:60]}"))
        rep.instance("R4.5", fn.qual)
        if bad:
            for n, what in bad[:2]:
                rep.fail("R4.5", f"{fn.qual}|{what[:50]}", f"{fn.qual} {what}: the exception surfaced by call() must keep its original traceback and links", where=fn.where(n), function=fn.qual)
        else:
            rep.ok("R4.5")
    if n_mod < 100:
        raise AnalysisError(f"R4.5: only {n_mod} functions scanned")

    rep.rule("R4.7", "last_class / last_classification describe the final attempt: every failure is classified on its own (= C01 R1.6; no verdict cached per type / message, none carried over)")
    from .common import failure_entry

    failure_entry(rep, "R4.7", prog)
    rep.floor("R4.7", 2)

    rep.rule("R4.6", "`classified as success` = no result classifier, or the classifier answered None for this very result (= C03 R3.9): the value call() returns is the first one with that verdict")
    from .c03 import result_verdict

    result_verdict(rep, "R4.6", prog)
    rep.floor("R4.6", 4)


def scheduled_action_fields(rep: Report, rid: str, prog: Program, only: tuple[str, ...] | None = None) -> None:
    """the terminal action built by determine_action_from_outcome, field by field and by value, for every decision /
    flag / stop-reason combination that reaches each construction (`only`: restrict the comparison to these fields)"""
    da = prog.func(f"{LOGIC}:determine_action_from_outcome")
    rep.analysed(da.qual)
    OUT = ("param", "outcome")
    n_sched = 0
    for p in engine(prog).paths(da):
        if p.exit[0] != "return":
            continue
        d = ctor_args(p.exit[1], "ScheduledAction", ["stop_reason", "attempts", "last_class", "last_exception", "last_result", "next_sleep_s"])
        if d is None:
            continue
        n_sched += 1
        # decided by value: the fields of the action are evaluated for every combination of the decision, the
        # for_result flag and the presence of the two stop reasons that is consistent with the path, and compared with
        # what the exception of call() must carry (whatever conditional expressions / helpers spell it)
        DEC = attr(OUT, "decision")
        SCHED = ("enum", "AttemptDecision", "SCHEDULED")
        problems = []
        combos = 0
        for dec in ("SCHEDULED", "RAISE", "RETRY", "ABORTED"):
            for fr in (True, False):
                for osr in (None, "osr"):
                    for ssr in (None, "ssr"):
                        def leaf(t, dec=dec, fr=fr, osr=osr, ssr=ssr):
                            if t == DEC:
                                return ("enum", "AttemptDecision", dec)
                            if t == ("param", "for_result"):
                                return fr
                            if t == attr(OUT, "stop_reason"):
                                return osr
                            if t == attr(ST, "last_stop_reason"):
                                return ssr
                            if t[0] in ("param", "attr", "enum"):
                                return t
                            raise CannotEval(show(t))

                        try:
                            if not all(truth(a, leaf) == pol for a, pol, _ in p.conds):
                                continue  # this combination does not take this path
                            got = {k: evaluate(v, leaf) for k, v in d.items()}
                        except CannotEval as exc:
                            problems.append(f"cannot evaluate {exc}")
                            break
                        if dec in ("RETRY", "ABORTED"):
                            problems.append(f"[decision={dec}] a terminal action is built although the attempt outcome says {dec}")
                            break
                        if dec == "RAISE" and not fr:
                            continue  # an exception-caused raise re-raises the exception itself: no action is built (R4.1)
                        combos += 1
                        want = {
                            "stop_reason": osr or ssr or ("enum", "StopReason", "SCHEDULED" if dec == "SCHEDULED" else "MAX_ATTEMPTS_GLOBAL"),
                            "attempts": ("param", "attempt"),
                            "last_class": attr(ST, "last_class"),
                            "last_exception": None if fr else attr(ST, "last_exc"),
                            "last_result": attr(ST, "last_result") if fr else None,
                            "next_sleep_s": attr(OUT, "sleep_s") if dec == "SCHEDULED" else None,
                        }
                        for k, w in want.items():
                            if only is not None and k not in only:
                                continue
                            if got.get(k) != w:
                                problems.append(f"[decision={dec}, for_result={fr}, outcome.stop_reason={'set' if osr else 'None'}, state.last_stop_reason={'set' if ssr else 'None'}] {k}={show(got.get(k)) if isinstance(got.get(k), tuple) else got.get(k)}; expected {show(w) if isinstance(w, tuple) else w}")
        scheduled = any(a == ("cmp", "is", DEC, SCHED) and pol for a, pol, _ in p.conds)
        rep.instance(rid, f"ScheduledAction|{'|'.join(p.describe()[-3:])[:120]}")
        # (a construction that no combination of decision and flag reaches - the default row of a dispatch table whose
        # rows cover every decision - is dead code, not a violation)
        if problems:
            rep.fail(rid, f"ScheduledAction|scheduled={scheduled}|{problems[0][:40]}", f"determine_action_from_outcome: ScheduledAction built with {problems[:3]}", where=da.where(), function=da.qual, path=p.describe())
        else:
            rep.ok(rid)
    if n_sched < 2:
        raise AnalysisError("determine_action_from_outcome: ScheduledAction sites not found")


def final_failure_state(rep: Report, rid: str, prog: Program) -> None:
    """the run state describes the final failure (shared with C14: the terminal event's class / err / cause tags
    are read from exactly these fields)"""
    # decided on `_handle_failure` as a whole, with `record_failure` - where it exists as a method of its own - read
    # through: before anything else happens (any call, any other store) the five last_* fields are set from the
    # arguments, per value of `cause`
    from ..paths import CannotEval, evaluate, truth

    hf = prog.func(f"{STATE}:_RetryState._handle_failure")
    rf_q = f"{STATE}:_RetryState.record_failure"
    rep.analysed(hf.qual)
    if rf_q in prog.funcs:
        rep.analysed(rf_q)
    fields5 = ("last_exc", "last_result", "last_class", "last_classification", "last_cause")
    eng = engine(prog)
    inline0 = eng.inline
    eng.inline = lambda f, inline0=inline0: bool(inline0 and inline0(f)) or f.qual == rf_q
    try:
        hpaths = eng.paths(hf, raises=lambda ev, cfg: (), key="c04-final-failure")
    finally:
        eng.inline = inline0
    decided = {"exception": 0, "result": 0}
    seen_prefix: set = set()
    for p in hpaths:
        st: dict = {}
        conds: list = []
        problem_first = None
        for it in p.items:
            if it[0] == "cond":
                conds.append((it[1], it[2]))
                continue
            e = it[1]
            if e.kind == "store" and e.loc[0] == "attr" and e.loc[1] == SELF and e.loc[2] in fields5:
                st[e.loc[2]] = e.value
                continue
            if e.kind in ("lstore", "inlined", "return") or (e.kind == "call" and e.pure):
                continue
            if len(st) < len(fields5):
                problem_first = e.label
            break
        key = (tuple(sorted((k, repr(v)) for k, v in st.items())), tuple((repr(a), pol) for a, pol in conds), problem_first)
        if key in seen_prefix:
            continue
        seen_prefix.add(key)
        if problem_first is not None:
            rep.instance(rid, "_handle_failure|first-effect")
            rep.fail(rid, "_handle_failure|first-effect", f"_handle_failure does not start by recording the failure (classification, cause, exc, result -> last_*): `{problem_first}` happens before {sorted(set(fields5) - set(st))} are set", where=hf.where(), function=hf.qual, path=p.describe())
            continue
        rep.instance(rid, "_handle_failure|first-effect")
        rep.ok(rid)
        for cause in ("exception", "result"):

            def leaf(t: Any, cause: str = cause) -> Any:
                if t == ("param", "cause"):
                    return cause
                if t[0] == "param":
                    return ("P", t[1])
                if t[0] == "attr":
                    return ("A", leaf(t[1]), t[2])
                raise CannotEval()

            try:
                if any(truth(a, leaf) != pol for a, pol in conds):
                    continue
            except CannotEval:
                rep.instance(rid, f"record_failure|cause={cause}|undecodable")
                rep.fail(rid, f"record_failure|cause={cause}|condition", f"record_failure: a condition does not depend on `cause` alone: {[show(a) for a, _ in conds]}", where=hf.where(), function=hf.qual, path=p.describe())
                continue
            decided[cause] += 1
            rep.instance(rid, f"record_failure|cause={cause}")
            want = {"last_class": ("A", ("P", "classification"), "klass"), "last_classification": ("P", "classification"), "last_cause": cause}
            want.update({"last_exc": ("P", "exc"), "last_result": None} if cause == "exception" else {"last_result": ("P", "result"), "last_exc": None})
            bad = {}
            for k, v in want.items():
                try:
                    got = evaluate(st[k], leaf) if k in st else "<not assigned>"
                except CannotEval:
                    got = show(st[k])
                if got != v:
                    bad[k] = show(st[k]) if k in st else "<not assigned>"
            if bad:
                rep.fail(rid, f"record_failure|cause={cause}|{sorted(bad)[0]}", f"record_failure (cause == {cause!r}): {bad}; expected class/classification/cause from the arguments, last_exc = exc and last_result = None for an exception (the reverse for a result)", where=hf.where(), function=hf.qual, path=p.describe())
            else:
                rep.ok(rid)
    if not all(decided.values()):
        raise AnalysisError(f"record_failure: no path decided for cause values {[k for k, v in decided.items() if not v]}")
    rf = prog.funcs.get(rf_q) or hf
    fields = {"last_exc", "last_result", "last_class", "last_classification", "last_cause"}
    for fn in prog.funcs.values():
        if not fn.module.name.startswith("redress.policy"):
            continue
        for n in prog._own_nodes(fn.node):
            if isinstance(n, ast.Attribute) and n.attr in fields and isinstance(n.ctx, ast.Store):
                rep.instance(rid, f"writer|{fn.qual}|{n.attr}")
                if owned_by(prog, fn, (rf.qual, f"{STATE}:_RetryState.__init__")):
                    rep.ok(rid)
                else:
                    rep.fail(rid, f"writer|{fn.qual}|{n.attr}", f"{fn.qual} writes `{n.attr}` (the run state must describe the final failure)", where=fn.where(n), function=fn.qual)


def _all_nested(fi):
    out = []
    for s in fi.nested.values():
        out.append(s)
        out.extend(_all_nested(s))
    return out
