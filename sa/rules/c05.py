"""C05 - backoff delay = the failure class's strategy output, sanitised and capped."""

from __future__ import annotations

import ast
from typing import Any

from ..bounds import lower_const, upper_bounds
from ..ctx import engine
from ..model import AnalysisError, Program
from ..paths import SymPath, contains, show, subterms
from ..report import Report
from .common import HANDLE_FAILURE, SELF, attr, ctor_args, emit_info, is_emit, path_where, owned_by
from .failure_table import KLASS, classify, decode, failure_table, is_remaining_s, is_strategy_sel

BASE = "redress.policy.base:_BaseRetryPolicy"


def retry_rows(prog: Program) -> list[tuple[SymPath, dict]]:
    """retry paths of _handle_failure with their delay-related terms"""
    T = failure_table(prog)
    out = []
    for p in T.paths:
        o = decode(p)
        if o.decision != "retry":
            continue
        info: dict[str, Any] = {}
        d = ctor_args(p.exit[1], "_RetryDecision", ["action", "sleep_s", "context"])
        info["final"] = d.get("sleep_s") if d else None
        info["ctx_arg"] = d.get("context") if d else None
        sc = [e for e in p.calls() if e.callback() == "strategy"]
        info["strategy_calls"] = sc
        info["raw"] = sc[0].result if sc else None
        info["prev_store"] = [e for e in p.stores() if e.loc == attr(SELF, "prev_sleep")]
        info["retry_emit"] = [emit_info(e) for e in p.events if is_emit(e) and emit_info(e)["event_name"] == "RETRY"]
        rem = [x for x in subterms(info["final"] or ()) if is_remaining_s(x)]
        info["remaining"] = rem[0] if rem else None
        info["finite_lit"] = [pol for a, pol, _ in p.conds if a[0] == "pure" and a[1] == "math.isfinite" and info["raw"] is not None and a[2] == (info["raw"],)]
        info["time_left"] = any(classify(a, pol, p) == ("atom", "no_time", False) for a, pol, _ in p.conds)
        out.append((p, info))
    if not out:
        raise AnalysisError("_handle_failure has no `retry` path")
    return out


def check_sanitised(rep: Report, rid: str, prog: Program, need_cap: bool = True) -> None:
    """the value handed on is finite, >= 0 and <= remaining_s on every retry path"""
    for p, info in retry_rows(prog):
        final, raw, rem = info["final"], info["raw"], info["remaining"]
        construct = "|".join(x for x in p.describe()[-4:])[:160]
        rep.instance(rid, "retry-path|" + construct, {"delay": show(final)} if len(rep.samples) < 6 else None)
        problem = None
        if final is None:
            problem = "the retry decision carries no delay"
        else:
            if raw is not None and contains(final, raw) and info["finite_lit"] != [True]:
                problem = "the strategy's raw value reaches the delay without a dominating math.isfinite(...) test (non-finite values must become 0)"
            # bounds from the term (min / max) and from the comparisons taken on this path (the same clamp spelled as
            # `if not x > 0.0: x = 0.0` / `if remaining < x: x = remaining`)
            def cond_truth(a_, b_):
                """truth of a_ < b_ on this path, None if not tested"""
                for at, pol, _ in p.conds:
                    if at == ("cmp", "<", a_, b_):
                        return pol
                return None

            zeros = [("const", 0.0), ("const", 0)]
            if rem is None:
                rem = next((x for e in p.events if e.kind == "lstore" for x in subterms(e.value) if is_remaining_s(x)), None)
                rem = rem or next((x for at, _pol, _n in p.conds for x in subterms(at) if is_remaining_s(x)), None)
            lc = lower_const(final, nonneg=[rem] if (rem is not None and info["time_left"]) else [])
            nonneg_by_cond = any(cond_truth(z, final) is True or cond_truth(final, z) is False for z in zeros)
            if problem is None and (lc is None or lc < 0) and not nonneg_by_cond:
                problem = f"the delay {show(final)} is not bounded below by 0 (negative strategy outputs must become 0)"
            if problem is None and need_cap:
                capped = rem is not None and (rem in upper_bounds(final) or final == rem or cond_truth(rem, final) is False or cond_truth(final, rem) is True or (final in zeros and info["time_left"]))
                if not capped:
                    problem = f"the delay {show(final)} is not capped by the remaining time (deadline - elapsed()).total_seconds()"
                elif not info["time_left"]:
                    problem = "the remaining time is not known to be > 0 on this path (the `remaining_s <= 0` stop does not dominate)"
            if problem is None and raw is not None and not contains(final, raw) and info["finite_lit"] == [True]:
                justified = (final in zeros and any(cond_truth(z, raw) is False or cond_truth(raw, z) is True for z in zeros)) or (rem is not None and final == rem and (cond_truth(rem, raw) is True or cond_truth(raw, rem) is False)) or (rem is not None and final == rem and any(cond_truth(rem, z) is True for z in zeros))
                if not justified:
                    problem = "a finite strategy output is discarded"
        if problem:
            rep.fail(rid, f"_handle_failure|delay|{problem[:50]}", f"_handle_failure (retry path): {problem}", where=path_where(prog, HANDLE_FAILURE, p), function=HANDLE_FAILURE, path=p.describe())
        else:
            rep.ok(rid)


def select_strategy_shape(rep: Report, rid: str, prog: Program) -> None:
    """_select_strategy(K) = the per-class entry when K has one (presence, not truthiness), else the default"""
    fi = prog.func(f"{BASE}._select_strategy")
    rep.analysed(fi.qual)
    for p in engine(prog).paths(fi):
        rep.instance(rid, "_select_strategy", {"result": show(p.exit[1])})
        want = ("pure", ".get", (attr(SELF, "_strategies"), ("param", "klass"), attr(SELF, "_default_strategy")), ())
        if p.exit == ("return", want):
            rep.ok(rid)
        else:
            # accept the explicit membership form
            ok = False
            if p.exit[0] == "return":
                v = p.exit[1]
                ok = v in (attr(SELF, "_default_strategy"), ("sub", attr(SELF, "_strategies"), ("param", "klass")))
                ok = ok and any(a == ("cmp", "in", ("param", "klass"), attr(SELF, "_strategies")) for a, _pol, _ in p.conds)
            if ok:
                rep.ok(rid)
            else:
                rep.fail(rid, "_select_strategy|shape", f"_select_strategy returns {show(p.exit[1]) if len(p.exit) > 1 else p.exit}; expected self._strategies.get(klass, self._default_strategy)", where=fi.where(), function=fi.qual)


def strategy_call_provenance(rep: Report, rid: str, prog: Program) -> None:
    """on every retry path the selected strategy is applied to a BackoffContext built from the true attempt number, the
    classifier's classification (retry_after_s included), the previous delay, the true remaining time and the cause"""
    for p, info in retry_rows(prog):
        sc = info["strategy_calls"][0] if info["strategy_calls"] else None
        rep.instance(rid, "retry-path|strategy-call")
        problem = None
        if sc is None:
            problem = "no strategy call on a retry path"
        else:
            if not is_strategy_sel(sc.callee):
                problem = f"the callable invoked is {show(sc.callee)}, not the result of _select_strategy"
            else:
                sel = [e for e in p.calls() if e.is_repo("_select_strategy")]
                if len(sel) != 1 or sel[0].args != [KLASS] or sel[0].recv != attr(SELF, "policy"):
                    problem = f"_select_strategy is not called as self.policy._select_strategy(classification.klass): {[show(a) for e in sel for a in e.args]}"
            ctx = sc.args[0] if len(sc.args) == 1 else None
            bc = [e for e in p.calls(pure=None) if e.is_repo(":_build_backoff_context") or e.is_ctor("BackoffContext")]
            if problem is None and (ctx is None or not bc or bc[0].result != ctx):
                problem = f"the strategy receives {show(ctx)}, not the BackoffContext built for this failure"
            if problem is None:
                kw = bc[0].kwargs
                want = {"attempt": ("param", "attempt"), "classification": ("param", "classification"), "prev_sleep_s": attr(SELF, "prev_sleep"), "cause": ("param", "cause")}
                bad = {k: show(kw.get(k)) for k, v in want.items() if kw.get(k) != v}
                if not is_remaining_s(kw.get("remaining_s")):
                    bad["remaining_s"] = show(kw.get("remaining_s"))
                if bad:
                    problem = f"BackoffContext fields differ from their sources: {bad}"
            if problem is None and info["ctx_arg"] != ctx:
                problem = "the decision does not carry the context the strategy saw"
        if problem:
            rep.fail(rid, f"_handle_failure|strategy-call|{problem[:45]}", f"_handle_failure (retry path): {problem}", where=path_where(prog, HANDLE_FAILURE, p), function=HANDLE_FAILURE, path=p.describe())
        else:
            rep.ok(rid)


def run(rep: Report, prog: Program, tier: str) -> None:
    rep.explanation = (
        "Def-use / provenance over the symbolic paths of _handle_failure: on every retry path the strategy that is "
        "called is the value returned by _select_strategy(klass) (table entry else default), it is called exactly once "
        "(at most once on every other path) with a BackoffContext built from the true attempt number, the classifier's "
        "classification, the previously applied delay, the remaining time and the cause; the raw result is tested with "
        "math.isfinite, and the single resulting term - bounded below by 0 and above by the remaining time (small "
        "min/max bound domain over the reals) - is the very term stored as prev_sleep, reported in the `retry` event and "
        "returned in the decision. Downstream consumers (sleeper, scheduled event, outcome.sleep_s, next_sleep_s) read "
        "decision.sleep_s unmodified (C16 R16.3, C03 R3.2, C11 R11.5)."
    )
    rep.trusted_base = ["sa/paths.py provenance terms", "min/max/isfinite contracts", "dict.get(key, default)"]
    rep.assumptions = ["real arithmetic; NaN only through the explicit isfinite guard"]
    rep.not_decided = ["that BackoffContext.klass equals what the user's classifier meant (data)", "float semantics of min/max on NaN beyond the explicit guard"]

    rep.rule("R5.1", "_select_strategy(K) = per-class table entry if present else the default; both written only in __init__, every element normalised through _normalize_strategy")
    select_strategy_shape(rep, "R5.1", prog)
    init = prog.func(f"{BASE}.__init__")
    rep.analysed(init.qual)
    for fn in prog.funcs.values():
        for n in prog._own_nodes(fn.node):
            if isinstance(n, ast.Attribute) and n.attr in ("_strategies", "_default_strategy") and isinstance(n.ctx, ast.Store):
                rep.instance("R5.1", f"writer|{fn.qual}|{n.attr}")
                if owned_by(prog, fn, init.qual):
                    rep.ok("R5.1")
                else:
                    rep.fail("R5.1", f"writer|{fn.qual}|{n.attr}", f"{fn.qual} re-binds `{n.attr}`", where=fn.where(n), function=fn.qual)
    norm_ok = {"_strategies": False, "_default_strategy": False}

    def n_norm(e: ast.AST) -> int:
        return len([c for c in ast.walk(e) if isinstance(c, ast.Call) and isinstance(c.func, ast.Name) and c.func.id == "_normalize_strategy"])

    def normalises(value: ast.expr, fn, depth: int = 0) -> bool:
        """every strategy that ends up in `value` went through _normalize_strategy exactly once: directly, through a
        table filled item by item, or through a helper whose every returned value is built that way"""
        if n_norm(value) == 1:
            return True
        if isinstance(value, ast.Name):
            # a table filled item by item in a loop: every item stored must be a normalised strategy
            loc = value.id
            fills = [s2 for s2 in prog._own_nodes(fn.node) if isinstance(s2, ast.Assign) and len(s2.targets) == 1 and isinstance(s2.targets[0], ast.Subscript) and isinstance(s2.targets[0].value, ast.Name) and s2.targets[0].value.id == loc]
            inits = [s2 for s2 in prog._own_nodes(fn.node) if isinstance(s2, (ast.Assign, ast.AnnAssign)) and isinstance((s2.targets[0] if isinstance(s2, ast.Assign) else s2.target), ast.Name) and (s2.targets[0] if isinstance(s2, ast.Assign) else s2.target).id == loc]
            empty = len(inits) == 1 and inits[0].value is not None and ((isinstance(inits[0].value, ast.Dict) and not inits[0].value.keys) or (isinstance(inits[0].value, ast.Call) and isinstance(inits[0].value.func, ast.Name) and inits[0].value.func.id == "dict" and not inits[0].value.args))
            if bool(fills) and empty and all(n_norm(s2.value) == 1 for s2 in fills):
                return True
            if len(inits) == 1 and not fills and inits[0].value is not None and not empty:
                return normalises(inits[0].value, fn, depth)  # a local bound once to the normalised value
            return False
        if isinstance(value, ast.Call) and depth < 3:
            tg = prog.resolve_call(value, fn)
            if len(tg) == 1 and tg[0].kind == "repo" and tg[0].func is not None and tg[0].func.qual != "redress.strategies:_normalize_strategy":
                g = tg[0].func
                rets = [r for r in prog._own_nodes(g.node) if isinstance(r, ast.Return)]
                vals = [r.value for r in rets if r.value is not None and not (isinstance(r.value, ast.Constant) and r.value.value is None)]
                return bool(vals) and all(normalises(v, g, depth + 1) for v in vals)
        return False

    for n in prog._own_nodes(init.node):
        if isinstance(n, (ast.Assign, ast.AnnAssign)):
            tgt = n.target if isinstance(n, ast.AnnAssign) else n.targets[0]
            if isinstance(tgt, ast.Attribute) and tgt.attr in norm_ok and n.value is not None:
                norm_ok[tgt.attr] = normalises(n.value, init)
    for k, v in norm_ok.items():
        rep.instance("R5.1", f"normalised|{k}")
        if v:
            rep.ok("R5.1")
        else:
            rep.fail("R5.1", f"normalised|{k}", f"_BaseRetryPolicy.__init__ does not pass `{k}` through _normalize_strategy (legacy 3-argument strategies would be called with a context)", where=init.where(), function=init.qual)
    rep.floor("R5.1", 5)

    rep.rule("R5.2", "strategy called at most once per failed attempt, exactly once per granted retry, and it is the selected strategy applied to BackoffContext(attempt, classification, prev_sleep_s=self.prev_sleep, remaining_s, cause)")
    T = failure_table(prog)
    rep.analysed(HANDLE_FAILURE)
    for p in T.paths:
        o = decode(p)
        rep.instance("R5.2", "path|" + "|".join(p.describe()[-2:])[:120])
        if o.n_strategy > 1 or (o.decision == "retry" and o.n_strategy != 1):
            rep.fail("R5.2", f"_handle_failure|strategy-calls={o.n_strategy}|{o.decision}", f"_handle_failure: strategy called {o.n_strategy} times on a `{o.decision}` path", where=path_where(prog, HANDLE_FAILURE, p), function=HANDLE_FAILURE, path=p.describe())
        else:
            rep.ok("R5.2")
    strategy_call_provenance(rep, "R5.2", prog)
    bf = prog.func("redress.policy.state:_build_backoff_context")
    for p in engine(prog).paths(bf):
        d = ctor_args(p.exit[1], "BackoffContext", []) if p.exit[0] == "return" else None
        rep.instance("R5.2", "_build_backoff_context")
        if d is not None and all(v == ("param", k) for k, v in d.items()) and set(d) == {"attempt", "classification", "prev_sleep_s", "remaining_s", "cause"}:
            rep.ok("R5.2")
        else:
            rep.fail("R5.2", "_build_backoff_context|passthrough", f"_build_backoff_context does not pass its arguments through: {show(p.exit[1]) if len(p.exit) > 1 else p.exit}", where=bf.where(), function=bf.qual)
    rep.floor("R5.2", 20)

    rep.rule("R5.3", "one sanitised value everywhere: the term returned in the decision is finite, >= 0, <= remaining time, and is the same term stored as prev_sleep and reported in the `retry` event; prev_sleep has no other writer")
    check_sanitised(rep, "R5.3", prog)
    for p, info in retry_rows(prog):
        rep.instance("R5.3", "retry-path|consumers")
        final = info["final"]
        problem = None
        if len(info["prev_store"]) != 1 or info["prev_store"][0].value != final:
            problem = f"prev_sleep := {[show(e.value) for e in info['prev_store']]} is not the delay returned ({show(final)})"
        elif len(info["retry_emit"]) != 1 or info["retry_emit"][0]["sleep_s"] != final:
            problem = f"the `retry` event reports {[show(e['sleep_s']) for e in info['retry_emit']]}, not the delay returned ({show(final)})"
        if problem:
            rep.fail("R5.3", f"_handle_failure|consumers|{problem[:40]}", f"_handle_failure (retry path): {problem}", where=path_where(prog, HANDLE_FAILURE, p), function=HANDLE_FAILURE, path=p.describe())
        else:
            rep.ok("R5.3")
    for fn in prog.funcs.values():
        for n in prog._own_nodes(fn.node):
            if isinstance(n, ast.Attribute) and n.attr == "prev_sleep" and isinstance(n.ctx, ast.Store):
                rep.instance("R5.3", f"prev_sleep-writer|{fn.qual}")
                if owned_by(prog, fn, (HANDLE_FAILURE, "redress.policy.state:_RetryState.__init__")):
                    rep.ok("R5.3")
                else:
                    rep.fail("R5.3", f"prev_sleep-writer|{fn.qual}", f"{fn.qual} writes prev_sleep", where=fn.where(n), function=fn.qual)
    rep.floor("R5.3", 6)

    rep.rule("R5.4", "_normalize_strategy: one required positional -> the strategy itself; three -> a wrapper passing (ctx.attempt, ctx.klass, ctx.prev_sleep_s) in this order; anything else -> TypeError")
    nf = prog.func("redress.strategies:_normalize_strategy")
    rep.analysed(nf.qual)
    wrapped = next(iter(nf.nested.values()), None)
    if wrapped is None:
        raise AnalysisError("_normalize_strategy: legacy wrapper vanished")
    for p in engine(prog).paths(wrapped):
        calls = [e for e in p.calls()]
        ctx = ("param", wrapped.param_names()[0])
        rep.instance("R5.4", "legacy-wrapper")
        ok = len(calls) == 1 and calls[0].args == [attr(ctx, "attempt"), attr(ctx, "klass"), attr(ctx, "prev_sleep_s")] and p.exit == ("return", calls[0].result) and calls[0].callee is not None and calls[0].callee[0] == "free"
        if ok:
            rep.ok("R5.4")
        else:
            rep.fail("R5.4", "legacy-wrapper|args", f"legacy adapter calls the strategy with {[show(a) for c in calls for a in c.args]}; expected (ctx.attempt, ctx.klass, ctx.prev_sleep_s)", where=wrapped.where(), function=wrapped.qual)
    # arity table, decided on an abstract domain of signature shapes: every `len(<list of parameters>) == n` /
    # truthiness test is evaluated on the shape after decoding the list comprehension that builds the list
    # (which parameter kinds it keeps, whether it keeps only the ones without default)
    comps = {id(n): n for n in ast.walk(nf.node) if isinstance(n, ast.ListComp)}
    assigns: dict[str, list[ast.expr]] = {}
    scopes: list[ast.AST] = [nf.node]
    for n in prog._own_nodes(nf.node):
        if isinstance(n, ast.Assign) and len(n.targets) == 1 and isinstance(n.targets[0], ast.Name):
            assigns.setdefault(n.targets[0].id, []).append(n.value)
        elif isinstance(n, ast.AnnAssign) and isinstance(n.target, ast.Name) and n.value is not None:
            assigns.setdefault(n.target.id, []).append(n.value)
        elif isinstance(n, ast.Assign) and len(n.targets) == 1 and isinstance(n.targets[0], ast.Tuple) and all(isinstance(t, ast.Name) for t in n.targets[0].elts) and isinstance(n.value, ast.Call) and isinstance(n.value.func, ast.Name):
            # `required_positional, required_kwonly = _required_parameters(signature)`: a helper of this module (new to the
            # rules) that builds the lists and returns them as a tuple - its bindings are read as if written here
            k_h, hf = prog.lookup_name(n.value.func.id, nf, nf.module)
            if k_h == "func" and hf is not None and engine(prog).inline is not None and engine(prog).inline(hf):
                rets_h = [r for r in prog._own_nodes(hf.node) if isinstance(r, ast.Return) and r.value is not None]
                if len(rets_h) == 1 and isinstance(rets_h[0].value, ast.Tuple) and len(rets_h[0].value.elts) == len(n.targets[0].elts):
                    scopes.append(hf.node)
                    for tg, rv in zip(n.targets[0].elts, rets_h[0].value.elts):
                        assigns.setdefault(tg.id, []).append(rv)
                    for hn in prog._own_nodes(hf.node):
                        if isinstance(hn, ast.Assign) and len(hn.targets) == 1 and isinstance(hn.targets[0], ast.Name):
                            if not any(isinstance(tg, ast.Name) and tg.id == hn.targets[0].id and isinstance(rv, ast.Name) and rv.id == tg.id for tg, rv in zip(n.targets[0].elts, rets_h[0].value.elts)):
                                assigns.setdefault(hn.targets[0].id, []).append(hn.value)
                            else:
                                # the helper's local has the caller's name: `x = [...]; return x` read as `x = [...]`
                                assigns[hn.targets[0].id] = [hn.value]
                        elif isinstance(hn, ast.AnnAssign) and isinstance(hn.target, ast.Name) and hn.value is not None:
                            assigns[hn.target.id] = [hn.value]
    POS = {"POSITIONAL_ONLY", "POSITIONAL_OR_KEYWORD"}
    ALLK = POS | {"KEYWORD_ONLY", "VAR_POSITIONAL", "VAR_KEYWORD"}

    def descriptor(node: ast.expr, depth: int = 0) -> tuple[frozenset, bool | None]:
        """(parameter kinds kept, required filter: True = only without default, False = only with default, None = both)"""
        if depth > 12:
            raise AnalysisError("_normalize_strategy: parameter-list definitions nest too deeply")
        if isinstance(node, ast.Name):
            vals = assigns.get(node.id, [])
            if len(vals) != 1:
                raise AnalysisError(f"_normalize_strategy: `{node.id}` is not bound exactly once")
            v0 = vals[0]
            if (isinstance(v0, ast.List) and not v0.elts) or (isinstance(v0, ast.Call) and isinstance(v0.func, ast.Name) and v0.func.id == "list" and not v0.args):
                # a list filled by `for p in <params>: if <filter>: lst.append(p)` = the comprehension written as a loop
                loops = [f for sc in scopes for f in ast.walk(sc) if isinstance(f, ast.For) and any(isinstance(c, ast.Call) and isinstance(c.func, ast.Attribute) and c.func.attr == "append" and isinstance(c.func.value, ast.Name) and c.func.value.id == node.id for c in ast.walk(f))]
                if len(loops) != 1 or not isinstance(loops[0].target, ast.Name) or loops[0].orelse:
                    raise AnalysisError(f"_normalize_strategy: cannot decode how `{node.id}` is filled")
                lp = loops[0]
                # the loop body read as a decision tree over the one parameter: the conjunction of branch literals under
                # which `node.append(p)` is reached (an `if c: continue` guards what follows with `not c`; `elif` with
                # the negation of the branches before it)
                found: list[list[tuple[ast.expr, bool]]] = []

                def walk_body(stmts: list[ast.stmt], lits: list[tuple[ast.expr, bool]]) -> list[tuple[ast.expr, bool]] | None:
                    """returns the literals in force after the statements (None: control never continues)"""
                    cur = list(lits)
                    for st in stmts:
                        if isinstance(st, ast.If):
                            t_end = walk_body(st.body, cur + [(st.test, True)])
                            f_end = walk_body(st.orelse, cur + [(st.test, False)])
                            if t_end is None and f_end is None:
                                return None
                            if t_end is None:
                                cur = f_end
                            elif f_end is None:
                                cur = t_end
                            else:
                                pass  # both continue: nothing new is known afterwards
                        elif isinstance(st, ast.Continue):
                            return None
                        elif isinstance(st, ast.Expr) and isinstance(st.value, ast.Call) and isinstance(st.value.func, ast.Attribute) and st.value.func.attr == "append" and isinstance(st.value.func.value, ast.Name):
                            if st.value.func.value.id == node.id:
                                if not (len(st.value.args) == 1 and isinstance(st.value.args[0], ast.Name) and st.value.args[0].id == lp.target.id):
                                    raise AnalysisError(f"_normalize_strategy: cannot decode how `{node.id}` is filled")
                                found.append(list(cur))
                        elif isinstance(st, (ast.Pass,)) or (isinstance(st, ast.Expr) and isinstance(st.value, ast.Constant)):
                            continue
                        else:
                            raise AnalysisError(f"_normalize_strategy: cannot decode how `{node.id}` is filled")
                    return cur

                walk_body(lp.body, [])
                if len(found) != 1:
                    raise AnalysisError(f"_normalize_strategy: cannot decode how `{node.id}` is filled")
                tests = [t if pol else ast.UnaryOp(op=ast.Not(), operand=t) for t, pol in found[0]]
                comp = ast.ListComp(elt=ast.Name(id=lp.target.id, ctx=ast.Load()), generators=[ast.comprehension(target=lp.target, iter=lp.iter, ifs=tests, is_async=0)])
                return descriptor(comp, depth + 1)
            return descriptor(v0, depth + 1)
        if isinstance(node, ast.Call) and isinstance(node.func, ast.Name) and node.func.id in ("list", "tuple") and len(node.args) == 1:
            return descriptor(node.args[0], depth + 1)
        if isinstance(node, ast.Call) and isinstance(node.func, ast.Attribute) and node.func.attr == "values" and isinstance(node.func.value, ast.Attribute) and node.func.value.attr == "parameters":
            return frozenset(ALLK), None
        if not isinstance(node, (ast.ListComp, ast.GeneratorExp)) or len(node.generators) != 1:
            raise AnalysisError(f"_normalize_strategy: cannot decode the parameter list `{ast.unparse(node)[:60]}`")
        g = node.generators[0]
        if not (isinstance(g.target, ast.Name) and isinstance(node.elt, ast.Name) and node.elt.id == g.target.id):
            raise AnalysisError("_normalize_strategy: parameter-list comprehension does not keep the parameters themselves")
        kinds, req = descriptor(g.iter, depth + 1)
        v = g.target.id
        conj: list[ast.expr] = []
        for c in g.ifs:
            conj.extend(c.values if isinstance(c, ast.BoolOp) and isinstance(c.op, ast.And) else [c])
        for c in conj:
            ok = False
            negated = False
            while isinstance(c, ast.UnaryOp) and isinstance(c.op, ast.Not):
                c, negated = c.operand, not negated
            if isinstance(c, ast.Compare) and len(c.ops) == 1 and isinstance(c.left, ast.Attribute) and isinstance(c.left.value, ast.Name) and c.left.value.id == v:
                op, right = c.ops[0], c.comparators[0]
                if negated:
                    flip = {ast.In: ast.NotIn, ast.NotIn: ast.In, ast.Is: ast.IsNot, ast.IsNot: ast.Is, ast.Eq: ast.NotEq, ast.NotEq: ast.Eq}
                    if type(op) not in flip:
                        raise AnalysisError(f"_normalize_strategy: cannot decode the parameter filter `not {ast.unparse(c)[:60]}`")
                    op = flip[type(op)]()
                if isinstance(right, ast.Name) and right.id in nf.module.assigns:
                    right = nf.module.assigns[right.id]  # a hoisted module constant
                if c.left.attr == "kind":
                    names = [x.attr for x in (right.elts if isinstance(right, (ast.Tuple, ast.Set, ast.List)) else [right]) if isinstance(x, ast.Attribute)]
                    if names and all(nm in ALLK for nm in names):
                        if isinstance(op, (ast.In, ast.Is, ast.Eq)):
                            kinds, ok = kinds & frozenset(names), True
                        elif isinstance(op, (ast.NotIn, ast.IsNot, ast.NotEq)):
                            kinds, ok = kinds - frozenset(names), True
                elif c.left.attr == "default" and isinstance(right, ast.Attribute) and right.attr in ("empty", "_empty"):
                    want = isinstance(op, (ast.Is, ast.Eq))
                    if isinstance(op, (ast.Is, ast.Eq, ast.IsNot, ast.NotEq)):
                        if req is not None and req != want:
                            kinds = frozenset()
                        req, ok = want, True
            if not ok:
                raise AnalysisError(f"_normalize_strategy: cannot decode the parameter filter `{ast.unparse(c)[:60]}`")
        return kinds, req

    import itertools

    from ..paths import CannotEval, truth

    class NotAboutLists(Exception):
        pass

    npaths = [p for p in engine(prog).paths(nf)]
    mismatches: list[str] = []
    n_shapes = 0
    for rp, op_, kr, ko, vp, vk in itertools.product(range(5), range(4), range(2), range(2), range(2), range(2)):
        n_shapes += 1
        # a shape: counts of (kind group, has default)
        def count(d: tuple[frozenset, bool | None]) -> int:
            kinds, req = d
            tot = 0
            if kinds & POS:
                if req in (True, None):
                    tot += rp
                if req in (False, None):
                    tot += op_
            if "KEYWORD_ONLY" in kinds:
                if req in (True, None):
                    tot += kr
                if req in (False, None):
                    tot += ko
            if "VAR_POSITIONAL" in kinds and req in (True, None):
                tot += vp
            if "VAR_KEYWORD" in kinds and req in (True, None):
                tot += vk
            return tot

        loop_vars = {f.target.id for sc in scopes for f in ast.walk(sc) if isinstance(f, (ast.For, ast.comprehension)) and isinstance(f.target, ast.Name)}

        def is_any(x: ast.expr) -> bool:
            return isinstance(x, ast.Call) and isinstance(x.func, ast.Name) and x.func.id == "any" and len(x.args) == 1 and not x.keywords and isinstance(x.args[0], ast.GeneratorExp) and len(x.args[0].generators) == 1 and isinstance(x.args[0].generators[0].target, ast.Name)

        def ast_truth(c: ast.expr) -> bool | None:
            """truth of a branch condition of _normalize_strategy on this signature shape; None = a test inside a
            filter loop (about one parameter), which the decoded parameter lists already account for"""
            if any(isinstance(x, ast.Name) and x.id in loop_vars for x in ast.walk(c)):
                return None
            if isinstance(c, ast.Compare) and len(c.ops) == 1 and isinstance(c.ops[0], (ast.Is, ast.IsNot)) and isinstance(c.comparators[0], ast.Constant) and c.comparators[0].value is None:
                raise NotAboutLists()  # `chosen is None`: about the value picked so far, decided on the path's own term
            if isinstance(c, ast.UnaryOp) and isinstance(c.op, ast.Not):
                v = ast_truth(c.operand)
                return None if v is None else (not v)
            if isinstance(c, ast.Name) and len(assigns.get(c.id, [])) == 1 and is_any(assigns[c.id][0]):
                c = assigns[c.id][0]
            if is_any(c):
                # any(<filter on p> for p in <list>) = the filtered list is non-empty
                g0 = c.args[0].generators[0]
                return count(descriptor(ast.ListComp(elt=ast.Name(id=g0.target.id, ctx=ast.Load()), generators=[ast.comprehension(target=g0.target, iter=g0.iter, ifs=[*g0.ifs, c.args[0].elt], is_async=0)]))) > 0
            if isinstance(c, (ast.Name, ast.ListComp)):
                return count(descriptor(c)) > 0
            if isinstance(c, ast.Compare) and len(c.ops) == 1:
                def num(x: ast.expr, depth: int = 0) -> int:
                    if isinstance(x, ast.Constant) and isinstance(x.value, int):
                        return x.value
                    if isinstance(x, ast.Name) and depth < 3:
                        if len(assigns.get(x.id, [])) == 1 and x.id not in nf.param_names():
                            return num(assigns[x.id][0], depth + 1)  # a count bound once to a local
                        if x.id not in assigns and x.id in nf.module.assigns:
                            return num(nf.module.assigns[x.id], depth + 1)  # a hoisted module constant
                    if isinstance(x, ast.Call) and isinstance(x.func, ast.Name) and x.func.id == "len" and len(x.args) == 1:
                        return count(descriptor(x.args[0]))
                    if isinstance(x, ast.Call) and isinstance(x.func, ast.Name) and x.func.id == "sum" and len(x.args) == 1 and isinstance(x.args[0], ast.GeneratorExp) and len(x.args[0].generators) == 1 and isinstance(x.args[0].elt, ast.Constant) and x.args[0].elt.value == 1:
                        # sum(1 for p in <list> if <filter>) = len of the filtered list
                        g0 = x.args[0].generators[0]
                        return count(descriptor(ast.ListComp(elt=ast.Name(id=g0.target.id, ctx=ast.Load()), generators=[g0])))
                    raise AnalysisError(f"_normalize_strategy: condition `{ast.unparse(c)}` is not a test on the decoded parameter lists")
                l, r = num(c.left), num(c.comparators[0])
                op = c.ops[0]
                table = {ast.Eq: l == r, ast.NotEq: l != r, ast.Lt: l < r, ast.LtE: l <= r, ast.Gt: l > r, ast.GtE: l >= r}
                if type(op) in table:
                    return table[type(op)]
            raise AnalysisError(f"_normalize_strategy: condition `{ast.unparse(c)}` is not a test on the decoded parameter lists")

        feas = []
        for p in npaths:
            if p.exit[0] == "loop":
                continue
            ok = True
            for it_ in p.items:
                if it_[0] != "cond":
                    continue
                cnode = it_[3]
                try:
                    v = ast_truth(cnode.info["cond"])
                except NotAboutLists:
                    # the strategy handed in is not None (its annotation; `inspect.signature(None)` raises), the
                    # adapter is a function: a None test on either is decided, on anything else it stays open
                    def leaf_nn(t: Any) -> Any:
                        if t == ("param", nf.param_names()[0]) or t == ("global", wrapped.qual):
                            return object()
                        raise CannotEval()

                    try:
                        if truth(it_[1], leaf_nn) != it_[2]:
                            ok = False
                            break
                    except CannotEval:
                        pass
                    continue
                if v is None:
                    continue
                taken = it_[6] if len(it_) > 6 else None  # the branch taken on the source condition
                if taken is None:
                    continue
                if v != taken:
                    ok = False
                    break
            if ok:
                feas.append(p)
        outs = set()
        for p in feas:
            if p.exit[0] == "return":
                outs.add("identity" if p.exit[1] == ("param", nf.param_names()[0]) else ("wrapper" if p.exit[1] == ("global", wrapped.qual) else show(p.exit[1])))
            else:
                outs.add("raise " + str(p.exit[1]))
        want = "raise TypeError" if kr > 0 else ("identity" if rp == 1 else ("wrapper" if rp == 3 else "raise TypeError"))
        if outs != {want}:
            mismatches.append(f"(required positional={rp}, optional positional={op_}, required kw-only={kr}, *args={vp}, **kw={vk}): {sorted(outs)} instead of {want}")
    rep.instance("R5.4", "arity-table", {"shapes": n_shapes, "mismatches": mismatches[:5]})
    if not mismatches:
        rep.ok("R5.4")
    else:
        rep.fail("R5.4", "arity-table", f"_normalize_strategy decides by the wrong parameter list on {len(mismatches)} of {n_shapes} signature shapes, e.g. {mismatches[0]}; expected: required keyword-only -> TypeError, one required positional -> the strategy itself, three required positional -> legacy wrapper, else TypeError", where=nf.where(), function=nf.qual)
    rep.floor("R5.4", 2)

    rep.rule("R5.5", "downstream: the sleep handler, before_sleep and the sleeper receive decision.sleep_s unmodified; SCHEDULED reports it (= C16 R16.3)")
    from .c16 import sleep_action_tables

    sleep_action_tables(rep, "R5.5", prog)
    rep.floor("R5.5", 12)
    rep.rule("R5.7", "the delay is actually slept: every granted retry reaches exactly one sleeper call before the next attempt, also when a before_sleep / metric / log hook raises (= C16 R16.1 with failing hooks)")
    rep.rule("R5.7b", "DEFER / ABORT endings (re-run of C16 R16.2)")
    from .c16 import sleep_protocol

    sleep_protocol(rep, "R5.7", "R5.7b", prog)
    rep.floor("R5.7", 60)
    _foundations(rep, prog)


def _foundations(rep: Report, prog: Program) -> None:
    rep.rule("R5.6", "`that same delay` survives the records it travels in: _RetryDecision, BackoffContext, Classification and _AttemptOutcome are transparent (no __post_init__ / custom __init__ / shadowing property)")
    from .foundations import records_transparent

    records_transparent(rep, "R5.6", prog, ["redress.policy.state:_RetryDecision", "redress.strategies:BackoffContext", "redress.classify:Classification", "redress.policy.retry_helpers:_AttemptOutcome"])
    rep.floor("R5.6", 4)

    rep.rule("R5.8", "the delay a deferred retry reports to the caller is the delay that was computed: on every SCHEDULED path of determine_action_from_outcome - exception- or result-caused - next_sleep_s is outcome.sleep_s, and only there (= the next_sleep_s column of C04 R4.3)")
    from .c04 import scheduled_action_fields

    scheduled_action_fields(rep, "R5.8", prog, only=("next_sleep_s",))
    from .c11 import check_runner_fields
    from .common import RuleView as _RV

    check_runner_fields(_RV(rep, "R5.8", only=("R11.5",)), prog)  # ... and in execute mode: outcome.next_sleep_s (= C11 R11.5)
    rep.floor("R5.8", 6)

    from .common import forwarding_slice

    forwarding_slice(rep, "R5.9", prog, ("strategy", "strategies", "class_strategies"), "the strategies the caller configured are the ones consulted: strategy and the per-class strategies table reach the retry component unchanged through every layer - decorator, sugar classes, from_config (= their obligations of C12 R12.3)")

    rep.rule("R5.11", "the strategy is consulted only for a retry that can be granted: every time-independent stop test (per-class cap, non-retryable class, UNKNOWN cap, global attempt cap, no strategy) comes before the strategy call, so no delay is computed, reported or slept for a retry that is then refused (= C03 R3.4)")
    from .c03 import check_failure_table
    from .common import RuleView

    check_failure_table(RuleView(rep, "R5.11", only=("R3.4",)), prog)
    rep.instance("R5.11", "_handle_failure|stop-tests-first")
    rep.ok("R5.11")
    rep.floor("R5.11", 1)

    rep.rule("R5.12", "the strategy sees the true attempt number: the runners pass their loop's attempt number to handle_exception / handle_result, which hand it to _handle_failure unchanged, where it enters the BackoffContext and the `retry` event (= C14 R14.3)")
    from .c14 import numbering

    numbering(rep, "R5.12", prog)
    rep.floor("R5.12", 19)

    rep.rule("R5.10", "what the captured timeline reports as the delay of a `retry` event is the delay that was applied: its sleep_s is the sleep_s the event was emitted with (= C14 R14.11)")
    from .common import timeline_record

    timeline_record(rep, "R5.10", prog, fields=("sleep_s",))
    rep.floor("R5.10", 1)
