"""C06 - breaker opens exactly when counted failures reach a threshold in the window."""

from __future__ import annotations

import ast
from typing import Any

from ..ctx import engine
from ..model import AnalysisError, Program
from ..paths import PEvent, SymPath, norm_less, show
from ..report import Report
from .breaker_table import CB, check_method, is_clock
from .common import SELF, attr, owned_by
from .windows import WindowSpec, arg_of, loop_idioms, param_roles, prunes, unverified_loops

F = attr(SELF, "_failures")
CF = attr(SELF, "_class_failures")
NOW = ("param", "now")
KL = ("param", "klass")


def window_shape(rep: Report, rid: str, prog: Program, qual: str, bucket: Any, window: Any, now_pos: int = -1) -> bool:
    """`_prune`: pop from the left while bucket[0] <= now - window, nothing else.
    `bucket` is a term, or the index of the positional parameter holding the container; the time is the
    positional parameter `now_pos` (names are free).  Returns False when the helper does not exist (its
    callers then carry the loop themselves and are judged by windows.loop_idioms)."""
    fi = prog.funcs.get(qual)
    if fi is None:
        return False
    rep.analysed(qual)
    pos = fi.positional_params()
    if isinstance(bucket, int):
        if bucket >= len(pos):
            raise AnalysisError(f"{qual}: expected a container parameter at position {bucket}")
        bucket = ("param", pos[bucket])
    roles = param_roles(fi)
    NOW = ("param", roles["now"]) if "now" in roles else ("param", pos[now_pos])
    if isinstance(bucket, tuple) and bucket[0] == "param" and "bucket" in roles:
        bucket = ("param", roles["bucket"])
    paths = engine(prog).paths(fi)
    first = ("sub", bucket, ("const", 0))
    lenb = ("pure", "len", (bucket,), ())
    # the helper may itself delegate to a shared prune function of another shape (verified on its own paths by
    # windows.helper_prune_info): then its single effect is that call, on this container, at this time
    from .windows import WindowSpec, prunes

    spec0 = WindowSpec("\0", lambda e: None, lambda e: None, window)
    dele = [[x for x in prunes(p, spec0, {}, None) if x.how == "helper"] for p in paths]
    if paths and all(len(d) == 1 and d[0].container == bucket and d[0].now == NOW for d in dele) and all(len([e for e in p.events if e.kind in ("call", "store") and not (e.kind == "call" and e.pure)]) == 1 for p in paths):
        rep.instance(rid, f"{qual}|prune-shape", {"function": qual, "delegates_to": dele[0][0].event.label})
        rep.ok(rid)
        return True
    okshape, why, n_pop_paths = True, "", 0
    for p in paths:
        last = 0
        pops_here = 0
        for i, it in enumerate(p.items):
            if it[0] != "ev":
                continue
            e = it[1]
            if e.kind == "store":
                okshape, why = False, f"store to {show(e.loc)}"
            if e.kind == "call" and not e.pure:
                is_pop = isinstance(e.node.ast, ast.Call) and isinstance(e.node.ast.func, ast.Attribute) and e.node.ast.func.attr == "popleft"
                if not is_pop:
                    okshape, why = False, f"unexpected effect {e.label}"
                    continue
                if e.recv != bucket:
                    okshape, why = False, f"popleft on {show(e.recv)}"
                    continue
                pops_here += 1
                seg = p.items[last:i]
                # this pop is justified by: the oldest entry is expired (bucket[0] <= now - window) ...
                bound = False
                for s2 in seg:
                    if s2[0] == "cond" and s2[1][0] == "cmp" and s2[1][1] == "<":
                        nf = norm_less(s2[1], s2[2], integer=False)
                        if nf is not None and nf[0] == ">=0" and nf[2] == 0 and dict(nf[1]) == {NOW: 1, window: -1, first: -1}:
                            bound = True
                # ... and the container is not empty: tested for truth, or the loop runs at most len(bucket) times
                nonempty = any(s2[0] == "cond" and ((s2[1] == bucket and s2[2]) or (s2[1] == ("cmp", "<", ("const", 0), lenb) and s2[2])) for s2 in seg)
                nonempty = nonempty or any(s2[0] == "ev" and s2[1].kind == "iter" and s2[1].value != "zero" and s2[1].recv == ("pure", "range", (lenb,), ()) for s2 in p.items[:i])
                if not (bound and nonempty):
                    guards = [("" if s2[2] else "not ") + show(s2[1]) for s2 in seg if s2[0] == "cond"]
                    okshape, why = False, f"a popleft is guarded by {guards}; expected `bucket` non-empty and `bucket[0] <= now - window`"
                last = i + 1
        n_pop_paths += 1 if pops_here else 0
    rep.instance(rid, f"{qual}|prune-shape", {"function": qual, "paths": len(paths), "paths_that_pop": n_pop_paths})
    if okshape and n_pop_paths >= 1:
        rep.ok(rid)
    else:
        rep.fail(rid, f"{qual.split(':')[-1]}|prune-shape", f"{qual}: pruning is not `while bucket and bucket[0] <= now - window: bucket.popleft()` ({why or 'no path pops'})", where=fi.where(), function=qual)
    return True


def _keys_of_thresholds(t: Any) -> bool:
    """the argument adds exactly the classes that have a threshold: the `class_thresholds` parameter (or what it was
    stored as) itself - iterating a mapping yields its keys -, its `.keys()`, or a set / list / tuple made of either"""
    if not isinstance(t, tuple) or not t:
        return False
    if t == ("param", "class_thresholds") or t == attr(SELF, "_class_thresholds"):
        return True
    if t[0] == "pure" and t[1] == ".keys" and len(t[2]) == 1:
        return _keys_of_thresholds(t[2][0])
    if t[0] == "pure" and t[1] in ("set", "frozenset", "list", "tuple", "dict", "new set", "new frozenset", "new dict") and len(t[2]) == 1:
        return _keys_of_thresholds(t[2][0])
    if t[0] == "bool" and t[1] == "or" and len(t[2]) == 2:
        # `class_thresholds or {}`
        return _keys_of_thresholds(t[2][0])
    return False


def _empty_collection(t: Any) -> bool:
    """an empty display / constructor call: what `dict(x) if x else {}` is on the path where no thresholds were given"""
    if not isinstance(t, tuple) or not t:
        return False
    if t[0] in ("dict", "set", "tuple", "list") and len(t) > 1 and not t[1]:
        return True
    return t[0] == "pure" and t[1] in ("dict", "set", "frozenset", "new dict", "new set", "new frozenset") and not t[2]


def check_note_failure(rep: Report, prog: Program) -> None:
    rep.rule("R6.2", "_note_failure: prune(B, now) then B.append(now) precede every len(B) that feeds the result; result == len(class bucket) >= class threshold (when one exists) or len(_failures) >= _failure_threshold; _prune/_clear_failures shapes; container ownership")
    fi = prog.func(f"{CB}._note_failure")
    rep.analysed(fi.qual)
    paths = engine(prog).paths(fi)
    roles = param_roles(fi)
    if not {"klass", "now"} <= set(roles):
        raise AnalysisError(f"{fi.qual}: expected a failure-class parameter and a time parameter")
    KL, NOW = ("param", roles["klass"]), ("param", roles["now"])  # parameter names and order are free
    pr = prog.funcs.get(f"{CB}._prune")
    proles = param_roles(pr) if pr is not None else {}
    spec = WindowSpec("CircuitBreaker._prune", lambda e: arg_of(e, proles.get("bucket")), lambda e: arg_of(e, proles.get("now")), attr(SELF, "_window_s"))
    top = engine(prog).cfgs.get(fi)
    idioms = loop_idioms(paths, top, spec.window)
    for bad in unverified_loops(idioms):
        rep.instance("R6.2", f"_note_failure|while-loop@{bad.head}")
        rep.fail("R6.2", "_note_failure|loop-shape", f"_note_failure: a while loop is not the prune idiom: {bad.problem}", where=fi.where(top.nodes[bad.head].ast), function=fi.qual)
    TH = ("pure", ".get", (attr(SELF, "_class_thresholds"), KL), ())
    FT = attr(SELF, "_failure_threshold")
    glob_ret = ("not", ("cmp", "<", ("pure", "len", (F,), ()), FT))
    for p in paths:
        if p.exit[0] == "loop" and p.exit[1] in idioms:
            continue  # one iteration of an inline prune loop: judged by loop_idioms
        construct = "|".join(p.describe()[-4:])
        rep.instance("R6.2", "_note_failure|" + construct, {"path": p.describe()} if len(rep.samples) < 8 else None)
        imp = [e for e in p.events if e.kind == "call" and not e.pure]
        problems = []
        allpr = prunes(p, spec, idioms, top)
        pr_events = [x.event for x in allpr if x.event is not None]
        # global bucket first: prune then append, same container, same now
        gpr = [x for x in allpr if x.container == F and x.now == NOW]
        gap = [e for e in imp if _is_method(e, "append") and e.recv == F and e.args == [NOW]]
        if len(gpr) != 1 or len(gap) != 1:
            problems.append("global window: expected exactly one prune of self._failures at `now` and one self._failures.append(now)")
        rest = [e for e in imp if e not in pr_events and e not in gap]
        cpr = [x for x in allpr if x not in gpr]
        # presence of a class threshold: `thresholds.get(klass) is None` or `klass in thresholds` (values are validated >= 1)
        CT = attr(SELF, "_class_thresholds")
        THS = (TH, ("sub", CT, KL))
        has_threshold = any((a == ("cmp", "is", TH, ("const", None)) and not pol) or (a == ("cmp", "in", KL, CT) and pol) for a, pol, _ in p.conds)
        no_threshold = any((a == ("cmp", "is", TH, ("const", None)) and pol) or (a == ("cmp", "in", KL, CT) and not pol) for a, pol, _ in p.conds)
        if not (has_threshold or no_threshold):
            problems.append("class threshold presence is not tested (`_class_thresholds.get(klass) is None`)")
        if has_threshold:
            apps = [e for e in rest if _is_method(e, "append")]
            if len(cpr) != 1 or len(apps) != 1:
                problems.append("class window: expected exactly one prune of the class bucket at `now` and one bucket.append(now)")
            else:
                B = cpr[0].container
                if apps[0].recv != B or cpr[0].now != NOW or apps[0].args != [NOW]:
                    problems.append("class window: prune/append use different containers or a different `now`")
                got = ("pure", ".get", (CF, KL), ())
                fresh = B[0] == "pure" and str(B[1]).startswith("deque") or (B[0] == "pure" and "deque" in str(B[1]))
                if B not in (got, ("sub", CF, KL)):
                    stored = [e for e in p.stores() if e.loc == ("sub", CF, KL) and e.value == B]
                    if not stored:
                        problems.append("class window: a fresh bucket is not stored back into _class_failures[klass]")
                # threshold literal
                lenB = ("pure", "len", (B,), ())
                lit = [(a, pol) for a, pol, _ in p.conds if a in [("cmp", "<", lenB, t) for t in THS]]
                if not lit:
                    problems.append("class window: `len(bucket) >= threshold` is not tested")
                elif lit[0][1] is False:
                    if p.exit != ("return", ("const", True)):
                        problems.append("class threshold reached but the result is not True")
                elif p.exit != ("return", glob_ret):
                    problems.append(f"result is {show(p.exit[1])}, expected len(self._failures) >= self._failure_threshold")
        else:
            if rest or cpr:
                problems.append(f"unexpected effects without a class threshold: {[e.label for e in rest] + ['prune ' + show(x.container) for x in cpr]}")
            if p.exit != ("return", glob_ret):
                problems.append(f"result is {show(p.exit[1]) if len(p.exit) > 1 else p.exit}, expected len(self._failures) >= self._failure_threshold")
        if problems:
            rep.fail("R6.2", "_note_failure|" + problems[0][:60], f"_note_failure: {'; '.join(problems)}", where=f"{fi.module.relpath}:{fi.node.lineno}", function=fi.qual, path=p.describe())
        else:
            rep.ok("R6.2")
    if not window_shape(rep, "R6.2", prog, f"{CB}._prune", 1, attr(SELF, "_window_s"), now_pos=2):
        rep.instance("R6.2", "_note_failure|inline-prune-loops")
        helper_calls = {e.node.id for p in paths for x in prunes(p, spec, idioms, top) if x.how == "helper" and x.event is not None for e in [x.event]}
        if len(helper_calls) >= 2 and not idioms:
            rep.ok("R6.2")  # both windows are pruned through a helper of another shape (verified by windows.helper_prune_info)
        elif len(idioms) >= 2 and not unverified_loops(idioms):
            rep.ok("R6.2")
        else:
            rep.fail("R6.2", "_note_failure|inline-prune-loops", f"no _prune helper and {len(idioms)} verified inline prune loops in _note_failure (two windows are pruned)", where=fi.where(), function=fi.qual)
    # _clear_failures clears both containers (when the helper is spelled out at its call sites instead, the
    # transition table of R6.1 / C07 R7.1 counts the pair of clear() calls as the clearing)
    cf = prog.funcs.get(f"{CB}._clear_failures")
    if cf is not None:
        rep.analysed(cf.qual)
    for p in engine(prog).paths(cf) if cf is not None else []:
        cl = [e.recv for e in p.events if e.kind == "call" and _is_method(e, "clear")]
        rep.instance("R6.2", "_clear_failures")
        if set(map(repr, cl)) == {repr(F), repr(CF)} and len([e for e in p.events if e.kind == "call" and not e.pure]) == 2:
            rep.ok("R6.2")
        else:
            rep.fail("R6.2", "_clear_failures|both-containers", f"_clear_failures clears {[show(x) for x in cl]}; expected exactly self._failures and self._class_failures", where=cf.where(), function=cf.qual)
    # ownership of the containers
    ci = prog.cls(CB)
    allowed = {"__init__", "_note_failure", "_clear_failures"}
    if cf is None:
        allowed |= {"record_success", "record_failure"}  # the clearing is spelled out in the transition methods (R6.1 decodes it)
    owners = tuple(f"{CB}.{n}" for n in allowed)
    for m in prog.modules.values():
        for fn in [f for f in prog.funcs.values() if f.module is m]:
            for n in prog._own_nodes(fn.node):
                if isinstance(n, ast.Attribute) and n.attr in ("_failures", "_class_failures"):
                    rep.instance("R6.2", f"container-use|{fn.qual}|{n.attr}")
                    if fn.cls is not None and (fn.cls is ci or fn.cls in prog.mro(ci)) and (fn.name in allowed or owned_by(prog, fn, owners)):
                        rep.ok("R6.2")
                    else:
                        rep.fail("R6.2", f"container-use|{fn.qual}|{n.attr}", f"{fn.qual} touches `{n.attr}`; the failure windows are owned by _note_failure/_clear_failures", where=fn.where(n), function=fn.qual)
    # (that trip_on includes every class with a class threshold is decided semantically by R6.4)
    rep.floor("R6.2", 12)


def _is_method(e: PEvent, name: str) -> bool:
    f = e.node.ast.func if isinstance(e.node.ast, ast.Call) else None
    return e.kind == "call" and isinstance(f, ast.Attribute) and f.attr == name and e.callback() is None and not any(t.kind in ("repo", "ctor") for t in e.targets)


def check_clock(rep: Report, prog: Program) -> None:
    rep.rule("R6.3", "the `now` used for pruning/appending/_opened_at is the injected clock read in the same public method")
    for m in ("record_failure", "allow"):
        fi = prog.func(f"{CB}.{m}")
        for p in engine(prog).paths(fi):
            clocks = [e for e in p.events if e.kind == "call" and e.callback() == "clock"]
            rep.instance("R6.3", f"{m}|" + "|".join(p.describe()[-2:]))
            bad = None
            if len(clocks) != 1 or clocks[0].recv != SELF:
                bad = f"{len(clocks)} clock reads"
            else:
                now = clocks[0].result
                for e in p.events:
                    if e.kind == "call" and e.is_repo("CircuitBreaker._note_failure"):
                        nroles = param_roles(next(t.func for t in e.targets if t.func is not None))
                        if arg_of(e, nroles.get("now")) != now or arg_of(e, nroles.get("klass")) != ("param", "klass"):
                            bad = "_note_failure is not passed (klass, now)"
                    if e.kind == "store" and e.loc == attr(SELF, "_opened_at") and e.value not in (now, ("const", None)):
                        bad = f"_opened_at := {show(e.value)}"
            if bad:
                rep.fail("R6.3", f"{m}|clock|{bad[:40]}", f"CircuitBreaker.{m}: {bad}", where=fi.where(), function=fi.qual, path=p.describe())
            else:
                rep.ok("R6.3")
    rep.floor("R6.3", 8)


def run(rep: Report, prog: Program, tier: str) -> None:
    rep.explanation = (
        "circuit.py's public methods are loop-free critical sections: all their CFG paths are enumerated and the "
        "complete abstract transition table (state x inputs -> stores to _state/_opened_at/_probe_in_flight, calls of "
        "_note_failure/_clear_failures, returned event) is compared with the specified one. The counting helper is "
        "checked for shape: prune-then-append on the same container with the same clock reading before every len() "
        "that feeds the result, result in normal form, prune boundary operator pinned (age == window_s is expired), "
        "single owner of the containers. Paper step (not machine-checked): with these facts and non-decreasing clock "
        "readings the deque holds exactly the counted failures since the last transition with age < window_s."
    )
    rep.trusted_base = ["sa/paths.py path enumeration and linear normal form", "deque.append/popleft/clear contracts", "reference table sa/rules/breaker_table.py:reference"]
    rep.assumptions = ["recovery_timeout_s > 0 and thresholds >= 1 (validated in __init__)"]
    rep.not_decided = ["window arithmetic under out-of-order clock readings (clock is read before the lock is taken)", "float equality at the exact boundary beyond the pinned operator"]
    rep.rule("R6.1", "transition table of record_failure / record_success / record_cancel == specification (counted-class filter, open iff threshold reached, clear on transition, no effect while OPEN, successes while CLOSED change nothing)")
    check_method(rep, "R6.1", prog, "record_failure")
    check_method(rep, "R6.1", prog, "record_success")
    check_method(rep, "R6.1", prog, "record_cancel")
    rep.floor("R6.1", 18)
    check_note_failure(rep, prog)
    check_clock(rep, prog)
    check_constructor(rep, prog)


def check_constructor(rep: Report, prog: Program) -> None:
    """R6.4 - what counts: the configuration the rows of R6.1 read is the configuration the caller gave."""
    rep.rule("R6.4", "constructor: the counted classes are exactly the caller's trip_on (an explicitly empty set stays empty; {TRANSIENT, SERVER_ERROR} only for None) plus every class with a class threshold; thresholds, window and recovery timeout are stored unchanged; the breaker starts CLOSED with empty windows - decided by evaluating the stored terms for trip_on in {None, empty, {AUTH}}")
    from ..paths import CannotEval, evaluate, truth

    fi = prog.func(f"{CB}.__init__")
    rep.analysed(fi.qual)
    paths = [p for p in engine(prog).paths(fi) if p.exit[0] == "return"]
    if not paths:
        raise AnalysisError(f"{fi.qual}: no returning path")
    TP = ("param", "trip_on")
    cases = {"None": None, "empty": frozenset(), "{AUTH}": frozenset({"AUTH"})}
    want = {"None": frozenset({"TRANSIENT", "SERVER_ERROR"}), "empty": frozenset(), "{AUTH}": frozenset({"AUTH"})}
    decided = {k: 0 for k in cases}
    for p in paths:
        st = {e.loc[2]: e.value for e in p.stores() if e.loc[0] == "attr" and e.loc[1] == SELF}
        ups = [e for e in p.calls(pure=False) if _is_method(e, "update")]
        for cname, cval in cases.items():

            def leaf(t: Any, cval: Any = cval) -> Any:
                if t == TP:
                    return cval
                if t[0] == "enum":
                    return t[2]
                if t[0] == "set" or (t[0] == "tuple"):
                    return frozenset(evaluate(x, leaf) for x in t[1])
                if t[0] == "pure" and t[1] in ("set", "frozenset") and len(t[2]) == 1:
                    v = evaluate(t[2][0], leaf)
                    if v is None:
                        raise CannotEval()
                    return frozenset(v)
                if t[0] == "pure" and t[1] in ("set", "frozenset") and not t[2]:
                    return frozenset()
                raise CannotEval()

            feasible = True
            for a, pol, _ in p.conds:
                try:
                    if (a == TP and bool(cval) != pol) or (a != TP and contains_term(a, TP) and truth(a, leaf) != pol):
                        feasible = False
                        break
                except CannotEval:
                    continue
            if not feasible:
                continue
            decided[cname] += 1
            rep.instance("R6.4", f"__init__|trip_on={cname}")
            problem = None
            try:
                got = evaluate(st["_trip_on"], leaf) if "_trip_on" in st else None
            except CannotEval:
                got = None
            if got is not None and not isinstance(got, frozenset):
                got = None
            if got is not None:
                got = frozenset(x[2] if isinstance(x, tuple) and x and x[0] == "enum" else x for x in got)
            if got != want[cname]:
                problem = f"with trip_on={cname} the counted classes start as {sorted(got) if got is not None else show(st.get('_trip_on'))}, expected {sorted(want[cname])}"
            elif not any(e.recv == st["_trip_on"] and e.args and (_keys_of_thresholds(e.args[0]) or (_empty_collection(e.args[0]) and any(a == ("param", "class_thresholds") and pol is False for a, pol, _ in p.conds))) for e in ups):
                problem = "the classes that have a class threshold are not added to the counted classes (trip_on.update(class_thresholds.keys()))"
            else:
                for k, src in (("_failure_threshold", "failure_threshold"), ("_window_s", "window_s"), ("_recovery_timeout_s", "recovery_timeout_s"), ("_clock", "clock")):
                    if st.get(k) != ("param", src):
                        problem = f"`{k}` is stored as {show(st.get(k))}, not the caller's {src}"
                if st.get("_state") != ("enum", "CircuitState", "CLOSED") or st.get("_opened_at") != ("const", None) or st.get("_probe_in_flight") != ("const", False):
                    problem = problem or "the breaker does not start CLOSED / without an open timestamp / without a probe"
            if problem:
                rep.fail("R6.4", f"__init__|trip_on={cname}|{problem[:40]}", f"CircuitBreaker.__init__: {problem}", where=fi.where(), function=fi.qual, path=p.describe())
            else:
                rep.ok("R6.4")
    if not all(decided.values()):
        raise AnalysisError(f"R6.4: no constructor path decided for trip_on in {[k for k, v in decided.items() if not v]}")
    rep.floor("R6.4", 3)


def contains_term(t: Any, sub: Any) -> bool:
    from ..paths import contains

    return contains(t, sub)
