"""C07 - open breaker fails fast; recovery admits exactly one probe."""

from __future__ import annotations

import ast

from ..model import AnalysisError, Program
from ..report import Report
from .breaker_flow import ENTRY_POINTS, flow
from .breaker_table import CB, check_method
from .c08 import last_where, origin_of


def run(rep: Report, prog: Program, tier: str) -> None:
    rep.explanation = (
        "(a) The complete transition table of CircuitBreaker.allow and of the HALF_OPEN rows of record_success / "
        "record_failure / record_cancel is extracted from all CFG paths and compared with the specified table "
        "(reject while OPEN before the timeout, one probe after it, second probe rejected, success closes and clears, "
        "failure re-opens with a fresh timeout). (b) Typestate over the four Policy entry points: the operation / retry "
        "component is invoked only on the admitted edge of the admission test, a rejected call makes no breaker record "
        "and leaves by CircuitOpenError (call) or a not-ok outcome with attempts=0 (execute), only admitted calls talk to "
        "the breaker, and no await separates allow() from the test of its answer."
    )
    rep.trusted_base = ["sa/paths.py, sa/absint.py", "reference table sa/rules/breaker_table.py:reference"]
    rep.assumptions = ["recovery_timeout_s > 0 (validated in __init__)"]
    rep.not_decided = ["numeric `until recovery_timeout_s has elapsed` beyond the pinned >= operator", "thread interleavings (C17)"]
    rep.rule("R7.1", "transition table of allow() and of the OPEN / HALF_OPEN rows of record_*: == specification (while OPEN nothing a late-finishing call reports can change the state: only allow() after the timeout leaves OPEN)")
    check_method(rep, "R7.1", prog, "allow")
    for m in ("record_success", "record_failure", "record_cancel"):
        check_method(rep, "R7.1", prog, m, row_filter=lambda v: v["ST"] in ("HALF_OPEN", "OPEN"))
    rep.floor("R7.1", 12 + 2 * (1 + 4 + 1))

    rep.rule("R7.2", "the operation / retry component is invoked only when the call is admitted (or there is no breaker)")
    rep.rule("R7.3", "a rejected call makes no breaker record; call() leaves by CircuitOpenError, execute() returns ok=False with attempts=0")
    rep.rule("R7.4", "no suspension point between CircuitBreaker.allow() and the test of its answer")
    rep.rule("R7.5", "only admitted calls talk to the breaker (no record_* before admission)")
    F = flow(prog, "stated")
    rep.analysed(*sorted(F.interp.visited_funcs))
    n_rej = 0
    for q in ENTRY_POINTS:
        fi = prog.func(q)
        is_exec = q.endswith(".execute")
        for ex in F.exits[q]:
            adm, recs, flags = ex.cstate
            construct = f"{q}|{ex.how}:{ex.kind}|{adm}|{','.join(recs)}"
            rep.instance("R7.2", construct)
            opf = sorted(f for f in flags if f.startswith("operation-unadmitted"))
            if opf:
                for f in opf:
                    rep.fail("R7.2", f"{q.split(':')[1]}|{f}", f"{q}: operation reachable without admission ({f})", where=last_where(F, ex), function=q, path=F.witness(ex))
            else:
                rep.ok("R7.2")
            rf = sorted(f for f in flags if f.startswith("record-unadmitted"))
            rep.instance("R7.5", construct)
            if rf:
                for f in rf:
                    parts = f.split("|")
                    rep.fail("R7.5", f"{parts[1]}|{parts[2]}|{parts[4]}", f"{q}: breaker record `{parts[2]}` made while the call is {('rejected' if parts[1] == 'REJ' else 'not (yet) admitted')} ({parts[4]}) - it can clear another call's half-open probe slot", where=last_where(F, ex), function=q, path=F.witness(ex))
            else:
                rep.ok("R7.5")
            af = sorted(f for f in flags if f.startswith(("await-asked", "allow-twice")))
            rep.instance("R7.4", construct)
            if af or adm == "ASKED":
                rep.fail("R7.4", f"{q.split(':')[1]}|{af[0] if af else 'answer-not-tested'}", f"{q}: {'admission answer is never tested on this path' if not af else af[0]}", where=last_where(F, ex), function=q, path=F.witness(ex))
            else:
                rep.ok("R7.4")
            if adm == "REJ":
                n_rej += 1
                rep.instance("R7.3", construct)
                ok = not recs
                if is_exec:
                    rv = ex.retval
                    fields = dict(rv[2]) if rv is not None and rv[0] == "i" else {}
                    ok = ok and ex.how == "return" and fields.get("ok") == ("c", False) and fields.get("attempts") == ("c", 0)
                    want = "return RetryOutcome(ok=False, attempts=0)"
                else:
                    ok = ok and ex.how == "raise" and ex.kind == "CircuitOpenError"
                    want = "raise CircuitOpenError"
                if ok:
                    rep.ok("R7.3")
                else:
                    rep.fail("R7.3", f"{q.split(':')[1]}|rejected-exit|{ex.how}:{ex.kind}|recs={','.join(recs)}", f"{q}: a rejected call must {want} without a breaker record; found exit {ex.how} {ex.kind}, records {recs}, value {ex.retval}", where=last_where(F, ex), function=q, path=F.witness(ex))
    if n_rej < 4:
        raise AnalysisError(f"C07: only {n_rej} rejected exits found (expected one per entry point at least)")
    rep.floor("R7.2", 100)
    # the sugar reaches the operation only through the four entry points
    rep.rule("R7.6", "who-may-call: every call of CircuitBreaker.allow lies in a function covered by the admission typestate (reachable from the four entry points)")
    allowed = set(F.interp.visited_funcs)
    for fi in prog.funcs.values():
        if fi.module.name.startswith("redress.testing"):
            continue
        for n in prog._own_nodes(fi.node):
            if isinstance(n, ast.Call) and any(t.func is not None and t.func.qual == f"{CB}.allow" for t in prog.resolve_call(n, fi)):
                rep.instance("R7.6", f"allow-site|{fi.qual}")
                if fi.qual in allowed:
                    rep.ok("R7.6")
                else:
                    rep.fail("R7.6", f"allow-site|{fi.qual}", f"{fi.qual} calls CircuitBreaker.allow() outside the analysed entry points: an admission nobody settles", where=fi.where(n), function=fi.qual)
    rep.floor("R7.6", 1)  # at least one admission site exists (how many share it is the code's business)
    rep.rule("R7.7", "observing is not acting: CircuitBreaker.state is a pure read of _state (no store, no call besides the lock) - the policy layer reads it to label events - and _BreakerDecision is a transparent record")
    from .foundations import pure_property, records_transparent

    pure_property(rep, "R7.7", prog, CB, "state", "_state")
    records_transparent(rep, "R7.7", prog, ["redress.circuit:_BreakerDecision"])
    rep.floor("R7.7", 2)
    rep.rule("R7.8", "the probe's fate is reported truthfully: at every exit of an admitted call the single breaker record matches how the call ended - success closes the breaker, a failure re-opens it, an abort / cancellation only frees the slot (= C09 R9.1 / R9.2 on the same typestate)")
    from .c09 import record_by_outcome

    record_by_outcome(rep, "R7.8", "R7.8", prog)
    rep.floor("R7.8", 100)
