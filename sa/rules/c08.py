"""C08 - every admitted call settles the breaker (R8.1)."""

from __future__ import annotations

import ast

from ..model import Program
from ..report import Report
from .breaker_flow import ENTRY_POINTS, flow, FlowResult


def _origin(interp, widx, depth: int = 0) -> tuple[str, str]:
    steps = interp.witness_path(widx)
    origin = ("", "")
    prev = None
    for s in steps:
        if s[0] == "callee-exit" and s[2] == "raise" and s[4] is not None and depth < 12:
            inner = _origin(interp, s[4], depth + 1)
            if inner != ("", ""):
                origin = inner
        elif s[0] == "raise" and len(s) >= 5 and not s[4].startswith("reraise"):
            # a raise recorded at a call node right after that callee's exceptional exit is
            # only the propagation of the callee's exception
            if not (prev is not None and prev[0] == "callee-exit" and prev[2] == "raise"):
                origin = (s[3], s[4])
        prev = s
    return origin


def origin_of(F: FlowResult, ex) -> tuple[str, str]:
    """(function, event label) where the escaping exception was first raised"""
    return _origin(F.interp, ex.witness)


def last_where(F: FlowResult, ex) -> str:
    steps = F.interp.witness_path(ex.witness)
    for s in reversed(steps):
        if s[0] in ("raise", "branch", "call", "callback", "opaque-call"):
            return s[2] if s[0] != "branch" else s[3]
    return ""


def run(rep: Report, prog: Program, tier: str) -> None:
    rep.explanation = (
        "Typestate analysis over the exception-aware CFGs of Policy.call/execute and AsyncPolicy.call/execute "
        "(with summaries of their helpers in policy.py, async_policy.py, execution.py, policy_helpers.py): "
        "abstract state NotAsked/Asked/Admitted/Rejected x breaker records made; every exit of every entry "
        "point - normal return and each exceptional exit per exception kind - must be not-admitted or settled. "
        "Fault model: operation / retry component / every await may end in any exception kind; attempt hooks, "
        "classifier, abort_if and observability hooks may raise any Exception kind."
    )
    rep.trusted_base = [
        "CFG translation of try/except/else/finally, evaluation order (sa/cfg.py)",
        "exception-kind partition and CPython 3.12 subclass facts (sa/kinds.py)",
        "Retry/AsyncRetry.call/execute modelled as one event that may end in any kind",
    ]
    rep.assumptions = [
        "CircuitBreaker methods themselves do not raise (injected clock outside the fault model)",
        "KeyboardInterrupt delivered asynchronously between two bytecodes of the library itself is not modelled",
    ]
    rep.not_decided = ["nothing numeric; a leak is a path and all paths of the four entry points are enumerated"]
    rep.rule("R8.1", "at every exit of an entry point the call is not admitted, or the breaker has been told (>=1 record)")
    F = flow(prog, "stated")
    rep.analysed(*sorted(F.interp.visited_funcs))
    for q in ENTRY_POINTS:
        for ex in F.exits[q]:
            adm, recs, flags = ex.cstate
            construct = f"{q}|{ex.how}:{ex.kind}|{adm}|{','.join(recs)}"
            rep.instance("R8.1", construct + "|" + repr(ex.env)[:80], {"entry": q, "exit": f"{ex.how}:{ex.kind}", "admission": adm, "records": list(recs)})
            if adm in ("AD", "ASKED") and len(recs) == 0:
                fn, label = origin_of(F, ex)
                rep.fail(
                    "R8.1",
                    f"{q.split(':')[1]}|exit={ex.how}:{ex.kind}|origin={fn.split(':')[-1]}|{label}",
                    f"admitted call leaves {q.split(':')[1]} by {ex.how} {ex.kind or ''} without any breaker record "
                    f"(exception first raised at `{label}` in {fn.split(':')[-1]})",
                    where=last_where(F, ex),
                    function=q,
                    path=F.witness(ex),
                )
            else:
                rep.ok("R8.1")
    rep.floor("R8.1", 100)

    rep.rule("R8.2", "the library's own code between admission and settlement cannot raise: the built-in classifier the no-retry handlers call (default_classifier, reached through classify_for_breaker before record_failure) is total (= C19 R19.1 for that closure), and the entry points touch the user's operation only by calling it (no attribute access such as func.__name__ that may raise for partials / callables without the attribute)")
    from .c19 import totality

    totality(rep, "R8.2", prog, roots=["redress.classify:default_classifier"], min_ops=8)
    for q in ENTRY_POINTS:
        fi = prog.func(q)
        todo = [fi] + [m for m in fi.cls.methods.values() if m.name.startswith("_") and not m.name.startswith("__")] if fi.cls is not None else [fi]
        for fn in todo:
            pn = [a.arg for a in fn.params() if a.arg == "func"]
            if not pn:
                continue
            rep.instance("R8.2", f"{fn.qual}|operation-touched-only-by-call")
            bad = [n for n in prog._own_nodes(fn.node) if isinstance(n, ast.Attribute) and isinstance(n.value, ast.Name) and n.value.id == "func" and isinstance(n.ctx, ast.Load)]
            if bad:
                rep.fail("R8.2", f"{fn.qual}|attribute-of-operation|{bad[0].attr}", f"{fn.qual} reads `func.{bad[0].attr}` of the user's operation: for a functools.partial / callable object without that attribute this raises AttributeError inside the admitted region and the breaker is never told", where=fn.where(bad[0]), function=fn.qual)
            else:
                rep.ok("R8.2")
    rep.floor("R8.2", 12)
    rep.rule("R8.3", "telling the breaker settles the call: every record_success / record_failure / record_cancel made in HALF_OPEN releases the probe slot or leaves HALF_OPEN with it released (= the HALF_OPEN rows of C07 R7.1) - a probe whose failure is recorded but whose slot stays taken blocks every later call for ever")
    from .breaker_table import check_method

    for m in ("record_success", "record_failure", "record_cancel"):
        check_method(rep, "R8.3", prog, m, row_filter=lambda v: v["ST"] == "HALF_OPEN")
    rep.floor("R8.3", 3)
    # shared helpers merge call sites: the floors are the structural minimum (each kind of site exists), not today's count
    for k, n in (("allow", 1), ("record", 3), ("operation", 2), ("retry", 2)):
        if len(F.client.sites[k]) < n:
            from ..model import AnalysisError

            raise AnalysisError(f"C08: only {len(F.client.sites[k])} `{k}` sites found, at least {n} expected")
    rep.extra["sites"] = {k: sorted(v) for k, v in F.client.sites.items()}
    rep.extra["interp_stats"] = dict(F.interp.stats)
    if tier == "thorough":
        W = flow(prog, "wide")
        leaks = []
        for q in ENTRY_POINTS:
            for ex in W.exits[q]:
                adm, recs, flags = ex.cstate
                if adm in ("AD", "ASKED") and not recs:
                    leaks.append(f"{q.split(':')[1]} {ex.how}:{ex.kind} origin={origin_of(W, ex)}")
        rep.extra["wide_model_informational"] = {
            "model": "every callback, observability hooks included, may raise every kind (BaseException too)",
            "unsettled_exits": sorted(set(leaks)),
            "note": "outside the property's quantifier; listed for the reader, never a violation",
        }
