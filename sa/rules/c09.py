"""C09 - one breaker record per policy call, by final outcome, not per attempt."""

from __future__ import annotations

import ast

from ..ctx import engine
from ..model import AnalysisError, Program
from ..paths import show
from ..report import Report
from .breaker_flow import CANCELLATION, ENTRY_POINTS, RETRY_CLASSES, flow
from .c08 import last_where, origin_of
from .common import attr

LAYER_MODULES = [
    "redress.policy.state",
    "redress.policy.retry_helpers",
    "redress.policy.runner.logic",
    "redress.policy.runner.sync_core",
    "redress.policy.runner.async_core",
    "redress.policy.runner.sync_runner",
    "redress.policy.runner.async_runner",
    "redress.policy.runner.timeline",
    "redress.policy.retry_sync",
    "redress.policy.retry_async",
    "redress.policy.base",
    "redress.strategies",
    "redress.budget",
]
FORBIDDEN_MODULES = {"redress.circuit", "redress.policy.execution", "redress.policy.policy_helpers", "redress.policy.policy", "redress.policy.async_policy"}
FORBIDDEN_ATTRS = {"breaker", "circuit_breaker", "record_cancel"}


def run(rep: Report, prog: Program, tier: str) -> None:
    rep.explanation = (
        "Same settlement typestate as C08, now counting: no path of the four Policy entry points passes two breaker "
        "records, and the kind of the single record is tabulated against the way the call ends (return / exception kind "
        "for call(); ok / stop_reason of the returned outcome for execute()). Layering rule over the resolved program: "
        "nothing in the retry machinery (state, helpers, runners, Retry/AsyncRetry) references the breaker or the "
        "record helpers, so attempts are invisible to it. classify_for_breaker's two-row table is extracted."
    )
    rep.trusted_base = ["sa/absint.py typestate engine", "Retry.call/execute as one opaque event"]
    rep.assumptions = ["the user's classifier returns the same class for the same exception twice"]
    rep.not_decided = ["classifier determinism (the final failure is classified once by the loop and once for the breaker)"]
    rep.rule("R9.1", "exactly one breaker record on every path of an admitted call: never two, never none")
    rep.rule("R9.2", "the record kind matches the ending: return<->success; abort/cancellation kinds<->cancel; RetryExhaustedError / other Exception<->failure; execute: ok<->success, ABORTED<->cancel, else failure")
    record_by_outcome(rep, "R9.1", "R9.2", prog)
    rep.floor("R9.1", 100)
    rep.floor("R9.2", 40)
    rest(rep, prog)
    rep.rule("R9.6", "`exc.last_class or UNKNOWN` / `outcome.last_class or UNKNOWN` report the real class: every ErrorClass member is truthy (a plain Enum without __bool__ / zero values), and RetryOutcome / RetryExhaustedError-carrying records are transparent")
    from .foundations import enums_truthy, records_transparent

    enums_truthy(rep, "R9.6", prog, ["redress.errors:ErrorClass", "redress.errors:StopReason"])
    records_transparent(rep, "R9.6", prog, ["redress.policy.types:RetryOutcome"])
    rep.floor("R9.6", 3)
    rep.rule("R9.7", "the class the breaker is told for an exhausted call() is the final failure's class: the RetryExhaustedError the retry component raises carries last_class = state.last_class whatever caused the stop - exception or result, exhausted or deferred (= the last_class column of C04 R4.3; R9.4 then records exc.last_class)")
    from .c04 import scheduled_action_fields

    scheduled_action_fields(rep, "R9.7", prog, only=("last_class",))
    rep.floor("R9.7", 2)


def record_by_outcome(rep: Report, r1: str, r2: str, prog: Program) -> None:
    F = flow(prog, "stated")
    rep.analysed(*sorted(F.interp.visited_funcs))
    for q in ENTRY_POINTS:
        is_exec = q.endswith(".execute")
        short = q.split(":")[1]
        for ex in F.exits[q]:
            adm, recs, flags = ex.cstate
            construct = f"{q}|{ex.how}:{ex.kind}|{adm}|{','.join(recs)}|{repr(ex.retval)[:60]}"
            rep.instance(r1, construct, {"entry": q, "exit": f"{ex.how}:{ex.kind}", "records": list(recs)} if len(rep.samples) < 20 else None)
            if len(recs) > 1:
                rep.fail(r1, f"{short}|exit={ex.how}:{ex.kind}|records={','.join(recs)}", f"{q}: {len(recs)} breaker records {recs} on one path ending in {ex.how} {ex.kind or ''}", where=last_where(F, ex), function=q, path=F.witness(ex))
                continue
            if adm == "AD" and not recs:
                # exactly once = at most once (above) and at least once (the obligation C08 R8.1 owns, restated here)
                fn0, label0 = origin_of(F, ex)
                rep.fail(r1, f"{short}|exit={ex.how}:{ex.kind}|records=none", f"{q}: an admitted call ends by {ex.how} {ex.kind or ''} without reporting to the breaker (exception first raised at `{label0}` in {fn0})", where=last_where(F, ex), function=q, path=F.witness(ex))
                continue
            rep.ok(r1)
            if adm != "AD" or len(recs) != 1:
                continue
            got = recs[0]
            fn, label = origin_of(F, ex)
            want = None
            if not is_exec:
                if ex.how == "return":
                    want = "success"
                else:
                    from_op = "callback:operation" in label or "Retry.call" in label or "await" in label
                    if not from_op:
                        continue  # ended by a hook / classifier raising after the record: exactly-once only
                    if ex.kind in CANCELLATION:
                        want = "cancel"
                    elif ex.kind == "CircuitOpenError":
                        want = "cancel"  # a nested breaker rejected: not a failure of this dependency
                    else:
                        want = "failure"
            else:
                if ex.how == "return":
                    rv = ex.retval
                    fields = dict(rv[2]) if rv is not None and rv[0] == "i" else {}
                    okv = fields.get("ok")
                    sr = fields.get("stop_reason")
                    if okv in (("c", True), ("tr",)):
                        want = "success"
                    elif okv in (("c", False), ("fa",)):
                        want = "cancel" if sr == ("e", "StopReason", "ABORTED") else "failure"
                    else:
                        continue
                else:
                    from_op = "callback:operation" in label or "Retry.execute" in label or "await" in label
                    if not from_op:
                        continue
                    if ex.kind in CANCELLATION or ex.kind == "CircuitOpenError":
                        want = "cancel"
                    else:
                        want = "failure"
            rep.instance(r2, construct)
            if got == want:
                rep.ok(r2)
            else:
                rep.fail(r2, f"{short}|exit={ex.how}:{ex.kind}|recorded={got}|expected={want}", f"{q}: call ending in {ex.how} {ex.kind or ''} ({'value ' + repr(ex.retval)[:80] if ex.how == 'return' else 'raised at ' + label}) is recorded as `{got}`, expected `{want}`", where=last_where(F, ex), function=q, path=F.witness(ex))


def rest(rep: Report, prog: Program) -> None:
    # failure class passed to the breaker
    rep.rule("R9.4", "failure class provenance: RetryExhaustedError -> exc.last_class or UNKNOWN; other exceptions -> classify_for_breaker(exc, self.retry) = retry.classifier when a retry exists else default_classifier; execute+retry -> outcome.last_class or UNKNOWN")
    UNKNOWN = ("enum", "ErrorClass", "UNKNOWN")
    # Decided at the public entry points with the policy's private helpers inlined (whether a handler body lives in
    # `_handle_exhausted_call` or in the except clause itself makes no difference): every record_failure(ctx, K)
    # reached on any path - handler paths included - takes K from its designated source.
    from ..ctx import cfgs
    from ..paths import PathEngine, default_inline

    POLICY_CLASSES = ("redress.policy.policy:Policy", "redress.policy.async_policy:AsyncPolicy")
    eng = PathEngine(prog, cfgs(prog))
    base_inline = default_inline()

    def inline(fn) -> bool:
        if base_inline(fn):
            return True
        if fn.cls is None or not fn.name.startswith("_") or fn.name.startswith("__"):
            return False
        # a private helper of the policy classes, defined there or in a base class they inherit it from
        return fn.cls.qual in POLICY_CLASSES or any(prog.find_method(prog.cls(c), fn.name) is fn for c in POLICY_CLASSES)

    eng.inline = inline

    def raises(ev, cfg):
        if ev.kind != "call":
            return ()
        if ev.callback() == "operation":
            return ("OtherException", "AbortRetryError")
        if ev.is_repo("Retry.call") or ev.is_repo("Retry.execute"):
            return ("OtherException", "AbortRetryError", "RetryExhaustedError")
        if ev.is_repo(":classify_for_breaker"):
            return ("OtherException",)
        return ()

    RETRY = attr(("param", "self"), "retry")
    n_sites = {"exhausted": 0, "classified": 0, "outcome": 0, "unknown": 0}
    for cls in POLICY_CLASSES:
        for meth in ("call", "execute"):
            fi = prog.func(f"{cls}.{meth}")
            rep.analysed(fi.qual)
            seen: set = set()
            for p in eng.paths(fi, raises=raises, key="r9.4"):
                for r in [e for e in p.calls() if e.is_repo(":record_failure")]:
                    k = r.args[1] if len(r.args) > 1 else r.kwargs.get("klass")
                    site = (r.node.lineno, r.frames and r.frames[-1][1].lineno, show(k)[:60])
                    problem = None
                    if not r.args or not (isinstance(r.args[0], tuple) and (r.args[0][0] == "call" and "ExecutionContext.create" in str(r.args[0][2]))):
                        problem = f"record_failure is applied to {show(r.args[0]) if r.args else '?'}, not to this call's ExecutionContext"
                    elif k == UNKNOWN:
                        kind = "unknown"
                        # the constant is the fallback for a classifier that itself raised, nothing else
                        if not any(e.kind == "exc" and "classify_for_breaker" in e.label for e in p.events):
                            problem = "failure recorded with the constant class UNKNOWN although no classifier failed on this path"
                    elif isinstance(k, tuple) and k[0] == "call" and str(k[2]).endswith(":classify_for_breaker"):
                        kind = "classified"
                        cf = [e for e in p.calls() if e.result == k]
                        a0 = cf[0].args[0] if cf and cf[0].args else None
                        a1 = cf[0].args[1] if cf and len(cf[0].args) > 1 else None
                        retry_none = any(a == ("cmp", "is", RETRY, ("const", None)) and pol for a, pol, _ in p.conds)
                        if not (isinstance(a0, tuple) and a0[0] == "exc"):
                            problem = f"classify_for_breaker is applied to {show(a0)}, not to the exception being handled"
                        elif a0[1] in ("RetryExhaustedError", "AbortRetryError"):
                            problem = f"a {a0[1]} is classified as an ordinary failure"
                        elif not (a1 == RETRY or (a1 == ("const", None) and retry_none)):
                            problem = f"classify_for_breaker(exc, {show(a1)}): expected self.retry (the retry's own classifier decides)"
                    elif isinstance(k, tuple) and k[0] == "bool" and k[1] == "or" and len(k[2]) == 2 and k[2][1] == UNKNOWN and k[2][0][0] == "attr" and k[2][0][2] == "last_class":
                        src = k[2][0][1]
                        if src[0] == "exc" and src[1] == "RetryExhaustedError":
                            kind = "exhausted"
                        elif src[0] == "call" and "Retry.execute" in str(src[2]):
                            kind = "outcome"
                        else:
                            problem = f"failure class taken from {show(src)}.last_class; expected the RetryExhaustedError being handled / the retry outcome"
                    else:
                        problem = f"failure recorded with class {show(k)}; expected exc.last_class or UNKNOWN / classify_for_breaker(exc, self.retry) / outcome.last_class or UNKNOWN"
                    if site in seen and not problem:
                        continue
                    seen.add(site)
                    rep.instance("R9.4", f"{fi.qual}|{site[2]}|{site[0]}")
                    if problem:
                        rep.fail("R9.4", f"{fi.qual.split(':')[1]}|class|{problem[:40]}", f"{fi.qual}: {problem}", where=(r.cfg.func if r.cfg is not None else fi).where(r.node.ast), function=fi.qual, path=p.describe())
                    else:
                        n_sites[kind] += 1
                        rep.ok("R9.4")
    rep.extra["R9.4_sites"] = dict(n_sites)
    if n_sites["exhausted"] < 4 or n_sites["classified"] < 4 or n_sites["outcome"] < 2:
        raise AnalysisError(f"R9.4: record_failure sites found by source {n_sites}; expected >= 4 exhausted, >= 4 classified, >= 2 outcome")
    fi = prog.func("redress.policy.execution:classify_for_breaker")
    rep.analysed(fi.qual)
    for p in engine(prog).paths(fi):
        rv = p.exit[1] if p.exit[0] == "return" else None
        none_retry = any(a == ("cmp", "is", ("param", "retry"), ("const", None)) and pol for a, pol, _ in p.conds)
        rep.instance("R9.4", f"classify_for_breaker|retry_none={none_retry}", {"result": show(rv)})
        if none_retry:
            ok = rv is not None and rv[0] == "call" and str(rv[2]).endswith(":default_classifier")
        else:
            ok = rv is not None and rv[0] == "attr" and rv[2] == "klass" and rv[1][0] == "call" and str(rv[1][2]).endswith(":_normalize_classification")
            cls_calls = [e for e in p.calls() if e.callback() == "classifier"]
            ok = ok and len(cls_calls) == 1 and cls_calls[0].args == [("param", "exc")]
        if ok:
            rep.ok("R9.4")
        else:
            rep.fail("R9.4", f"classify_for_breaker|retry_none={none_retry}", f"classify_for_breaker returns {show(rv)} (retry is None: {none_retry})", where=fi.where(), function=fi.qual, path=p.describe())
    rep.floor("R9.4", 8)

    rep.rule("R9.5", "what the retry layer delivers is what the policy records: a run aborted by abort_if / AbortRetryError / a sleep handler's ABORT ends by AbortRetryError (call) or stop_reason ABORTED (execute), a deferral by RetryExhaustedError / SCHEDULED (= C13 R13.3, C16 R16.2)")
    rep.rule("R9.5a", "abort poll placement (re-run of C13 R13.1)")
    rep.rule("R9.5b", "abort poll before backoff (re-run of C13 R13.2)")
    rep.rule("R9.5c", "sleep protocol (re-run of C16 R16.1)")
    from .c13 import abort_flow
    from .c16 import sleep_protocol

    abort_flow(rep, "R9.5a", "R9.5b", "R9.5", prog)
    sleep_protocol(rep, "R9.5c", "R9.5", prog)

    rep.rule("R9.3", "layering (zero-count rule): nothing in the retry machinery references the breaker, ExecutionContext or the record_* helpers")
    for mn in LAYER_MODULES:
        m = prog.modules.get(mn)
        if m is None:
            raise AnalysisError(f"anchor vanished: module {mn}")
        rep.instance("R9.3", mn)
        hits = []
        for n in ast.walk(m.tree):
            if isinstance(n, ast.Attribute) and n.attr in FORBIDDEN_ATTRS:
                hits.append((n.lineno, "." + n.attr))
            elif isinstance(n, ast.ImportFrom):
                mod = prog._abs_import(m, n.level, n.module)
                if mod in FORBIDDEN_MODULES or any(f"{mod}.{a.name}" in FORBIDDEN_MODULES for a in n.names):
                    hits.append((n.lineno, f"import {mod}"))
                for a in n.names:
                    k, p = prog.module_symbol(mod, a.name) if mod in prog.modules else ("ext", None)
                    if k in ("func", "class") and p.module.name in FORBIDDEN_MODULES:
                        hits.append((n.lineno, f"import {a.name} (defined in {p.module.name})"))
            elif isinstance(n, ast.Import):
                for a in n.names:
                    if a.name in FORBIDDEN_MODULES:
                        hits.append((n.lineno, f"import {a.name}"))
        for fn in [f for f in prog.funcs.values() if f.module is m]:
            for n in prog._own_nodes(fn.node):
                if isinstance(n, ast.Call):
                    for t in prog.resolve_call(n, fn):
                        if t.func is not None and t.func.module.name in FORBIDDEN_MODULES:
                            hits.append((n.lineno, f"call {t.func.qual}"))
        if hits:
            for ln, what in hits[:3]:
                rep.fail("R9.3", f"{mn}|{what}", f"{mn} references `{what}`: a breaker interaction inside the retry machinery would be per attempt, not per call", where=f"{m.relpath}:{ln}", function=mn)
        else:
            rep.ok("R9.3")
    # positive example: the matcher must fire on the policy layer itself
    pos = prog.modules["redress.policy.policy"]
    if not any(isinstance(n, ast.ImportFrom) and prog._abs_import(pos, n.level, n.module) in FORBIDDEN_MODULES for n in ast.walk(pos.tree)):
        raise AnalysisError("R9.3 positive example (policy.py imports execution.py) no longer matches: recogniser out of date")
    rep.floor("R9.3", len(LAYER_MODULES))
