"""C10 - shared retry budget: at most max_retries retries per rolling window."""

from __future__ import annotations

import ast
from fractions import Fraction
from typing import Any

from ..ctx import engine
from ..model import AnalysisError, Program
from ..paths import linear, norm_less, show
from ..report import Report
from ..table import fmt_val
from .c06 import _is_method, window_shape
from .windows import WindowSpec, arg_of, loop_idioms, param_roles, prunes, unverified_loops
from .common import HANDLE_FAILURE, SELF, attr, exit_value, path_where, owned_by
from .breaker_table import is_lock_op
from .failure_table import failure_table

B = "redress.budget:Budget"
EV = attr(SELF, "_events")
MR = attr(SELF, "max_retries")
COST = ("param", "cost")


def is_monotonic(t: Any) -> bool:
    return isinstance(t, tuple) and t[0] == "call" and str(t[2]) == "lib:time.monotonic"


def run(rep: Report, prog: Program, tier: str) -> None:
    rep.explanation = (
        "Budget.consume/remaining are loop-light critical sections: all paths are enumerated. consume: cost < 1 rejected "
        "before any state access; then, in this order, one monotonic clock read, prune(now), the capacity test in linear "
        "normal form len(_events) + cost > max_retries -> False with no append, otherwise exactly `cost` appends of "
        "`now` (trip count of range(cost)) and True. prune pops from the left while _events[0] <= now - window_s and "
        "nothing else; _events has no other writer. The gate in the retry loop: the only consume() site on the run path "
        "is in _handle_failure, refused -> BUDGET_EXHAUSTED only, granted -> retry only (rows of the C03 table); the "
        "Budget object is stored by reference. Paper step: with these facts and non-decreasing readings, after each grant "
        "the deque is the multiset of grants of age < window_s and has <= max_retries elements."
    )
    rep.trusted_base = ["sa/paths.py", "deque contracts", "range(n) iterates n times"]
    rep.assumptions = ["max_retries >= 0 and window_s > 0 (validated in __init__)"]
    rep.not_decided = ["closed vs half-open interval at the exact boundary beyond the pinned <= operator", "out-of-order timestamps across threads (clock read before the lock)"]

    rep.rule("R10.1", "Budget.consume: reject cost<1 first; prune(now); full <=> len+cost > max_retries -> False, no append; else exactly `cost` appends of now -> True; remaining = max(max_retries - len, 0) after prune")
    budget_shape(rep, "R10.1", prog)
    rep.floor("R10.1", 4)
    rest(rep, prog)
    invariant(rep, prog)


def _now_of(e: Any) -> Any:
    fn = next((t.func for t in e.targets if t.func is not None), None)
    return arg_of(e, param_roles(fn).get("now")) if fn is not None else (e.args[0] if e.args else None)


SPEC = WindowSpec("Budget._prune", lambda e: EV, _now_of, attr(SELF, "window_s"))


def bulk_append(e: Any, p: Any) -> tuple | None:
    """`container.extend(<k copies of v>)`: (v, k) for `v for _ in range(k)` / `[v for _ in range(k)]` / `[v] * k`"""
    if not (_is_method(e, "extend") and len(e.args) == 1 and isinstance(e.node.ast, ast.Call) and e.node.ast.args):
        return None
    a = e.node.ast.args[0]
    if isinstance(a, (ast.GeneratorExp, ast.ListComp)) and len(a.generators) == 1 and not a.generators[0].ifs and isinstance(a.elt, ast.Name):
        it = a.generators[0].iter
        if isinstance(it, ast.Call) and isinstance(it.func, ast.Name) and it.func.id == "range" and len(it.args) == 1 and isinstance(it.args[0], ast.Name):
            tgt = a.generators[0].target
            if isinstance(tgt, ast.Name) and tgt.id != a.elt.id:
                return (p.local_at(e, a.elt.id) or ("param", a.elt.id), p.local_at(e, it.args[0].id) or ("param", it.args[0].id))
    t = e.args[0]
    if isinstance(t, tuple) and t[0] == "op" and t[1] == "*" and t[2][0] == "tuple" and len(t[2][1]) == 1:
        return (t[2][1][0], t[3])
    if isinstance(t, tuple) and t[0] == "pure" and t[1] == "itertools.repeat" and len(t[2]) == 2 and not t[3]:
        return (t[2][0], t[2][1])  # `extend(itertools.repeat(v, k))`
    return None


def budget_shape(rep: Report, rid: str, prog: Program) -> None:
    fi = prog.func(f"{B}.consume")
    rep.analysed(fi.qual)
    paths = engine(prog).paths(fi)
    top = engine(prog).cfgs.get(fi)
    idioms = loop_idioms(paths, top, SPEC.window)
    for bad in unverified_loops(idioms):
        rep.instance(rid, f"consume|while-loop@{bad.head}")
        rep.fail(rid, "consume|loop-shape", f"Budget.consume: a while loop is not the prune idiom: {bad.problem}", where=fi.where(top.nodes[bad.head].ast), function=fi.qual)
    n_full = n_grant = n_reject = 0
    for p in paths:
        if p.exit[0] == "loop" and p.exit[1] in idioms:
            continue  # one iteration of the inline prune loop: judged by loop_idioms
        construct = "|".join(p.describe()[-3:])
        rep.instance(rid, "consume|" + construct, {"path": p.describe()})
        imp = [e for e in p.events if e.kind == "call" and not e.pure]
        problem = None
        if p.exit[0] == "raise":
            n_reject += 1
            # cost < 1  <=>  not (1 <= cost): the only literal; no state access
            lits = [(a, pol) for a, pol, _ in p.conds]
            nf = norm_less(lits[0][0], lits[0][1], integer=True) if lits and lits[0][0][0] == "cmp" else None
            if not (len(lits) == 1 and nf is not None and dict(nf[1]) == {COST: -1} and nf[2] == 0 and nf[0] == ">=0") or imp or p.exit[1] != "ValueError":
                problem = f"rejection path: expected `cost < 1 -> ValueError` before any effect; found guards {[show(a) for a, _ in lits]}, effects {[e.label for e in imp]}, raises {p.exit[1]}"
        else:
            clocks = [e for e in imp if e.lib() == "time.monotonic"]
            prs = prunes(p, SPEC, idioms, top)
            apps = [e for e in imp if _is_method(e, "append")]
            bulk = [(e, bulk_append(e, p)) for e in imp if _is_method(e, "extend") and e.recv == EV and bulk_append(e, p) is not None]
            other = [e for e in imp if e not in clocks + [x.event for x in prs] + apps + [b[0] for b in bulk] and not is_lock_op(e)]
            if len(clocks) != 1 or len(prs) != 1 or other:
                problem = f"expected one time.monotonic(), one prune of the window; found clocks={len(clocks)} prunes={len(prs)} other={[e.label for e in other]}"
            else:
                now = clocks[0].result
                if prs[0].now != now or prs[0].container != EV:
                    problem = "prune is not given the clock reading of this call"
                withs = [e for e in p.events if e.kind == "with_enter" or (e.kind == "call" and is_lock_op(e) and e.node.ast.func.attr == "acquire")]
                if len(withs) != 1 or prs[0].index < p.index_of(withs[0]):
                    problem = problem or "prune/test/append are not inside one `with self._lock` block"
                # capacity literal
                cap = None
                for a, pol, _ in p.conds:
                    if a[0] == "cmp" and a[1] == "<":
                        ni = norm_less(a, pol, integer=True)
                        if ni is not None:
                            rel, terms, c = ni
                            td = dict(terms)
                            ln = ("pure", "len", (EV,), ())
                            if set(td) == {ln, COST, MR}:
                                if td[ln] == 1 and td[COST] == 1 and td[MR] == -1 and c == -1:
                                    cap = True  # full
                                elif td[ln] == -1 and td[COST] == -1 and td[MR] == 1 and c == 0:
                                    cap = False
                cost_ok = any(True for a, pol, _ in p.conds if a[0] == "cmp" and a[1] == "<" and norm_less(a, pol, True) is not None and dict(norm_less(a, pol, True)[1]) == {COST: 1} and norm_less(a, pol, True)[2] == -1)
                if not cost_ok:
                    problem = problem or "cost >= 1 is not established before the state is touched"
                if cap is None:
                    problem = problem or "capacity test is not `len(_events) + cost > max_retries`"
                elif cap:
                    n_full += 1
                    if apps or bulk or exit_value(p) != ("const", False):
                        problem = problem or f"full window must return False without recording; found appends={len(apps)}, result {show(p.exit[1])}"
                    if prs[0].index > max((i for i, it in enumerate(p.items) if it[0] == "cond" and it[3].info.get("loop_test_of") is None), default=0):
                        problem = problem or "capacity is tested before pruning"
                else:
                    n_grant += 1
                    its = [e for e in p.events if e.kind == "iter"]
                    trip = None
                    if its and its[0].recv[0] == "pure" and its[0].recv[1] == "range" and len(its[0].recv[2]) == 1:
                        trip = its[0].recv[2][0]
                    in_loop = bool(apps)
                    if exit_value(p) != ("const", True):
                        problem = problem or f"granted path returns {show(p.exit[1])}"
                    if bulk and not apps:
                        # the grant recorded in one call: exactly `cost` copies of this call's clock reading
                        if len(bulk) != 1 or bulk[0][1] != (now, COST):
                            problem = problem or f"the grant must record exactly `cost` entries of `now`; found extend of {[(show(b[1][0]), show(b[1][1])) for b in bulk]}"
                        in_loop, trip = True, COST
                        apps = []
                    if trip != COST:
                        problem = problem or f"appends are not made by a loop of exactly `cost` iterations (iterable {show(its[0].recv) if its else None})"
                    if in_loop and not bulk and (len(apps) != 1 or apps[0].recv != EV or apps[0].args != [now]):
                        problem = problem or "loop body must be exactly one self._events.append(now)"
                    if not in_loop and not p.truncated:
                        # the zero-iteration path of the loop (cost >= 1 makes it infeasible) - fine
                        pass
        if problem:
            rep.fail(rid, "consume|" + problem[:50], f"Budget.consume: {problem}", where=path_where(prog, fi.qual, p), function=fi.qual, path=p.describe())
        else:
            rep.ok(rid)
    if not (n_full >= 1 and n_grant >= 1 and n_reject == 1):
        rep.fail(rid, "consume|rows-missing", f"Budget.consume: expected a rejecting, a full and a granting path; found reject={n_reject} full={n_full} grant={n_grant}", where=fi.where(), function=fi.qual)
    fr = prog.func(f"{B}.remaining")
    rep.analysed(fr.qual)
    rpaths = engine(prog).paths(fr)
    rtop = engine(prog).cfgs.get(fr)
    ridioms = loop_idioms(rpaths, rtop, SPEC.window)
    for bad in unverified_loops(ridioms):
        rep.instance(rid, f"remaining|while-loop@{bad.head}")
        rep.fail(rid, "remaining|loop-shape", f"Budget.remaining: a while loop is not the prune idiom: {bad.problem}", where=fr.where(rtop.nodes[bad.head].ast), function=fr.qual)
    for p in rpaths:
        if p.exit[0] == "loop" and p.exit[1] in ridioms:
            continue
        imp = [e for e in p.events if e.kind == "call" and not e.pure]
        rep.instance(rid, "remaining", {"result": show(p.exit[1]) if p.exit[0] == "return" else str(p.exit)})
        want = ("pure", "max", (("op", "-", MR, ("pure", "len", (EV,), ())), ("const", 0)), ())
        want2 = ("pure", "max", (("const", 0), ("op", "-", MR, ("pure", "len", (EV,), ()))), ())
        prs = prunes(p, SPEC, ridioms, rtop)
        clocks = [e for e in imp if e.lib() == "time.monotonic"]
        rest_ev = [e for e in imp if e not in clocks and e not in [x.event for x in prs] and not is_lock_op(e)]
        val_ok = p.exit[0] == "return" and p.exit[1] in (want, want2)
        if p.exit[0] == "return" and not val_ok:
            # decided by value: max(max_retries - len, 0) for a window that is short of / exactly at / beyond capacity
            from ..paths import CannotEval, evaluate, truth

            LENT = ("pure", "len", (EV,), ())
            val_ok = True
            n_eval = 0
            for ln in (0, 3, 5, 7):

                def leafr(t: Any, ln: int = ln) -> Any:
                    if t == MR:
                        return 5
                    if t == LENT:
                        return ln
                    if t[0] == "pure" and t[1] in ("max", "min") and not t[3]:
                        vs = [evaluate(x, leafr) for x in t[2]]
                        return max(vs) if t[1] == "max" else min(vs)
                    if t[0] == "op" and t[1] in ("+", "-"):
                        a_, b_ = evaluate(t[2], leafr), evaluate(t[3], leafr)
                        return a_ + b_ if t[1] == "+" else a_ - b_
                    raise CannotEval()

                try:
                    if any(truth(a, leafr) != pol for a, pol, _ in p.conds if contains_any(a, (MR, LENT))):
                        continue
                    n_eval += 1
                    if evaluate(p.exit[1], leafr) != max(5 - ln, 0):
                        val_ok = False
                except CannotEval:
                    val_ok = False
            val_ok = val_ok and n_eval > 0
        ok = val_ok and len(clocks) == 1 and len(prs) == 1 and not rest_ev and prs[0].now == clocks[0].result and prs[0].container == EV and p.index_of(clocks[0]) < prs[0].index
        if ok:
            rep.ok(rid)
        else:
            rep.fail(rid, "remaining|shape", f"Budget.remaining: expected prune(now) then max(max_retries - len(_events), 0); found effects {[e.label for e in imp]} result {show(p.exit[1]) if p.exit[0]=='return' else p.exit}", where=fr.where(), function=fr.qual)


def rest(rep: Report, prog: Program) -> None:
    rep.rule("R10.2", "Budget._prune pops from the left while _events[0] <= now - window_s, nothing else; _events has no other writer; `now` is time.monotonic()")
    ci = prog.cls(B)
    if not window_shape(rep, "R10.2", prog, f"{B}._prune", EV, attr(SELF, "window_s")):
        # no prune helper: consume / remaining carry the loop themselves (verified by R10.1's loop_idioms)
        for m in ("consume", "remaining"):
            fm = prog.func(f"{B}.{m}")
            top = engine(prog).cfgs.get(fm)
            pm = engine(prog).paths(fm)
            ids = loop_idioms(pm, top, SPEC.window)
            rep.instance("R10.2", f"{m}|inline-prune-loop")
            # ... or they call a prune helper of another shape (a function / a method of the window), verified on its
            # own paths by windows.helper_prune_info
            by_helper = [p for p in pm if p.exit[0] == "return"] and all(any(x.how == "helper" and x.container == EV for x in prunes(p, SPEC, ids, top)) for p in pm if p.exit[0] == "return" and any(e.kind == "call" and not e.pure for e in p.events))
            if by_helper and not ids:
                rep.ok("R10.2")
            elif len(ids) == 1 and not unverified_loops(ids) and all(i.container == EV for i in ids.values()):
                rep.ok("R10.2")
            else:
                rep.fail("R10.2", f"{m}|inline-prune-loop", f"Budget.{m}: no prune helper and no verified inline prune loop over self._events ({[i.problem for i in ids.values()]})", where=fm.where(), function=fm.qual)
    for fn in prog.funcs.values():
        for n in prog._own_nodes(fn.node):
            if isinstance(n, ast.Attribute) and n.attr == "_events" and not fn.module.name.startswith("redress.strategies"):
                rep.instance("R10.2", f"_events-use|{fn.qual}")
                if fn.cls is not None and (fn.cls is ci or fn.cls in prog.mro(ci)) and (fn.name in ("__init__", "_prune", "consume", "remaining") or owned_by(prog, fn, (f"{B}.consume", f"{B}.remaining", f"{B}._prune"))):
                    rep.ok("R10.2")
                else:
                    rep.fail("R10.2", f"_events-use|{fn.qual}", f"{fn.qual} touches Budget._events", where=fn.where(n), function=fn.qual)
    rep.floor("R10.2", 5)

    rep.rule("R10.3", "gate in the loop: consume() only in _handle_failure; refused -> BUDGET_EXHAUSTED row only; granted -> retry row only; `retry` emit and the retry decision dominated by the granted edge when a budget exists; Budget stored by reference")
    sites = []
    for fn in prog.funcs.values():
        if fn.module.name.startswith(("redress.testing", "redress.cli")):
            continue
        for n in prog._own_nodes(fn.node):
            if isinstance(n, ast.Call) and any(t.func is not None and t.func.qual == f"{B}.consume" for t in prog.resolve_call(n, fn)):
                sites.append((fn, n))
    for fn, n in sites:
        rep.instance("R10.3", f"consume-site|{fn.qual}")
        if owned_by(prog, fn, HANDLE_FAILURE) and not n.args and not n.keywords:
            rep.ok("R10.3")
        else:
            rep.fail("R10.3", f"consume-site|{fn.qual}", f"{fn.qual} calls Budget.consume({ast.unparse(n)[:40]}): retries are granted (one token each) only in _handle_failure", where=fn.where(n), function=fn.qual)
    if not sites:
        raise AnalysisError("no Budget.consume site found on the run path")
    gate_rows(rep, "R10.3", prog)
    init = prog.func("redress.policy.base:_BaseRetryPolicy.__init__")
    rets = [q for q in engine(prog).paths(init) if q.exit[0] == "return"]
    # every constructed policy holds the caller's Budget object itself
    byref = bool(rets) and all([e.value for e in q.stores() if e.loc == attr(SELF, "budget")] == [("param", "budget")] for q in rets)
    rep.instance("R10.3", "budget-by-reference")
    if byref:
        rep.ok("R10.3")
    else:
        rep.fail("R10.3", "budget-by-reference", "_BaseRetryPolicy.__init__ does not store the Budget object itself (self.budget = budget): a copy is not shared", where=init.where(), function=init.qual)
    # no other writer of .budget
    for fn in prog.funcs.values():
        for n in prog._own_nodes(fn.node):
            if isinstance(n, ast.Attribute) and n.attr == "budget" and isinstance(n.ctx, ast.Store) and fn.qual != init.qual:
                rep.instance("R10.3", f"budget-writer|{fn.qual}")
                rep.fail("R10.3", f"budget-writer|{fn.qual}", f"{fn.qual} re-binds `.budget`", where=fn.where(n), function=fn.qual)
    rep.floor("R10.3", 1000)
    rep.rule("R10.3b", "a Budget assigned after construction through the sugar objects (policy.budget = shared) reaches the retry component that consults it (= C12 R12.5): sharing cannot be lost on the way")
    from .c12 import sugar_setattr

    sugar_setattr(rep, "R10.3b", prog)
    rep.floor("R10.3b", 8)


def gate_rows(rep: Report, rid: str, prog: Program) -> None:
    """rows of the _handle_failure table that involve the budget: a token is spent exactly for a granted retry"""
    T = failure_table(prog)
    bad = set()
    for val, outs in T.rows:
        for o, ps in outs.items():
            rep.instance(rid, "row|" + fmt_val(val))
            problem = None
            if val["budget_set"] and o.decision == "retry" and o.n_consume != 1:
                problem = "retry granted with a budget present but no token consumed"
            elif o.n_consume == 1 and not val["budget_ok"] and (o.decision != "raise" or o.reasons != ("BUDGET_EXHAUSTED",)):
                problem = f"refused token but decision {o.decision} {o.reasons}"
            elif o.n_consume == 1 and val["budget_ok"] and o.decision != "retry":
                problem = f"token granted and spent, yet no retry follows ({o.decision} {o.reasons})"
            elif not val["budget_set"] and o.n_consume:
                problem = "consume called without a budget"
            elif o.reasons == ("BUDGET_EXHAUSTED",) and (not val["budget_set"] or val["budget_ok"]):
                problem = "BUDGET_EXHAUSTED reported although the budget did not refuse"
            if problem and problem not in bad:
                bad.add(problem)
                rep.fail(rid, "gate|" + problem[:50], f"_handle_failure [{fmt_val(val)}]: {problem}", where=path_where(prog, HANDLE_FAILURE, ps[0]), function=HANDLE_FAILURE, path=ps[0].describe())
            elif not problem:
                rep.ok(rid)


def invariant(rep: Report, prog: Program) -> None:
    """R10.4 - the counting argument, machine-checked as a linear implication per path.

    Inductive invariant  I: len(_events) <= max_retries.
      base      __init__ leaves an empty deque and rejects max_retries < 0 (and window_s <= 0);
      step      on every returning path of consume():  L_end = L_test + (appends per iteration) * (trip count),
                where L_test = len(_events) as read by the capacity test (after the prune, which only pops);
                I is preserved iff  max_retries - L_end >= 0  follows from the path's own literals
                (it must be *the* granting literal) or no append happens at all.
    Together with R10.2 (entries leave the deque only when older than the window, nothing else removes or
    rewrites them) every grant of age < window_s is still in the deque, hence #grants in any window <= max_retries.
    """
    rep.rule("R10.4", "inductive invariant len(_events) <= max_retries: established by __init__ (empty deque, max_retries >= 0, window_s > 0) and preserved by every path of consume() as a linear consequence of that path's own capacity literal")
    init = prog.func(f"{B}.__init__")
    rep.analysed(init.qual)
    MRP, WSP = ("param", "max_retries"), ("param", "window_s")
    rows = {"max_retries<0": False, "window_s<=0": False, "ok": False}
    for p in engine(prog).paths(init):
        lits = []
        for a, pol, _ in p.conds:
            nf = norm_less(a, pol, integer=False) if a[0] == "cmp" and a[1] == "<" else None
            lits.append(nf)
        if p.exit[0] == "raise" and p.exit[1] == "ValueError" and not any(e.kind == "store" for e in p.events):
            for nf in lits:
                if nf and dict(nf[1]) == {MRP: -1} and nf[2] == 0 and nf[0] == ">0":
                    rows["max_retries<0"] = True
                if nf and dict(nf[1]) == {WSP: -1} and nf[2] == 0 and nf[0] == ">=0":
                    rows["window_s<=0"] = True
        elif p.exit[0] == "return":
            st = {e.loc: e.value for e in p.stores()}
            ev0 = st.get(EV)
            empty = isinstance(ev0, tuple) and ev0[0] == "pure" and "deque" in str(ev0[1]) and not ev0[2]
            if not empty and isinstance(ev0, tuple) and ev0[0] == "pure" and str(ev0[1]).startswith("new ") and not ev0[2] and not ev0[3]:
                # a deque subclass of the repository without a constructor of its own, built without arguments
                cs = [c for c in prog.classes.values() if c.name == ev0[1][4:]]
                empty = len(cs) == 1 and any(isinstance(b, str) and b.split(".")[-1] == "deque" for k in prog.mro(cs[0]) for b in prog.bases(k)) and not any("__init__" in k.methods or "__new__" in k.methods for k in prog.mro(cs[0]))
            if st.get(MR) == MRP and st.get(attr(SELF, "window_s")) == WSP and empty:
                rows["ok"] = True
    for k, v in rows.items():
        rep.instance("R10.4", f"__init__|{k}")
        if v:
            rep.ok("R10.4")
        else:
            rep.fail("R10.4", f"__init__|{k}", f"Budget.__init__: expected row `{k}` (reject max_retries < 0 and window_s <= 0 with ValueError before any store; otherwise store both unchanged and start from an empty deque)", where=init.where(), function=init.qual)
    fi = prog.func(f"{B}.consume")
    paths = engine(prog).paths(fi)
    top = engine(prog).cfgs.get(fi)
    idioms = loop_idioms(paths, top, SPEC.window)
    LEN = ("pure", "len", (EV,), ())
    n = 0
    for p in paths:
        if p.exit[0] != "return" or (p.exit[0] == "loop"):
            continue
        apps = [e for e in p.events if e.kind == "call" and _is_method(e, "append") and e.recv == EV]
        its = [e for e in p.events if e.kind == "iter" and e.value != "zero"]
        n += 1
        construct = "consume|" + "|".join(p.describe()[-3:])[:120]
        rep.instance("R10.4", construct)
        bulk = [bulk_append(e, p) for e in p.events if e.kind == "call" and _is_method(e, "extend") and e.recv == EV]
        helper_prunes = [x.event for x in prunes(p, SPEC, idioms, top) if x.how == "helper"]
        other_growth = [e for e in p.events if e.kind == "call" and not e.pure and e.recv == EV and e not in helper_prunes and not _is_method(e, "append") and not _is_method(e, "popleft") and not (_is_method(e, "extend") and bulk_append(e, p) is not None)]
        if other_growth:
            rep.fail("R10.4", "consume|growth", f"Budget.consume: _events is changed by {[e.label for e in other_growth]}", where=path_where(prog, fi.qual, p), function=fi.qual, path=p.describe())
            continue
        if not apps and not bulk:
            rep.ok("R10.4")  # L_end <= L_test <= L_0 <= max_retries
            continue
        # growth = (#appends in one iteration) * trip count of the enclosing range(...) loop
        trip = None
        if len(its) == 1 and its[0].recv[0] == "pure" and its[0].recv[1] == "range" and len(its[0].recv[2]) == 1:
            trip = its[0].recv[2][0]
        if bulk and not apps and len(bulk) == 1 and bulk[0] is not None:
            trip, apps = bulk[0][1], [None]
        if trip is None:
            rep.fail("R10.4", "consume|growth-unknown", "Budget.consume: appends are not made by a single `for _ in range(n)` loop: growth of the window cannot be bounded", where=path_where(prog, fi.qual, p), function=fi.qual, path=p.describe())
            continue
        lt = linear(trip)
        if lt is None:
            rep.fail("R10.4", "consume|growth-nonlinear", f"Budget.consume: trip count {show(trip)} is not linear", where=path_where(prog, fi.qual, p), function=fi.qual)
            continue
        # goal: MR - LEN - len(apps)*trip >= 0
        goal_c = -len(apps) * lt[0]
        goal = {MR: Fraction(1), LEN: Fraction(-1)}
        for k, v in lt[1].items():
            goal[k] = goal.get(k, 0) - len(apps) * v
        goal = {k: v for k, v in goal.items() if v != 0}
        implied = False
        for a, pol, _ in p.conds:
            ni = norm_less(a, pol, integer=True) if a[0] == "cmp" and a[1] == "<" else None
            if ni is None:
                continue
            rel, terms, c = ni
            if rel == ">=0" and dict(terms) == goal and c <= goal_c:
                implied = True  # literal: goal - (goal_c - c) >= 0 with goal_c - c >= 0
        if implied:
            rep.ok("R10.4")
        else:
            rep.fail("R10.4", "consume|invariant-not-preserved", f"Budget.consume: a granting path appends {len(apps)} x {show(trip)} entries but `len(_events) + {len(apps)}*{show(trip)} <= max_retries` does not follow from the tests on that path: the window can exceed max_retries", where=path_where(prog, fi.qual, p), function=fi.qual, path=p.describe())
    if n < 2:
        raise AnalysisError("R10.4: fewer than two returning paths in Budget.consume")
    rep.floor("R10.4", 5)

    rep.rule("R10.6", "no token is spent on a retry that cannot happen: every time-independent stop test of _handle_failure - including the global attempt cap `attempt >= max_attempts` - comes before budget.consume() (= C03 R3.4)")
    from .c03 import check_failure_table
    from .common import RuleView

    check_failure_table(RuleView(rep, "R10.6", only=("R3.4",)), prog)
    rep.instance("R10.6", "_handle_failure|stop-tests-before-consume")
    rep.ok("R10.6")
    rep.floor("R10.6", 1)
    from .common import forwarding_slice

    forwarding_slice(rep, "R10.5", prog, ("budget",), "the shared budget the caller configured is the budget that is charged: `budget` reaches every retry component unchanged through decorator, sugar classes and from_config (= the budget obligations of C12 R12.3)")


def contains_any(t: Any, subs: tuple) -> bool:
    from ..paths import contains

    return any(contains(t, x) for x in subs)
