"""C11 - execute() returns a faithful RetryOutcome and does not raise for failures."""

from __future__ import annotations

import ast
from typing import Any

from ..absint import Event
from ..ctx import engine
from ..model import AnalysisError, Program
from ..paths import CannotEval, SymPath, evaluate, feasible_paths, show
from ..report import Report
from .common import is_attempt_no, is_loop_var, HELPERS, LOGIC, RUNNERS, attr, ctor_args, enum_name
from .runner_flow import ALL_KINDS, EXC_KINDS, RunnerClient, flag1, run_runners, short_witness

CANCEL = ("CancelledError", "KeyboardInterrupt", "SystemExit", "GeneratorExit", "OtherBase")
USER_LOGIC = ("strategy", "classifier", "sleeper", "sleep_handler")


class EscapeClient(RunnerClient):
    """remembers where the exception in flight was raised"""

    name = "escape-set"
    fault = {
        "operation": ALL_KINDS,
        "strategy": ("OtherException",),
        "classifier": ("OtherException",),
        "sleeper": ("OtherException",),
        "sleep_handler": ("OtherException",),
        # observability hooks may fail too: their exceptions must never leave execute() (they are not in USER_LOGIC)
        "before_sleep": ("OtherException",),
        "on_metric": ("OtherException",),
        "on_log": ("OtherException",),
    }
    await_fault = ("CancelledError", "GeneratorExit")

    def initial(self) -> Any:
        return None

    def on_event_exc(self, ev: Event, cs: Any, kind: str) -> Any:
        if ev.kind == "call" and ev.target is not None:
            if ev.target.kind == "callback":
                return ev.target.category
            if self.is_operation(ev) or (ev.target.name or "").endswith(".submit().result"):
                return "operation"
            return f"lib:{ev.target.name}"
        if ev.kind == "await":
            return "await:" + (ev.category or "suspension")
        return cs

    def on_event(self, ev: Event, cs: Any) -> Any:
        if ev.kind == "raise" and ev.node.info["exc"] is not None:
            return f"explicit:{ev.func.qual.split(':')[-1]}:{ast.unparse(ev.node.info['exc'])[:50]}"
        return cs


def check_escape(rep: Report, prog: Program) -> None:
    rep.rule("R11.1", "escape set of execute(): only cancellation-type kinds (any origin), a RetryExhaustedError raised by the operation itself, and exceptions raised by the caller's own strategy / classifier / sleeper / sleep handler leave the runner")
    res = run_runners(prog, lambda: EscapeClient(prog), which=("sync_execute", "async_execute"))
    n = 0
    for name, (interp, exits, client) in res.items():
        q = RUNNERS[name]
        rep.analysed(*interp.visited_funcs)
        for ex in exits:
            if ex.how != "raise":
                continue
            n += 1
            origin = ex.cstate or "?"
            construct = f"{name}|{ex.kind}|origin={origin}"
            rep.instance("R11.1", construct, {"runner": q, "kind": ex.kind, "origin": origin})
            base = origin.split(":")[0]
            allowed = (
                ex.kind in CANCEL
                or (ex.kind == "RetryExhaustedError" and origin in ("operation", "await:operation"))
                or origin in USER_LOGIC
                or (base == "await" and origin.split(":")[1] in USER_LOGIC)
            )
            if allowed:
                rep.ok("R11.1")
            else:
                rep.fail("R11.1", f"{name}|{ex.kind}|origin={origin}", f"{q}: execute() raises {ex.kind} originating at {origin} instead of reporting it in the outcome", where=prog.func(q).where(), function=q, path=short_witness(interp, ex))
    # ... and the converse for the one kind that *must* leave: a RetryExhaustedError raised by the operation (a nested
    # policy's call() giving up) is not a failure of this run to classify and retry
    for name, (interp, exits, client) in res.items():
        q = RUNNERS[name]
        rep.instance("R11.1", f"{name}|RetryExhaustedError from the operation propagates")
        if any(ex.how == "raise" and ex.kind == "RetryExhaustedError" and (ex.cstate or "") in ("operation", "await:operation") for ex in exits):
            rep.ok("R11.1")
        else:
            rep.fail("R11.1", f"{name}|nested-exhaustion-folded", f"{q}: a RetryExhaustedError raised by the operation itself never leaves execute(): it is caught and handled as an attempt failure (classified, retried, folded into the outcome)", where=prog.func(q).where(), function=q)
    if n < 8:
        raise AnalysisError(f"R11.1: only {n} exceptional exits explored")
    # no-retry execute (Policy / AsyncPolicy): only the operation raises
    kinds = ("OtherException", "TimeoutError", "AbortRetryError", "CircuitOpenError", "RetryExhaustedError", "KeyboardInterrupt", "CancelledError", "GeneratorExit")

    def raises(ev, cfg):
        if ev.kind == "call" and ev.callback() == "operation" and not ev.awaited:
            return kinds
        if ev.kind == "await" and ev.label.startswith("await func("):
            return kinds
        return ()

    for q in ("redress.policy.policy:Policy._execute_without_retry", "redress.policy.async_policy:AsyncPolicy._execute_without_retry"):
        fi = prog.func(q)
        rep.analysed(q)
        seen = set()
        for p in engine(prog).paths(fi, raises=raises, key="c11-noretry"):
            src = [e.value for e in p.events if e.kind == "exc"]
            if not src:
                continue
            k = src[0]
            seen.add(k)
            rep.instance("R11.1", f"{q.split(':')[1]}|operation raises {k}|{p.exit[0]}")
            if k in CANCEL:
                ok = p.exit[0] == "raise" and p.exit[1] == k
                want = f"propagate {k}"
            elif k == "RetryExhaustedError":
                ok = p.exit[0] == "return" or (p.exit[0] == "raise" and p.exit[1] == k)  # a nested policy's error may propagate
                want = "return an outcome or propagate it"
            else:
                ok = p.exit[0] == "return"
                want = "return an outcome"
            if ok:
                rep.ok("R11.1")
            else:
                rep.fail("R11.1", f"{q.split(':')[1]}|no-retry|{k}|{p.exit[0]}", f"{q}: when the operation raises {k} execute() must {want}; found {p.exit[0]} {p.exit[1] if p.exit[0] == 'raise' else ''}", where=fi.where(), function=q, path=p.describe())
        if len(seen) < len(kinds):
            raise AnalysisError(f"{q}: operation invocation not found / kinds explored {sorted(seen)}")


def check_build_outcome(rep: Report, prog: Program) -> None:
    rep.rule("R11.2", "_build_outcome field table: ok -> value only; not ok -> stop_reason/last_class/cause from the state, last_exception iff cause is 'exception', last_result iff cause is 'result'; attempts/next_sleep_s/timeline passed through")
    fi = prog.func(f"{HELPERS}:_build_outcome")
    rep.analysed(fi.qual)
    paths = engine(prog).paths(fi)
    st = ("param", "state")
    fields = ["ok", "value", "stop_reason", "attempts", "last_class", "last_exception", "last_result", "cause", "elapsed_s", "next_sleep_s", "timeline"]
    for ok in (True, False):
        for cause in ("exception", "result", None):
            def leaf(t, ok=ok, cause=cause):
                if t == ("param", "ok"):
                    return ok
                if t == attr(st, "last_cause"):
                    return cause
                if t[0] in ("param", "attr"):
                    return ("sym", show(t))
                raise CannotEval()

            fp = feasible_paths(paths, leaf)
            construct = f"ok={ok}|cause={cause}"
            rep.instance("R11.2", construct)
            if len(fp) != 1 or fp[0].exit[0] != "return":
                rep.fail("R11.2", f"_build_outcome|{construct}|paths={len(fp)}", f"_build_outcome [{construct}]: {len(fp)} feasible paths", where=fi.where(), function=fi.qual)
                continue
            d = ctor_args(fp[0].exit[1], "RetryOutcome", fields)
            if d is None:
                rep.fail("R11.2", f"_build_outcome|{construct}|not-an-outcome", f"_build_outcome returns {show(fp[0].exit[1])}", where=fi.where(), function=fi.qual)
                continue
            got = {}
            for k, v in d.items():
                try:
                    got[k] = evaluate(v, leaf)
                except CannotEval:
                    got[k] = ("sym", show(v))
            S = lambda x: ("sym", x)  # noqa: E731
            want = {
                "ok": ok,
                "value": S("value") if ok else None,
                "stop_reason": None if ok else S("state.last_stop_reason"),
                "attempts": S("attempts"),
                "last_class": None if ok else S("state.last_class"),
                "last_exception": S("state.last_exc") if (not ok and cause == "exception") else None,
                "last_result": S("state.last_result") if (not ok and cause == "result") else None,
                "cause": None if ok else cause,
                "next_sleep_s": S("next_sleep_s"),
                "timeline": S("timeline"),
            }
            bad = {k: (got.get(k), w) for k, w in want.items() if got.get(k) != w}
            if bad:
                rep.fail("R11.2", f"_build_outcome|{construct}|{sorted(bad)[0]}", f"_build_outcome [{construct}]: field(s) differ (found, expected): {bad}", where=fi.where(), function=fi.qual)
            else:
                rep.ok("R11.2")
    rep.floor("R11.2", 6)
    # _abort_outcome / build_* wrappers pass their arguments through
    bo_defaults = {k: ("const", d.value) for k, d in prog.func(f"{HELPERS}:_build_outcome").param_defaults().items() if isinstance(d, ast.Constant)}

    def with_defaults(kws: dict) -> dict:
        # an argument spelled out with the callee's own default is the same call
        return {**bo_defaults, **kws}

    for q, kw in (
        (f"{HELPERS}:_abort_outcome", {"ok": ("const", False), "value": ("const", None), "state": ("param", "state"), "attempts": ("param", "attempts"), "timeline": ("param", "timeline")}),
        (f"{LOGIC}:build_exhausted_outcome", {"ok": ("const", False), "value": ("const", None), "state": ("param", "state"), "attempts": ("param", "attempts"), "timeline": ("param", "timeline")}),
        (f"{LOGIC}:build_scheduled_outcome", {"ok": ("const", False), "value": ("const", None), "state": ("param", "state"), "attempts": ("param", "attempts"), "next_sleep_s": ("param", "next_sleep_s"), "timeline": ("param", "timeline")}),
        (f"{LOGIC}:build_success_outcome", {"ok": ("const", True), "value": ("param", "result"), "state": ("param", "state"), "attempts": ("param", "attempts"), "timeline": ("param", "timeline")}),
    ):
        if q not in prog.funcs and q.endswith((":build_scheduled_outcome", ":build_success_outcome")):
            continue  # two convenience wrappers the runners need not use (unused on the pinned tree): gone is fine
        f2 = prog.func(q)
        rep.analysed(q)
        for p in engine(prog).paths(f2):
            calls = [e for e in p.calls() if e.is_repo(":_build_outcome")]
            rep.instance("R11.2", f"{q.split(':')[1]}|{len(calls)}")
            if len(calls) == 1 and with_defaults(calls[0].kwargs) == with_defaults(kw) and p.exit == ("return", calls[0].result):
                rep.ok("R11.2")
            else:
                rep.fail("R11.2", f"{q.split(':')[1]}|passthrough", f"{q}: expected return _build_outcome({', '.join(k + '=' + show(v) for k, v in kw.items())}); found {[(k, show(v)) for c in calls for k, v in c.kwargs.items()]}", where=f2.where(), function=q)


def check_runner_fields(rep: Report, prog: Program) -> None:
    rep.rule("R11.3", "execute runners: `attempts` is set to the loop variable before the operation is invoked, has no other writer than its 0 initialisation, and every outcome construction passes it")
    rep.rule("R11.4", "ok=True only on the success edge, with value = the invocation result; every other outcome site passes ok=False")
    rep.rule("R11.5", "next_sleep_s is non-None only as `outcome.sleep_s if outcome.decision is SCHEDULED else None`")
    builders = (":_build_outcome", ":_abort_outcome", ":build_exhausted_outcome", ":build_scheduled_outcome", ":build_success_outcome", ":handle_abort_in_execute")
    for name in ("sync_execute", "async_execute"):
        q = RUNNERS[name]
        fi = prog.func(q)
        rep.analysed(q)
        # writers of `attempts`
        writers = [n for n in prog._own_nodes(fi.node) if isinstance(n, ast.Name) and n.id == "attempts" and isinstance(n.ctx, ast.Store)]
        rep.instance("R11.3", f"{name}|writers={len(writers)}")
        if len(writers) != 2:
            rep.fail("R11.3", f"{name}|attempts-writers", f"{q}: `attempts` has {len(writers)} writers (expected: the 0 initialisation and `attempts = attempt`)", where=fi.where(), function=q)
        else:
            rep.ok("R11.3")

        def raises(ev, cfg):
            if ev.kind == "call" and (ev.callback() == "operation" or ev.is_repo(":_call_with_timeout")):
                return ("OtherException", "AbortRetryError")
            if ev.kind == "call" and ev.is_repo("_RetryState.check_abort"):
                return ("AbortRetryError",)
            if ev.kind == "await" and "func()" in ev.label:
                return ("OtherException", "AbortRetryError")
            return ()

        # the two thin wrappers of `_build_outcome` that logic.py offers are read through (a runner may build its
        # outcomes through them): the obligations below are stated on the `_build_outcome` call they make
        eng = engine(prog)
        inline0 = eng.inline
        eng.inline = lambda f, inline0=inline0: bool(inline0 and inline0(f)) or f.qual.endswith((":build_success_outcome", ":build_scheduled_outcome"))
        try:
            paths = eng.paths(fi, raises=raises, key="c11")
        finally:
            eng.inline = inline0
        n_sites = 0
        for p in paths:
            invoked = None
            for it in p.items:
                if it[0] != "ev":
                    continue
                e = it[1]
                if e.kind == "call" and (e.callback() == "operation" or e.is_repo(":_call_with_timeout")):
                    invoked = e
                    av = current_local(p, e, "attempts")
                    rep.instance("R11.3", f"{name}|at-invocation|{show(av)}")
                    # ... and nothing that can raise (a hook, the abort poll) lies between counting the attempt and
                    # invoking the operation: `attempts` counts invocations, not intentions
                    idx_inv = p.index_of(e)
                    idx_set = max((i for i, it2 in enumerate(p.items[:idx_inv]) if it2[0] == "ev" and it2[1].kind == "lstore" and it2[1].loc == ("local", "attempts")), default=-1)
                    between = [it2[1] for it2 in p.items[idx_set + 1 : idx_inv] if it2[0] == "ev" and it2[1].kind in ("call", "await") and not (it2[1].kind == "call" and it2[1].pure)]
                    if is_attempt_no(av, p) and between:
                        rep.fail("R11.3", f"{name}|attempts-before|{between[0].label[:40]}", f"{q}: `attempts` is advanced before `{between[0].label}`; if that raises, the outcome counts an attempt whose operation was never invoked", where=f"{fi.module.relpath}:{between[0].lineno}", function=q, path=p.describe())
                    elif is_attempt_no(av, p):
                        rep.ok("R11.3")
                    else:
                        rep.fail("R11.3", f"{name}|attempts-at-invocation", f"{q}: when the operation is invoked `attempts` is {show(av)}, not the loop variable (an attempt that raises would not be counted)", where=f"{fi.module.relpath}:{e.lineno}", function=q, path=p.describe())
                if e.kind == "call" and any(e.is_repo(b) for b in builders):
                    n_sites += 1
                    a = e.kwargs.get("attempts")
                    if a is None:
                        pos = {":_abort_outcome": 1, ":build_exhausted_outcome": 2, ":handle_abort_in_execute": 1}
                        for b, i in pos.items():
                            if e.is_repo(b) and len(e.args) > i:
                                a = e.args[i]
                    rep.instance("R11.3", f"{name}|outcome-site@{e.lineno}|{show(a)}")
                    want_iter = invoked is not None
                    good = a is not None and (is_attempt_no(a, p) if want_iter else (a == ("const", 0) or is_attempt_no(a, p) or a[0] == "havoc" or a == ("free", "attempts")))
                    if good:
                        rep.ok("R11.3")
                    else:
                        rep.fail("R11.3", f"{name}|outcome-attempts@{e.label.split(':')[-1]}", f"{q}: outcome built with attempts={show(a)} (operation invoked on this path: {want_iter})", where=f"{fi.module.relpath}:{e.lineno}", function=q, path=p.describe())
                    if e.is_repo(":_build_outcome"):
                        okv = e.kwargs.get("ok")
                        on_success = any(a2 == ("sub", x, ("const", 0)) or True for x in ()) or success_edge(p, e)
                        rep.instance("R11.4", f"{name}|ok={show(okv)}|success_edge={on_success}@{e.lineno}")
                        if okv == ("const", True):
                            val = e.kwargs.get("value")
                            good4 = on_success and invoked is not None and val is not None and (val == invoked.result or is_await_of(val, invoked, p))
                        else:
                            good4 = okv == ("const", False) and not on_success and e.kwargs.get("value") == ("const", None)
                        if good4:
                            rep.ok("R11.4")
                        else:
                            rep.fail("R11.4", f"{name}|ok={show(okv)}|success_edge={on_success}", f"{q}: _build_outcome(ok={show(okv)}, value={show(e.kwargs.get('value'))}) on the {'success' if on_success else 'failure'} edge", where=f"{fi.module.relpath}:{e.lineno}", function=q, path=p.describe())
                    # R11.5, decided by value: at every outcome site that follows this iteration's failure handling the
                    # next_sleep_s handed on equals (outcome.sleep_s if the attempt was SCHEDULED else None) for every
                    # attempt decision and every delay (0.0 included) compatible with the path
                    if (e.is_repo(":_build_outcome") or e.is_repo(":build_scheduled_outcome")) and not (e.is_repo(":_build_outcome") and e.frames and any(fr[0].func.qual.endswith(":build_scheduled_outcome") for fr in e.frames)):
                        fo = [x for x in p.calls() if ("failure_outcome" in x.label) and p.index_of(x) < p.index_of(e)]
                        if fo and e.kwargs.get("ok", ("const", False)) != ("const", True):
                            oc = fo[-1].result
                            ns = e.kwargs.get("next_sleep_s", ("const", None))
                            n_ns = 0
                            bad5 = None
                            for decision in ("SCHEDULED", "RAISE", "ABORTED"):  # RETRY continues the loop (C03 R3.2 / determine_action_from_outcome)
                                # domain = the rows of the _finalize_attempt table (C03 R3.2): RAISE / ABORTED outcomes
                                # carry sleep_s=None, SCHEDULED / RETRY carry the delay
                                for delay in ((0.0, 1.5) if decision == "SCHEDULED" else (None,)):

                                    def leaf5(t: Any, decision: str = decision, delay: Any = delay) -> Any:
                                        if t == attr(oc, "decision"):
                                            return ("enum", "AttemptDecision", decision)
                                        if t == attr(oc, "sleep_s"):
                                            return delay
                                        raise CannotEval()

                                    feasible = True
                                    for a5, pol5, _ in p.conds:
                                        try:
                                            from ..paths import truth

                                            if truth(a5, leaf5) != pol5:
                                                feasible = False
                                                break
                                        except CannotEval:
                                            continue
                                    if not feasible:
                                        continue
                                    try:
                                        got5 = evaluate(ns, leaf5)
                                    except CannotEval:
                                        bad5 = f"next_sleep_s={show(ns)} is not a function of the attempt outcome"
                                        break
                                    n_ns += 1
                                    want5 = delay if decision == "SCHEDULED" else None
                                    if got5 != want5:
                                        bad5 = f"with decision {decision} and delay {delay!r} the outcome reports next_sleep_s={got5!r}, expected {want5!r}"
                                        break
                                if bad5:
                                    break
                            rep.instance("R11.5", f"{name}|next_sleep_s@{e.lineno}|{show(ns)[:50]}")
                            if bad5:
                                rep.fail("R11.5", f"{name}|next_sleep_s|{bad5[:50]}", f"{q}: {bad5} (next_sleep_s must be `outcome.sleep_s if outcome.decision is AttemptDecision.SCHEDULED else None`)", where=f"{fi.module.relpath}:{e.lineno}", function=q, path=p.describe())
                            else:
                                rep.ok("R11.5")
        if n_sites < 6:
            raise AnalysisError(f"{q}: only {n_sites} outcome construction sites on enumerated paths")
    rep.floor("R11.3", 20)
    rep.floor("R11.4", 6)
    rep.floor("R11.5", 4)


def current_local(p: SymPath, upto, name: str) -> Any:
    return p.local_at(upto, name)


def success_edge(p: SymPath, e) -> bool:
    idx = p.index_of(e)
    for it in p.items[:idx]:
        if it[0] == "cond":
            a, pol = it[1], it[2]
            if a[0] == "sub" and a[1][0] == "call" and str(a[1][2]).endswith(":should_classify_result") and a[2] == ("const", 0):
                return not pol
    return False


def is_await_of(val: Any, invoked, p: SymPath) -> bool:
    return val == invoked.result or (val[0] == "call" and "wait_for" in str(val[2]))


def check_no_retry_builders(rep: Report, prog: Program) -> None:
    rep.rule("R11.6", "no-retry outcome builders: constant table (ok, attempts in {0,1}, stop_reason, cause, which last_* is set)")
    X = "redress.policy.execution"
    ctxel = ("call", None, None)
    table = {
        "build_aborted_outcome": dict(ok=("const", False), value=("const", None), stop_reason=("enum", "StopReason", "ABORTED"), attempts=("const", 0), last_class=("const", None), last_exception=("const", None), last_result=("const", None), cause=("const", None)),
        "build_circuit_open_outcome": dict(ok=("const", False), value=("const", None), stop_reason=("const", None), attempts=("const", 0), last_class=("const", None), last_result=("const", None), cause=("const", None)),
        "build_success_outcome_no_retry": dict(ok=("const", True), value=("param", "result"), stop_reason=("const", None), attempts=("const", 1), last_class=("const", None), last_exception=("const", None), last_result=("const", None), cause=("const", None)),
        "build_exception_outcome_no_retry": dict(ok=("const", False), value=("const", None), stop_reason=("const", None), attempts=("const", 1), last_class=("param", "klass"), last_exception=("param", "exc"), last_result=("const", None), cause=("const", "exception")),
    }
    # decided on each builder as a whole, with the shared private constructor helper (`_build_policy_outcome`, where
    # there is one) read through: the RetryOutcome the builder returns, field by field
    eng = engine(prog)
    inline0 = eng.inline
    eng.inline = lambda f, inline0=inline0: bool(inline0 and inline0(f)) or f.qual.endswith(":_build_policy_outcome")
    try:
        for fn, want in table.items():
            fi = prog.func(f"{X}:{fn}")
            rep.analysed(fi.qual)
            for p in eng.paths(fi, raises=lambda ev, cfg: (), key="c11-builders"):
                rep.instance("R11.6", fn)
                got = ctor_args(p.exit[1], "RetryOutcome", []) if p.exit[0] == "return" else None
                if got is None:
                    ev_ = [e for e in p.calls(pure=None) if e.is_ctor("RetryOutcome")]
                    got = dict(ev_[-1].kwargs) if ev_ and p.exit == ("return", ev_[-1].result) else {}
                got = {k: (v[3] if isinstance(v, tuple) and len(v) == 4 and v[0] == "ite" and v[1] == ("const", False) else (v[2] if isinstance(v, tuple) and len(v) == 4 and v[0] == "ite" and v[1] == ("const", True) else v)) for k, v in got.items()}
                bad = {k: (show(got.get(k)) if got.get(k) is not None else None, show(v)) for k, v in want.items() if got.get(k) != v}
                if fn == "build_circuit_open_outcome":
                    le = got.get("last_exception")
                    if not (le is not None and le[0] == "pure" and le[1] == "new CircuitOpenError" and le[2] == (("param", "state_value"),)):
                        bad["last_exception"] = (show(le) if le else None, "CircuitOpenError(state_value)")
                if bad:
                    rep.fail("R11.6", f"{fn}|{sorted(bad)[0] if bad else 'shape'}", f"{fn}: fields differ (found, expected): {bad}", where=fi.where(), function=fi.qual)
                else:
                    rep.ok("R11.6")
    finally:
        eng.inline = inline0
    pbq = "redress.policy.policy_helpers:_build_policy_outcome"
    if pbq in prog.funcs:
        rep.analysed(pbq)
    rep.floor("R11.6", 4)


def run(rep: Report, prog: Program, tier: str) -> None:
    rep.explanation = (
        "Exception-flow analysis with origins over _run_sync_execute / _run_async_execute (and the no-retry path of "
        "Policy/AsyncPolicy.execute): the set of (kind, origin) pairs on exceptional exits must be contained in "
        "{cancellation kinds from anywhere, RetryExhaustedError from the operation, anything from the caller's own "
        "strategy / classifier / sleeper / sleep handler}. Field tables by path enumeration: _build_outcome evaluated on "
        "every (ok, last_cause) combination; the runners set `attempts` to the loop variable before the invocation and "
        "pass it to every outcome; ok=True only on the success edge with the invocation's result; next_sleep_s only for "
        "SCHEDULED; the four no-retry builders are pinned as a constant table."
    )
    rep.trusted_base = ["sa/absint.py, sa/paths.py"]
    rep.assumptions = ["attempt hooks, abort_if and the result classifier return normally (outside the property's quantifier; see known divergence F5 under C12)", "a sleep handler returns a SleepDecision member"]
    rep.not_decided = ["elapsed_s (a clock reading)", "whether stop_reason=None for a failed no-retry call is desirable (pinned, not judged)"]
    check_escape(rep, prog)
    check_build_outcome(rep, prog)
    check_runner_fields(rep, prog)
    check_no_retry_builders(rep, prog)
    rep.rule("R11.7", "the stop reason an execute() outcome reports is the reason of the run's terminal event (re-run of C14 R14.1/R14.2 on the two execute runners): the run state is updated wherever a terminal event is emitted, so outcome.stop_reason is never stale or None for a failed run")
    rep.rule("R11.7a", "event protocol on the execute runners (re-run of C14 R14.1)")
    from .c14 import protocol

    protocol(rep, "R11.7a", "R11.7", prog, which=("sync_execute", "async_execute"))
    rep.floor("R11.7", 15)
    rep.rule("R11.5b", "the attempt-outcome table R11.5 relies on (re-run of C03 R3.2): only SCHEDULED / RETRY attempt outcomes carry a delay, RAISE and ABORTED carry sleep_s=None")
    from .c03 import check_finalize

    check_finalize(rep, prog, rid="R11.5b")
    rep.rule("R11.8", "the outcome the caller receives is the outcome that was built: RetryOutcome, _AttemptOutcome and ScheduledAction are transparent records (no __post_init__ / custom __init__ / shadowing property that could clear or rewrite fields), and StopReason / ErrorClass members are truthy (the `x or DEFAULT` idioms never mistake a member for `missing`)")
    from .foundations import enums_truthy, records_transparent

    records_transparent(rep, "R11.8", prog, ["redress.policy.types:RetryOutcome", "redress.policy.retry_helpers:_AttemptOutcome", "redress.policy.runner.logic:ScheduledAction"])
    enums_truthy(rep, "R11.8", prog, ["redress.errors:StopReason", "redress.errors:ErrorClass"])
    rep.floor("R11.8", 5)
