"""C12 - all entry points agree: sync/async, call/execute, Policy/Retry/sugar."""

from __future__ import annotations

import ast
import re
from typing import Any

from ..absint import Event
from ..ctx import engine
from ..model import AnalysisError, FuncInfo, Program
from ..paths import PEvent, SymPath, contains, show, subterms
from ..report import Report
from .common import RUNNERS, path_where, runner_raises
from .runner_flow import RunnerClient, flag1, run_runners, short_witness

# ---------------------------------------------------------------------------
# R12.3 forwarding completeness
# ---------------------------------------------------------------------------

RETRY_CTOR_PARAMS = [
    "classifier", "result_classifier", "strategy", "strategies", "sleep", "before_sleep", "sleeper", "budget",
    "attempt_timeout_s", "deadline_s", "max_attempts", "max_unknown_attempts", "per_class_max_attempts",
]
CALL_PARAMS = ["on_metric", "on_log", "operation", "abort_if", "sleep", "before_sleep", "sleeper", "on_attempt_start", "on_attempt_end"]

# delegate keyword -> name of the source it must come from (when different)
RENAMES = {
    "from_config": {"strategy": "default_strategy", "strategies": "class_strategies"},
    "runner": {"sleep_fn": "sleep", "attempt_start_hook": "on_attempt_start", "attempt_end_hook": "on_attempt_end", "policy": "self"},
    "decorator-ctor": {"strategy": "strategy"},
    "decorator-call": {"operation": "operation"},
    "execute_with_retry": {},
}


def CONFIG_FIELDS(prog: Program) -> list[str]:
    return prog.all_fields(prog.cls("redress.config:RetryConfig"))


def sources(v: Any, p: SymPath | None = None) -> set[str]:
    """names of the parameters / self attributes / config attributes a term is built from
    (looking through the precedence selectors _resolve_* whose argument order C16 R16.4 pins)"""
    out: set[str] = set()
    by_result: dict = {}
    if p is not None:
        for e in p.calls(pure=False):
            by_result.setdefault(e.result, e)

    def visit(t: Any) -> None:
        if not isinstance(t, tuple) or not t:
            return
        if t[0] in ("param", "free") and len(t) == 2 and isinstance(t[1], str):
            out.add(t[1])
            return
        if t[0] == "attr" and isinstance(t[1], tuple) and t[1][:1] == ("param",) and t[1][1] in ("self", "config", "cls"):
            out.add(t[2])
            return
        if t[0] == "sub" and isinstance(t[1], tuple) and t[1][:1] == ("call",) and str(t[1][2]).endswith(":_resolve_attempt_hooks") and t[2][0] == "const":
            e = by_result.get(t[1])
            if e is not None:
                which = ("call_start", "policy_start") if t[2][1] == 0 else ("call_end", "policy_end")
                for k in which:
                    visit(e.kwargs.get(k))
            return
        if t[0] == "call" and len(t) == 3 and ":_resolve_" in str(t[2]):
            e = by_result.get(t)
            if e is not None:
                for a in e.args:
                    visit(a)
                for a in e.kwargs.values():
                    visit(a)
            return
        for x in t:
            visit(x)

    visit(v)
    return out


def delegate_kwargs(prog: Program, ev: PEvent) -> dict[str, Any]:
    """keyword view of a call: positional arguments are named after the callee's parameters"""
    out = dict(ev.kwargs)
    names: list[str] = []
    for t in ev.targets:
        if t.func is not None:
            ps = t.func.positional_params()
            if t.kind == "ctor" or (t.func.is_method and not t.func.is_staticmethod and (t.self_expr is not None or t.func.is_classmethod)):
                ps = ps[1:]
            names = ps
        elif t.kind == "ctor" and t.cls is not None:
            names = prog.all_fields(t.cls)
    for i, a in enumerate(ev.args):
        if i < len(names):
            out.setdefault(names[i], a)
        else:
            out.setdefault(f"#{i}", a)
    # `delegate(func, **options)` where `options` is the wrapper's own `**options: Unpack[_Options]` (PEP 692) and
    # `_Options` a TypedDict of the library: every key of the TypedDict is a keyword the wrapper accepts and hands on
    # under the same name, unchanged
    star = out.get("**")
    wfn = getattr(getattr(ev, "cfg", None), "func", None)
    if isinstance(star, tuple) and len(star) == 2 and star[0] == "param" and isinstance(star[1], str) and star[1].startswith("**") and wfn is not None:
        kwarg = wfn.node.args.kwarg
        ann = kwarg.annotation if kwarg is not None and kwarg.arg == star[1][2:] else None
        if isinstance(ann, ast.Subscript) and ast.unparse(ann.value).split(".")[-1] == "Unpack" and isinstance(ann.slice, ast.Name):
            k0, td = prog.lookup_name(ann.slice.id, wfn, wfn.module)
            if k0 == "class" and any(ast.unparse(b).split(".")[-1] == "TypedDict" for b in td.node.bases):
                keys = [st.target.id for st in td.node.body if isinstance(st, ast.AnnAssign) and isinstance(st.target, ast.Name)]
                if keys and not any(k in out for k in keys):
                    out = {k: v for k, v in out.items() if k != "**"}
                    for k in keys:
                        out[k] = ("param", k)
    # `Cls.from_config(RetryConfig(a=.., b=..), classifier=c)`: the constructor call it stands for - from_config hands
    # every config field to the constructor keyword of the same name (two renamed; that layer is checked on its own),
    # so a field the config was not given is a keyword the constructor is not given
    cfg = out.get("config")
    if ev.label.endswith(".from_config") and isinstance(cfg, tuple) and cfg and cfg[0] == "pure" and cfg[1] == "new RetryConfig":
        inv = {v: k for k, v in RENAMES["from_config"].items()}
        fields = CONFIG_FIELDS(prog)
        vals = dict(zip(fields, cfg[2]))
        vals.update(dict(cfg[3]))
        out = {k: v for k, v in out.items() if k != "config"}
        for f, v in vals.items():
            out[inv.get(f, f)] = v
    return out


_NOISE = {"on", "fn", "hook", "cb", "callback", "func"}


def _tokens(name: str) -> frozenset[str]:
    return frozenset(t for t in name.lower().strip("_").split("_") if t and t not in _NOISE)


def _ann(fi: FuncInfo | None, pname: str) -> str | None:
    if fi is None:
        return None
    for a in fi.params():
        if a.arg == pname:
            return ast.unparse(a.annotation).replace(" ", "") if a.annotation is not None else None
    return None


def canonical_keyword(k: str, ev: PEvent, wrapper: FuncInfo, wrapper_params: list[str], renames: dict[str, str]) -> str:
    """the wrapper parameter a delegate keyword stands for.  Parameter names of the private runner layers are
    free: an unknown keyword is matched to the one wrapper parameter (or frozen rename) whose name tokens it
    contains (`before_sleep_hook` ~ before_sleep, `sleeper_fn` ~ sleeper) and whose annotation it shares."""
    if k in renames or k in wrapper_params:
        return renames.get(k, k)
    delegate = next((t.func for t in ev.targets if t.func is not None), None)
    cands = []
    names = dict.fromkeys(list(wrapper_params) + list(renames.values()))
    for c in names:
        tc, tk = _tokens(c), _tokens(k)
        if tc and tc <= tk:
            a1, a2 = _ann(delegate, k), _ann(wrapper, c)
            if a1 is None or a2 is None or a1 == a2:
                cands.append((len(tc), c))
    if not cands:
        return k
    best = max(n for n, _ in cands)
    top = [c for n, c in cands if n == best]
    return top[0] if len(top) == 1 else k


def check_forward(rep: Report, prog: Program, wrapper: FuncInfo, pred, wrapper_params: list[str], renames: dict[str, str], label: str, required_kw: list[str] | None = None, paths=None, rid: str = "R12.3") -> None:
    rep.analysed(wrapper.qual)
    ps = paths if paths is not None else engine(prog).paths(wrapper)
    found = 0
    seen_sources: set[str] = set()
    for p in ps:
        for e in p.calls(pure=None):
            if not pred(e):
                continue
            found += 1
            kw = delegate_kwargs(prog, e)
            for k, v in kw.items():
                if k.startswith("#") or k == "**":
                    continue
                want = canonical_keyword(k, e, wrapper, wrapper_params, renames)
                src = sources(v, p)
                seen_sources |= src
                if k == "func" and v[0] == "lambda":
                    continue  # contexts / decorator wrap the user function in a zero-argument lambda
                if isinstance(v, tuple) and v and v[0] == "pure" and str(v[1]).startswith("new "):
                    cands = [q for q, c in prog.classes.items() if c.name == str(v[1])[4:]]
                    if len(cands) == 1 and engine(prog)._new_record_class(cands[0]) is not None:
                        continue  # a parameter object: its fields were bound under their own names by the engine
                if want not in wrapper_params and want != "self" and not (src & set(wrapper_params)):
                    continue  # a local of the wrapper (e.g. the ExecutionContext), not a forwarded parameter
                if label.startswith("decorator-ctor") and k == "strategy" and v[0] == "call" and str(v[2]).endswith(":decorrelated_jitter"):
                    continue  # documented default when neither strategy nor strategies is given
                construct = f"{label}|{wrapper.qual.split(':')[1]}|{k}"
                rep.instance(rid, construct, {"wrapper": wrapper.qual, "delegate_keyword": k, "value": show(v)[:80]} if len(rep.samples) < 12 else None)
                others = (src & set(wrapper_params)) - {want}
                if want in src or (v[0] == "const" and k not in wrapper_params and want not in wrapper_params):
                    if others and not allowed_mix(k, others):
                        rep.fail(rid, f"{construct}|mixed", f"{wrapper.qual}: delegate keyword `{k}` is built from {sorted(src)} (also from other parameters {sorted(others)})", where=f"{wrapper.module.relpath}:{e.lineno}", function=wrapper.qual)
                    else:
                        rep.ok(rid)
                elif want == "self" and v == ("param", "self"):
                    rep.ok(rid)
                else:
                    rep.fail(rid, f"{construct}|crossed", f"{wrapper.qual}: delegate keyword `{k}` receives {show(v)[:80]} instead of `{want}`", where=f"{wrapper.module.relpath}:{e.lineno}", function=wrapper.qual)
            if required_kw is not None:
                have = {canonical_keyword(k, e, wrapper, wrapper_params, renames) for k in kw}
                missing = [k for k in required_kw if k not in kw and renames.get(k, k) not in have]
                rep.instance(rid, f"{label}|{wrapper.qual.split(':')[1]}|required")
                if missing:
                    rep.fail(rid, f"{label}|{wrapper.qual.split(':')[1]}|dropped|{missing[0]}", f"{wrapper.qual}: keyword(s) {missing} are not forwarded to the delegate", where=f"{wrapper.module.relpath}:{e.lineno}", function=wrapper.qual)
                else:
                    rep.ok(rid)
    if found == 0:
        raise AnalysisError(f"{wrapper.qual}: delegate call not found ({label})")
    # nothing dropped: every forwardable parameter of the wrapper is used by some delegate call
    for pn in wrapper_params:
        want_used = pn
        rep.instance(rid, f"{label}|{wrapper.qual.split(':')[1]}|uses|{pn}")
        if want_used in seen_sources:
            rep.ok(rid)
        else:
            rep.fail(rid, f"{label}|{wrapper.qual.split(':')[1]}|dropped|{pn}", f"{wrapper.qual}: parameter `{pn}` is accepted but never forwarded to the delegate", where=wrapper.where(), function=wrapper.qual)


def allowed_mix(k: str, others: set[str]) -> bool:
    # operation defaults to the function's name; the decorator injects a default strategy when neither is given
    if k == "operation" and others <= {"func"}:
        return True
    if k == "strategy" and others <= {"strategies"}:
        return True
    return False


def forwarding(rep: Report, prog: Program, strict: bool = True) -> None:
    rep.rule("R12.3", "forwarding completeness: every parameter of every delegating layer reaches its delegate under the keyword of the same name (frozen rename table), unmodified, nothing dropped, nothing crossed")
    ends = lambda *s: (lambda e: any(e.label.endswith(x) or (x.startswith("new ") and e.is_ctor(x[4:])) for x in s))  # noqa: E731
    W = "redress.policy.wrappers"
    for cls, runner_call, runner_exec in (("redress.policy.retry_sync:Retry", ":run_sync_call", ":run_sync_execute"), ("redress.policy.retry_async:AsyncRetry", ":run_async_call", ":run_async_execute")):
        check_forward(rep, prog, prog.func(f"{cls}.call"), ends(runner_call), CALL_PARAMS, RENAMES["runner"], "retry->runner", required_kw=["policy", "func", "on_metric", "on_log", "operation", "abort_if", "sleep_fn", "before_sleep", "sleeper", "attempt_start_hook", "attempt_end_hook"])
        check_forward(rep, prog, prog.func(f"{cls}.execute"), ends(runner_exec), CALL_PARAMS + ["capture_timeline"], RENAMES["runner"], "retry->runner", required_kw=["policy", "func", "on_metric", "on_log", "operation", "abort_if", "sleep_fn", "before_sleep", "sleeper", "attempt_start_hook", "attempt_end_hook", "capture_timeline"])
        check_forward(rep, prog, prog.func(f"{cls}.__init__"), lambda e: e.label.endswith("_BaseRetryPolicy.__init__"), RETRY_CTOR_PARAMS, {}, "retry-init", required_kw=RETRY_CTOR_PARAMS)
        check_forward(rep, prog, prog.func(f"{cls}.from_config"), lambda e, c=cls: e.is_ctor(c.split(":")[1]) or e.label.startswith("new "), ["classifier"] + CONFIG_FIELDS(prog), RENAMES["from_config"], "from_config", required_kw=RETRY_CTOR_PARAMS)
        check_forward(rep, prog, prog.func(f"{cls}.context"), lambda e: e.label.startswith("new ") and "Context" in e.label, CALL_PARAMS, {"policy": "self"}, "context-ctor", required_kw=["policy"] + CALL_PARAMS)
    for rq in ("sync_runner:run_sync_call", "sync_runner:run_sync_execute", "async_runner:run_async_call", "async_runner:run_async_execute"):
        fi = prog.func(f"redress.policy.runner.{rq}")
        params = [p for p in fi.param_names()]
        check_forward(rep, prog, fi, lambda e, n=rq.split(":")[1]: e.label.endswith(":_" + n), params, {}, "runner->core", required_kw=params)
    for cls, retry_cls in (("redress.policy.policy:Policy", "Retry"), ("redress.policy.async_policy:AsyncPolicy", "AsyncRetry")):
        check_forward(rep, prog, prog.func(f"{cls}.call"), ends(f"{retry_cls}.call"), CALL_PARAMS, {}, "policy->retry", required_kw=CALL_PARAMS)
        ex = prog.func(f"{cls}.execute")
        check_forward(rep, prog, ex, ends("._execute_with_retry"), CALL_PARAMS + ["capture_timeline"], {}, "policy->execute_with_retry", required_kw=["ctx", "func"] + CALL_PARAMS + ["capture_timeline"])
        check_forward(rep, prog, prog.func(f"{cls}._execute_with_retry"), ends(f"{retry_cls}.execute"), CALL_PARAMS + ["capture_timeline"], {}, "execute_with_retry->retry", required_kw=CALL_PARAMS + ["capture_timeline"])
        check_forward(rep, prog, prog.func(f"{cls}.context"), lambda e: e.label.startswith("new ") and "Context" in e.label, CALL_PARAMS, {"policy": "self"}, "context-ctor", required_kw=["policy"] + CALL_PARAMS)
    for cls, pol, ret in ((f"{W}:RetryPolicy", "Policy", "Retry"), (f"{W}:AsyncRetryPolicy", "AsyncPolicy", "AsyncRetry")):
        check_forward(rep, prog, prog.func(f"{cls}.call"), ends(f"{pol}.call"), CALL_PARAMS, {}, "sugar->policy", required_kw=CALL_PARAMS)
        check_forward(rep, prog, prog.func(f"{cls}.execute"), ends(f"{pol}.execute"), CALL_PARAMS + ["capture_timeline"], {}, "sugar->policy", required_kw=CALL_PARAMS + ["capture_timeline"])
        check_forward(rep, prog, prog.func(f"{cls}.context"), ends(f"{pol}.context"), CALL_PARAMS, {}, "sugar->policy", required_kw=CALL_PARAMS)
        check_forward(rep, prog, prog.func(f"{cls}.__init__"), lambda e, r=ret: e.is_ctor(r), RETRY_CTOR_PARAMS, {}, "sugar-init", required_kw=RETRY_CTOR_PARAMS)
        check_forward(rep, prog, prog.func(f"{cls}.from_config"), lambda e: e.label.startswith("new "), ["classifier"] + CONFIG_FIELDS(prog), RENAMES["from_config"], "from_config", required_kw=RETRY_CTOR_PARAMS)
        # the sugar's Policy wraps exactly that Retry
        init = prog.func(f"{cls}.__init__")
        for p in engine(prog).paths(init):
            pc = [e for e in p.calls(pure=None) if e.is_ctor(pol)]
            rc = [e for e in p.calls(pure=None) if e.is_ctor(ret)]
            rep.instance("R12.3", f"sugar-init|{cls.split(':')[1]}|wraps")
            if len(pc) == 1 and len(rc) == 1 and pc[0].kwargs.get("retry") == rc[0].result and set(pc[0].kwargs) == {"retry"}:
                rep.ok("R12.3")
            else:
                rep.fail("R12.3", f"sugar-init|{cls.split(':')[1]}|wraps", f"{cls}.__init__ must build {pol}(retry={ret}(...)) and nothing else", where=init.where(), function=init.qual)
    C = "redress.policy.context"
    for cname, target in (("_RetryContext", "Retry.call"), ("_AsyncRetryContext", "AsyncRetry.call"), ("_PolicyContext", "Policy.call"), ("_AsyncPolicyContext", "AsyncPolicy.call")):
        fi = prog.func(f"{C}:{cname}.call")
        check_forward(rep, prog, fi, ends(target), CALL_PARAMS, {}, "context->call", required_kw=CALL_PARAMS)
        ci = prog.cls(f"{C}:{cname}")
        rep.instance("R12.3", f"context-fields|{cname}")
        if prog.all_fields(ci) == ["policy"] + CALL_PARAMS:
            rep.ok("R12.3")
        else:
            rep.fail("R12.3", f"context-fields|{cname}", f"{cname} fields {prog.all_fields(ci)} differ from the positional order used by .context(...) ({['policy'] + CALL_PARAMS})", where=f"{ci.module.relpath}:{ci.node.lineno}", function=ci.qual)
    # decorator (for the slices re-run under other properties - strict=False - a decorator layer the recogniser does
    # not understand is C12's own exit 2, not theirs)
    try:
        # decorator
        dec = prog.func("redress.policy.decorator:retry")
        inner = dec.nested.get("decorator")
        if inner is None:
            raise AnalysisError("decorator closure vanished")
        dec_params = [p for p in dec.param_names() if p != "func"]
        ctor_params = [p for p in dec_params if p in RETRY_CTOR_PARAMS]
        call_params = [p for p in dec_params if p not in RETRY_CTOR_PARAMS]
        # (the policy is built by its constructor, or by `from_config` of a RetryConfig assembled on the spot)
        check_forward(rep, prog, inner, lambda e: (e.is_ctor("RetryPolicy") and not e.frames) or e.label.endswith(":RetryPolicy.from_config"), ctor_params, {}, "decorator-ctor-sync", required_kw=RETRY_CTOR_PARAMS)
        check_forward(rep, prog, inner, lambda e: (e.is_ctor("AsyncRetryPolicy") and not e.frames) or e.label.endswith(":AsyncRetryPolicy.from_config"), ctor_params, {}, "decorator-ctor-async", required_kw=RETRY_CTOR_PARAMS)
        # the wrappers: whatever functions the inner decorator returns (its own nested functions, or functions nested in
        # a helper such as `_wrap_sync(func, policy, call_options)` that did not exist when the rules were written)
        returned_fns = {}
        for p in engine(prog).paths(inner):
            if p.exit[0] == "return" and isinstance(p.exit[1], tuple) and len(p.exit[1]) == 2 and p.exit[1][0] == "global" and p.exit[1][1] in prog.funcs:
                g = prog.funcs[p.exit[1][1]]
                returned_fns["async_wrapper" if g.is_async else "wrapper"] = g
        for wname, tgt in (("wrapper", "RetryPolicy.call"), ("async_wrapper", "AsyncRetryPolicy.call")):
            wf = inner.nested.get(wname) or returned_fns.get(wname)
            if wf is None:
                raise AnalysisError(f"decorator {wname} vanished")
            check_forward(rep, prog, wf, ends(tgt), [p for p in call_params if p != "operation"], {"operation": "op_name"}, "decorator-call", required_kw=call_params)
    except AnalysisError as exc:
        if strict:
            raise
        rep.notes.append(f"forwarding slice: decorator layer not decided ({exc})")
    rep.floor("R12.3", 400)


# ---------------------------------------------------------------------------
# R12.1 sync/async twins
# ---------------------------------------------------------------------------

TWINS = [
    ("redress.policy.runner.sync_core:_run_sync_call", "redress.policy.runner.async_core:_run_async_call"),
    ("redress.policy.runner.sync_core:_run_sync_execute", "redress.policy.runner.async_core:_run_async_execute"),
    ("redress.policy.runner.sync_core:_handle_abort_attempt_end", "redress.policy.runner.async_core:_handle_abort_attempt_end"),
    ("redress.policy.runner.sync_core:_handle_success_attempt_end", "redress.policy.runner.async_core:_handle_success_attempt_end"),
    ("redress.policy.retry_helpers:_sync_failure_outcome", "redress.policy.retry_helpers:_async_failure_outcome"),
    ("redress.policy.retry_helpers:_sync_sleep_action", "redress.policy.retry_helpers:_async_sleep_action"),
    ("redress.policy.retry_helpers:_call_before_sleep", "redress.policy.retry_helpers:_call_before_sleep_async"),
    ("redress.policy.runner.sync_runner:run_sync_call", "redress.policy.runner.async_runner:run_async_call"),
    ("redress.policy.runner.sync_runner:run_sync_execute", "redress.policy.runner.async_runner:run_async_execute"),
]
TWIN_CLASSES = [
    ("redress.policy.retry_sync:Retry", "redress.policy.retry_async:AsyncRetry"),
    ("redress.policy.policy:Policy", "redress.policy.async_policy:AsyncPolicy"),
    ("redress.policy.wrappers:RetryPolicy", "redress.policy.wrappers:AsyncRetryPolicy"),
    ("redress.policy.context:_RetryContext", "redress.policy.context:_AsyncRetryContext"),
    ("redress.policy.context:_PolicyContext", "redress.policy.context:_AsyncPolicyContext"),
]
# declared, reasoned asymmetries (string normalisation applied to both sides)
NORMALISE = [
    (r"#\([\d, ]+\)", ""), (r"#\d+", ""),  # event numbering (tuples inside inlined helpers)
    (r"async_", "sync_"), (r"Async", ""), (r"retry_sync", "retry_X"), (r"retry_async", "retry_X"), (r"sync_policy", "policy"),
    (r"redress\.policy\.policy", "redress.policy.P"), (r"redress\.policy\.async_policy", "redress.policy.P"),
    (r"redress\.policy\.sync_policy", "redress.policy.P"),
    (r"sync_core", "core"), (r"sync_runner", "runner"),
    (r"lib:asyncio\.sleep", "lib:time.sleep"),  # default sleeper
    (r"<redress\.policy\.runner\.core:_call_with_timeout>", "<op-result>"), (r"<lib:asyncio\.wait_for>", "<op-result>"), (r"<callback:operation>", "<op-result>"),
    (r"_call_before_sleep_async", "_call_before_sleep"),
    (r"__aenter__", "__enter__"), (r"__aexit__", "__exit__"),
]


def norm(s: str) -> str:
    for a, b in NORMALISE:
        s = re.sub(a, b, s)
    return s


def _const_defaults(e: Any) -> dict:
    """parameter -> constant default of the single repository callee of a call event"""
    if len(e.targets) != 1 or e.targets[0].kind != "repo" or e.targets[0].func is None:
        return {}
    a = e.targets[0].func.node.args
    out = {}
    pos = a.posonlyargs + a.args
    for p_, d in zip(pos[len(pos) - len(a.defaults):], a.defaults):
        if isinstance(d, ast.Constant):
            out[p_.arg] = ("const", d.value)
    for p_, d in zip(a.kwonlyargs, a.kw_defaults):
        if isinstance(d, ast.Constant):
            out[p_.arg] = ("const", d.value)
    return out


def skeleton(prog: Program, p: SymPath) -> tuple:
    """effect skeleton of a path: branch literals and impure events, awaits erased"""
    out = []
    for it in p.items:
        if it[0] == "cond":
            txt = norm(show(it[1]))
            if "inspect.isawaitable" in txt:
                continue  # declared asymmetry 3: the async twin awaits awaitable hook / sleeper results
            out.append(("if", txt, it[2]))
            continue
        e = it[1]
        if e.kind == "call":
            if e.pure:
                continue
            label = e.label
            # (an argument spelled out with the value the callee's parameter defaults to is the argument left out)
            dflt = _const_defaults(e)
            args = [show(a) for a in e.args] + [f"{k}={show(v)}" for k, v in sorted(e.kwargs.items()) if not (k in dflt and dflt[k] == v)]
            # declared asymmetry 1: attempt timeout  -  asyncio.wait_for(func(), timeout=t)  ~  _call_with_timeout(func, t)
            if label == "lib:asyncio.wait_for":
                label, args = "operation-with-timeout", [show(e.kwargs.get("timeout", e.args[1] if len(e.args) > 1 else None))]
            elif label.endswith(":_call_with_timeout"):
                # the timeout: second positional argument, or by the name of the callee's second parameter
                tgt0 = e.targets[0].func if e.targets and e.targets[0].func is not None else None
                pnames = tgt0.param_names() if tgt0 is not None else []
                tv = e.args[1] if len(e.args) > 1 else (e.kwargs.get(pnames[1]) if len(pnames) > 1 else None)
                label, args = "operation-with-timeout", [show(tv) if tv is not None else ""]
            elif label == "callback:operation" and not e.args:
                label = "operation"
            # declared asymmetry 2: the async twin awaits awaitable sleeper results through _call_async_sleeper
            elif label.endswith(":_call_async_sleeper"):
                label, args = "sleeper", [show(e.args[-1])]
            elif "callback:sleeper" in label:
                label, args = "sleeper", [show(e.args[0]) if e.args else ""]
            out.append(("call", norm(label), tuple(norm(a) for a in args)))
        elif e.kind == "store":
            out.append(("store", norm(show(e.loc)), norm(show(e.value))))
        elif e.kind == "exc":
            out.append(("raises", e.value))
        elif e.kind == "raise":
            out.append(("raise", norm(show(e.value)) if e.value is not None else "reraise"))
    ex = p.exit
    if ex[0] == "return":
        out.append(("return", norm(show(ex[1]))))
    elif ex[0] == "raise":
        out.append(("exit-raise", ex[1]))
    else:
        out.append((ex[0],))
    # drop the operation call that only creates the coroutine handed to wait_for
    cleaned = []
    for i, x in enumerate(out):
        if x[0] == "call" and x[1] == "operation" and i + 1 < len(out) and out[i + 1][0] == "call" and out[i + 1][1] == "operation-with-timeout":
            continue
        cleaned.append(x)
    return tuple(cleaned)


ALPHABET_EXCLUDED = "attempt hooks (_call_attempt_start/_call_attempt_end*/_handle_abort_attempt_end) are not in the property's alphabet"


RAISING_CALLEES = (
    ":_call_with_timeout", "Retry.call", "Retry.execute", "._call_without_retry", "._execute_without_retry", "._execute_with_retry",
    "_RetryState.check_abort", ":_sync_failure_outcome", ":_async_failure_outcome", ":_call_async_sleeper", ":_call_before_sleep_async", ":_call_before_sleep",
)
TWIN_KINDS = ("OtherException", "AbortRetryError", "RetryExhaustedError", "CancelledError", "KeyboardInterrupt", "GeneratorExit")


def _raising_label(lab: str) -> bool:
    return lab.startswith("callback:") or lab.endswith(RAISING_CALLEES) or lab == "lib:asyncio.wait_for"


def twin_raises(ev, cfg):
    """the same events raise in both twins: a raising callee raises at its call in the sync
    twin and at the await of its call in the async twin"""
    if ev.kind == "call" and not ev.pure:
        if ev.awaited:
            return ()  # the await raises
        if cfg.func.is_async and ev.label == "callback:operation":
            return ()  # only creates the coroutine handed to `await` / wait_for
        if _raising_label(ev.label):
            return TWIN_KINDS
        return ()
    if ev.kind == "await":
        of = ev.node.info.get("of")
        if of is None:
            return TWIN_KINDS  # `await result` of an awaitable hook / sleeper result
        lab = "/".join(t.label() for t in cfg.prog.resolve_call(cfg.nodes[of].ast, cfg.func))
        return TWIN_KINDS if _raising_label(lab) else ()
    return ()


def twins(rep: Report, prog: Program) -> None:
    rep.rule("R12.1", "sync/async twins: after erasing await/async and applying the declared renamings, every twin pair has the same set of effect skeletons (branch literals, impure events with their arguments, raised kinds, exits) on all paths including handler paths")
    pairs = list(TWINS)
    inline_pred = engine(prog).inline
    for a, b in TWIN_CLASSES:
        ca, cb = prog.cls(a), prog.cls(b)
        names = sorted(set(ca.methods) | set(cb.methods))
        for m in names:
            ma = m
            mb = {"__enter__": "__aenter__", "__exit__": "__aexit__"}.get(m, m)
            if m in ("__aenter__", "__aexit__"):
                continue
            if ma in ca.methods and mb in cb.methods and m.startswith("_") and not m.startswith("__") and inline_pred is not None and inline_pred(ca.methods[ma]) and inline_pred(cb.methods[mb]):
                # a private helper both twins extracted (new to the rules): read through where each twin calls it - the
                # comparison of the callers covers it, argument by argument
                rep.instance("R12.1", f"private-helper-of-both-twins|{a}.{m}")
                rep.ok("R12.1")
            elif ma in ca.methods and mb in cb.methods:
                pairs.append((ca.methods[ma].qual, cb.methods[mb].qual))
            elif m.startswith("_") and not m.startswith("__") and (inline_pred is not None and inline_pred((ca.methods.get(ma) or cb.methods.get(mb)))):
                # a private helper one twin extracted for itself: it has no behaviour of its own - the path engine reads
                # it through wherever that twin calls it, and the comparison of the callers covers it
                rep.instance("R12.1", f"private-helper-of-one-twin|{a}.{m}")
                rep.ok("R12.1")
            else:
                rep.instance("R12.1", f"method-missing|{a}.{m}")
                rep.fail("R12.1", f"method-missing|{a.split(':')[1]}.{m}", f"method `{m}` exists in only one of {a} / {b}", where=f"{ca.module.relpath}:{ca.node.lineno}", function=a)
    for qa, qb in pairs:
        if qa not in prog.funcs and qb not in prog.funcs:
            # neither twin exists under its old name: merged into one shared helper elsewhere (then there is nothing to
            # compare) or dissolved into the callers (then the callers' skeletons, compared below, contain its effects)
            try:
                ma, mb = prog.func(qa), prog.func(qb)
                same = ma is mb
                if not same:
                    pairs.append((ma.qual, mb.qual))  # both twins moved (each found by its unique name): compared like any other pair
                    continue
            except AnalysisError:
                same = None
                tail = qa.split(":", 1)[1]
                moved = sorted((f for q, f in prog.funcs.items() if q.split(":", 1)[1] == tail), key=lambda f: ("async" in f.module.name, f.qual))
                if len(moved) == 2 and tail == qb.split(":", 1)[1]:
                    pairs.append((moved[0].qual, moved[1].qual))  # both moved, still a pair: compared like any other
                    continue
            rep.instance("R12.1", f"{qa.split(':')[1]}~{'shared' if same else 'dissolved'}")
            if same is False:
                rep.fail("R12.1", f"{qa.split(':')[1]}|twins-moved-apart", f"twins {qa} / {qb} were moved and can no longer be paired", where=prog.func(qa).where(), function=qa)
            else:
                rep.ok("R12.1")
            continue
        if qb not in prog.funcs and qa in prog.funcs:
            # the async module no longer has its own copy: fine if the name there is the sync function itself (shared)
            mb, nb = qb.split(":")
            k, pth = prog.lookup_name(nb, None, prog.modules[mb]) if mb in prog.modules and "." not in nb else ("unknown", None)
            rep.instance("R12.1", f"{qa.split(':')[1]}~shared")
            if k == "func" and pth.qual == qa:
                rep.ok("R12.1")
            else:
                rep.fail("R12.1", f"{qa.split(':')[1]}|twin-missing", f"twin {qb} of {qa} does not exist and the name is not the shared sync function", where=prog.func(qa).where(), function=qa)
            continue
        fa, fb = prog.func(qa), prog.func(qb)
        rep.analysed(qa, qb)
        pa = engine(prog).paths(fa, raises=twin_raises, key="twin")
        pb = engine(prog).paths(fb, raises=twin_raises, key="twin")
        sa = {skeleton(prog, p) for p in pa}
        sb = {skeleton(prog, p) for p in pb}
        construct = f"{qa.split(':')[1]}~{qb.split(':')[1]}"
        rep.instance("R12.1", construct, {"sync": qa, "async": qb, "sync_paths": len(pa), "async_paths": len(pb), "skeletons": len(sa)} if len(rep.samples) < 40 else None)
        if sa == sb:
            rep.ok("R12.1")
            continue
        only_a = sorted(sa - sb, key=repr)
        only_b = sorted(sb - sa, key=repr)
        # first distinguishing step
        diff = describe_diff(only_a, only_b)
        rep.fail("R12.1", f"{construct}|{diff[:80]}", f"twins {qa} / {qb} differ: {diff} ({len(only_a)} skeletons only in the sync twin, {len(only_b)} only in the async twin)", where=fa.where(), function=qa, only_sync=[list(map(str, x)) for x in only_a[:3]], only_async=[list(map(str, x)) for x in only_b[:3]])
    rep.floor("R12.1", 35)


def describe_diff(only_a: list, only_b: list) -> str:
    if only_a and only_b:
        x, y = only_a[0], only_b[0]
        for i, (u, v) in enumerate(zip(x, y)):
            if u != v:
                return f"first difference at step {i}: sync {u} vs async {v}"
        return f"one twin has extra steps: sync {x[len(y):][:2]} / async {y[len(x):][:2]}"
    if only_a:
        return f"the sync twin has a path the async twin lacks, e.g. ending {only_a[0][-3:]}"
    return f"the async twin has a path the sync twin lacks, e.g. ending {only_b[0][-3:]}"


# ---------------------------------------------------------------------------
# R12.2 call vs execute
# ---------------------------------------------------------------------------

ALPHABET = (
    "operation", "operation-with-timeout", "_RetryState.check_abort", "_RetryState.handle_exception", "_RetryState.handle_result",
    ":_sync_failure_outcome", ":_handle_success_attempt_end", ":should_classify_result", ":determine_action_from_outcome",
)


def projected(prog: Program, p: SymPath, mode: str) -> tuple:
    sk = skeleton(prog, p)
    out = []
    for x in sk:
        if x[0] == "call" and any(x[1] == a or x[1].endswith(a) for a in ALPHABET):
            args = x[2]
            out.append((x[1].split(":")[-1], tuple(a for a in args if not a.startswith(("timeline=", "attempts=")))))
        elif x[0] == "raises":
            out.append(("raises", x[1]))
    ex = p.exit
    # delivery erased: classify how the run ends
    calls = [x for x in sk if x[0] == "call"]
    last_labels = [c[1] for c in calls]
    if mode == "call":
        if ex[0] == "return":
            end = "value"
        elif ex[0] == "loop":
            end = "next-attempt"
        elif ex[0] == "raise" and ex[1] == "AbortRetryError":
            end = "aborted"
        elif ex[0] == "raise" and ex[1] in ("RetryExhaustedError", "NoReturn", "OtherException"):
            end = "failed"
        else:
            end = f"raise:{ex[1]}"
    else:
        if ex[0] == "loop":
            end = "next-attempt"
        elif ex[0] == "return":
            b = [c for c in calls if c[1].endswith((":_build_outcome", ":_abort_outcome", ":build_exhausted_outcome", ":build_success_outcome", ":build_scheduled_outcome"))]
            if b and b[-1][1].endswith(":_abort_outcome"):
                end = "aborted"
            elif b and (any(a == "ok=True" for a in b[-1][2]) or b[-1][1].endswith(":build_success_outcome")):
                end = "value"
            else:
                end = "failed"
        else:
            end = f"raise:{ex[1]}"
    out.append(("end", end))
    return tuple(out)


class HookFaultClient(RunnerClient):
    """fault model B: attempt hooks raise ordinary exceptions"""

    name = "hook-exceptions"
    fault = {"operation": ("OtherException",), "attempt_hook": ("OtherException",)}

    def initial(self) -> Any:
        return (False, frozenset())

    def on_event_exc(self, ev: Event, cs: Any, kind: str) -> Any:
        raised, flags = cs
        if ev.kind == "call" and ev.target is not None and ev.target.kind == "callback" and ev.target.category == "attempt_hook":
            return (True, flags)
        return cs

    def on_event(self, ev: Event, cs: Any) -> Any:
        raised, flags = cs
        if not raised:
            return cs
        if (ev.kind == "enter" and self.callee_is(ev, "_RetryState._handle_failure")) or (ev.kind == "call" and self.is_operation(ev)):
            what = "handled as an attempt failure" if self.callee_is(ev, "_RetryState._handle_failure") else "followed by another operation invocation"
            return (raised, flag1(flags, f"an exception raised by an attempt hook is {what}"))
        return cs


def call_vs_execute(rep: Report, prog: Program, tier: str) -> None:
    rep.rule("R12.2", "call vs execute (fault model A: only the operation raises): projected onto operation invocations, abort polls, failure handling, attempt hooks and sleeps - with the delivery erased - both runners of a colour have the same set of per-iteration behaviours")
    for call_name, exec_name in (("sync_call", "sync_execute"), ("async_call", "async_execute")):
        fc, fe = prog.func(RUNNERS[call_name]), prog.func(RUNNERS[exec_name])
        rep.analysed(fc.qual, fe.qual)
        pc = engine(prog).paths(fc, raises=runner_raises, key="runner")
        pe = engine(prog).paths(fe, raises=runner_raises, key="runner")
        sc = {projected(prog, p, "call") for p in pc}
        se = {projected(prog, p, "execute") for p in pe}
        construct = f"{call_name}~{exec_name}"
        rep.instance("R12.2", construct, {"call_paths": len(pc), "execute_paths": len(pe), "behaviours": len(sc)})
        if sc == se:
            rep.ok("R12.2")
        else:
            diff = describe_diff(sorted(sc - se, key=repr), sorted(se - sc, key=repr)).replace("sync", "call").replace("async", "execute")
            rep.fail("R12.2", f"{construct}|A|{diff[:80]}", f"{fc.qual} and {fe.qual} behave differently for the same operation behaviour: {diff}", where=fe.where(), function=fe.qual, only_call=[list(map(str, x)) for x in sorted(sc - se, key=repr)[:3]], only_execute=[list(map(str, x)) for x in sorted(se - sc, key=repr)[:3]])
    rep.floor("R12.2", 2)
    rep.rule("R12.2b", "call vs execute (fault model B: attempt hooks raise ordinary exceptions): a hook's exception is never treated as an attempt failure nor followed by another invocation - in either runner")
    res = run_runners(prog, lambda: HookFaultClient(prog))
    for name, (interp, exits, client) in res.items():
        q = RUNNERS[name]
        flags = set()
        wit = None
        for ex in exits:
            if ex.cstate[1]:
                flags |= ex.cstate[1]
                wit = wit or ex
        rep.instance("R12.2b", name, {"runner": q, "divergences": sorted(flags)})
        if flags:
            for f in sorted(flags):
                rep.fail("R12.2b", f"{name}|B|{f}", f"{q}: {f} (the call-runner lets it propagate after one invocation: call() and execute() perform different invocations for the same callback behaviour)", where=prog.func(q).where(), function=q, path=short_witness(interp, wit))
        else:
            rep.ok("R12.2b")
    rep.floor("R12.2b", 4)


def run(rep: Report, prog: Program, tier: str) -> None:
    rep.explanation = (
        "Sibling agreement between hand-maintained twins, decided on symbolic path sets. R12.1: for each of the sync/async "
        "pairs (runners, helpers, every method of Retry/AsyncRetry, Policy/AsyncPolicy, RetryPolicy/AsyncRetryPolicy and "
        "the context classes) the sets of effect skeletons - branch literals, impure events with their (copy-propagated) "
        "arguments, raised kinds per raising event, exits - coincide after erasing await/async and applying a declared "
        "renaming table (asymmetries declared: asyncio.wait_for vs _call_with_timeout, awaiting awaitable hook / sleeper "
        "results, asyncio.sleep as default sleeper). R12.2: call- and execute-runner of one colour, projected onto the "
        "property's alphabet with the delivery erased, have equal behaviour sets under fault model A; fault model B "
        "(raising attempt hooks) is decided by a typestate client. R12.3: every parameter of every delegating layer "
        "reaches its delegate under its own keyword - nothing dropped, nothing crossed (what no type checker sees when "
        "two hooks have the same type)."
    )
    rep.trusted_base = ["sa/paths.py (path sets), sa/absint.py", "renaming table and declared asymmetries in sa/rules/c12.py"]
    rep.assumptions = ["value computations live in the shared core (state.py, retry_helpers.py, logic.py): one implementation"]
    rep.not_decided = ["agreement of values flowing through identical effect sequences beyond symbolic identity of the terms"]
    forwarding(rep, prog)
    rep.rule("R12.5", "configuration written on a sugar object (RetryPolicy / AsyncRetryPolicy attribute assignment) reaches the wrapped retry component: forwarded iff the component has an attribute of that name (existence, not current value); reads are served by the component")
    sugar_setattr(rep, "R12.5", prog)
    rep.floor("R12.5", 8)
    rep.rule("R12.6", "@retry always installs the policy: the inner decorator returns its sync wrapper for plain functions and its async wrapper for coroutine functions on every path - never the undecorated function - whatever the configuration")
    decorator_wraps(rep, "R12.6", prog)
    rep.floor("R12.6", 3)
    rep.rule("R12.7", "the sync attempt timeout does not change how often the operation is invoked: each timed attempt gets an executor of its own (= C13 R13.5 worker-pool clause), as each async attempt gets its own wait_for")
    from .c13 import worker_pool

    worker_pool(rep, "R12.7", prog)
    rep.floor("R12.7", 1)
    defaults_agree(rep, "R12.8", prog)
    rep.floor("R12.8", 10)
    twins(rep, prog)
    call_vs_execute(rep, prog, tier)
    # Policy level: call() and execute() make the same breaker record for the same ending
    rep.rule("R12.4", "Policy/AsyncPolicy: exactly one breaker record per admitted call in call() and in execute() (re-run of C09 R9.1)")
    rep.rule("R12.4b", "Policy/AsyncPolicy: call() and execute() record the same kind for the same ending - value: success; abort: cancel; every other stop (failure, exhaustion, deferral): failure (= C09 R9.2, one table for both entry points)")
    from .c09 import record_by_outcome

    record_by_outcome(rep, "R12.4", "R12.4b", prog)


def defaults_agree(rep: Report, rid: str, prog: Program) -> None:
    """every layer that lets the caller omit a retry parameter omits it to the same value: the defaults of the
    like-named constructor parameters of Retry / AsyncRetry / RetryPolicy / AsyncRetryPolicy / _BaseRetryPolicy, of
    the `retry` decorator and of the RetryConfig fields are the same expression (all entry points with all defaults
    then run the same policy)"""
    rep.rule(rid, "defaults agree: a retry parameter left out means the same in every entry point - constructor defaults of Retry, AsyncRetry, RetryPolicy, AsyncRetryPolicy, _BaseRetryPolicy, the @retry decorator and the RetryConfig fields are equal per parameter name")
    sources: dict[str, dict[str, str]] = {}
    quals = [
        "redress.policy.base:_BaseRetryPolicy.__init__", "redress.policy.retry_sync:Retry.__init__", "redress.policy.retry_async:AsyncRetry.__init__",
        "redress.policy.wrappers:RetryPolicy.__init__", "redress.policy.wrappers:AsyncRetryPolicy.__init__", "redress.policy.decorator:retry",
    ]
    for q in quals:
        fi = prog.funcs.get(q)
        if fi is None:
            continue
        rep.analysed(q)
        for pname, d in fi.param_defaults().items():
            if pname in RETRY_CTOR_PARAMS:
                sources.setdefault(pname, {})[q] = ast.unparse(d)
    cfgc = next((c for c in prog.classes.values() if c.name == "RetryConfig"), None)
    if cfgc is not None:
        ren = {v: k for k, v in RENAMES["from_config"].items()}
        for f in prog.all_fields(cfgc):
            d = prog.field_default(cfgc, f)
            pname = ren.get(f, f)
            if d is not None and pname in RETRY_CTOR_PARAMS and not (isinstance(d, ast.Call) and ast.unparse(d.func).split(".")[-1] == "field"):
                sources.setdefault(pname, {})[cfgc.qual] = ast.unparse(d)
    for pname in RETRY_CTOR_PARAMS:
        vals = sources.get(pname, {})
        if len(vals) < 2:
            continue
        rep.instance(rid, f"default|{pname}", {"parameter": pname, "defaults": vals} if len(rep.samples) < 20 else None)
        distinct = sorted(set(vals.values()))
        if len(distinct) == 1:
            rep.ok(rid)
        else:
            common = max(distinct, key=lambda v: sum(1 for x in vals.values() if x == v))
            odd = sorted(q for q, v in vals.items() if v != common)
            rep.fail(rid, f"default|{pname}|{odd[0].split(':')[-1]}", f"parameter `{pname}` defaults to {vals[odd[0]]} in {odd[0]} but to {common} elsewhere: a caller who leaves it out gets a different policy depending on the entry point", where=prog.funcs[odd[0]].where() if odd[0] in prog.funcs else "", function=odd[0])


def sugar_setattr(rep: Report, rid: str, prog: Program) -> None:
    """RetryPolicy / AsyncRetryPolicy.__setattr__: configuration written on the sugar object reaches the wrapped retry
    component whenever that component has an attribute of this name - decided by existence alone (hasattr), never by
    the attribute's current value (budget, sleep, before_sleep, ... are None by default)"""
    for cls in ("RetryPolicy", "AsyncRetryPolicy"):
        fi = prog.func(f"redress.policy.wrappers:{cls}.__setattr__")
        rep.analysed(fi.qual)
        pos = fi.positional_params()
        if len(pos) != 3:
            raise AnalysisError(f"{fi.qual}: expected (self, name, value)")
        S, N, V = (("param", x) for x in pos)
        kinds: dict[str, int] = {"forward": 0, "local": 0, "reject": 0}
        for p in engine(prog).paths(fi):
            imp = [e for e in p.calls(pure=False)]
            construct = "|".join(p.describe()[-3:])[:110]
            rep.instance(rid, f"{cls}.__setattr__|{construct}")
            problem = None
            fwd = [e for e in imp if e.lib() == "builtins.setattr"]
            loc = [e for e in imp if (e.lib() or "").endswith("object.__setattr__")]
            R = fwd[0].args[0] if fwd and fwd[0].args else None
            if p.exit[0] == "raise":
                kinds["reject"] += 1
                if imp or p.exit[1] != "AttributeError":
                    problem = f"rejecting path has effects / raises {p.exit[1]}"
            elif fwd:
                kinds["forward"] += 1
                if len(imp) != 1 or fwd[0].args != [R, N, V] or not (isinstance(R, tuple) and R[0] == "attr" and R[2] == "retry"):
                    problem = f"forwarding path must be exactly setattr(<policy>.retry, name, value); found {[e.label + str([show(a) for a in e.args]) for e in imp]}"
                elif not any(a == ("pure", "hasattr", (R, N), ()) and pol for a, pol, _ in p.conds):
                    problem = "the write is forwarded without `hasattr(retry, name)` being true on that path"
            elif loc:
                kinds["local"] += 1
                if len(imp) != 1 or loc[0].args != [S, N, V]:
                    problem = f"local path must be exactly object.__setattr__(self, name, value); found {[e.label for e in imp]}"
            else:
                problem = "the attribute write is dropped"
            if problem is None:
                for a, pol, _ in p.conds:
                    ok = (
                        (a[0] == "cmp" and a[1] in ("==", "in") and a[2] == N and a[3][0] in ("const", "set", "tuple"))
                        or (a[0] == "cmp" and a[1] == "is" and a[3] == ("const", None) and not contains(a[2], N))
                        or (a[0] == "pure" and a[1] == "hasattr" and len(a[2]) == 2 and a[2][1] == N and isinstance(a[2][0], tuple) and a[2][0][0] == "attr" and a[2][0][2] == "retry")
                    )
                    if not ok:
                        problem = f"where the write goes depends on `{show(a)}`: it must depend only on the name and on whether the retry component has such an attribute (hasattr), not on the attribute's current value"
                        break
            if problem:
                rep.fail(rid, f"{cls}.__setattr__|{problem[:50]}", f"{fi.qual}: {problem}", where=path_where(prog, fi.qual, p), function=fi.qual, path=p.describe())
            else:
                rep.ok(rid)
        rep.instance(rid, f"{cls}.__setattr__|rows")
        if all(kinds.values()):
            rep.ok(rid)
        else:
            rep.fail(rid, f"{cls}.__setattr__|rows", f"{fi.qual}: expected a forwarding, a local and a rejecting row; found {kinds}", where=fi.where(), function=fi.qual)
        ga = prog.func(f"redress.policy.wrappers:{cls}.__getattr__")
        for p in engine(prog).paths(ga):
            rep.instance(rid, f"{cls}.__getattr__")
            gp = ga.positional_params()
            r = p.exit[1] if p.exit[0] == "return" else None
            if r is not None and r[0] == "pure" and r[1] == "getattr" and len(r[2]) == 2 and r[2][1] == ("param", gp[1]) and "retry" in show(r[2][0]):
                rep.ok(rid)
            else:
                rep.fail(rid, f"{cls}.__getattr__", f"{ga.qual}: attribute reads must be served by the retry component (getattr(self.retry, name)); found {show(r) if r else p.exit}", where=ga.where(), function=ga.qual)


def decorator_wraps(rep: Report, rid: str, prog: Program) -> None:
    """@retry always installs the policy: every path of the inner decorator returns one of its own wrapper functions
    (whose forwarding to RetryPolicy.call / AsyncRetryPolicy.call is R12.3), never the undecorated function, and the
    coroutine test alone selects the twin"""
    dec = prog.func("redress.policy.decorator:retry")
    inner = dec.nested.get("decorator")
    if inner is None:
        raise AnalysisError("decorator closure vanished")
    rep.analysed(inner.qual)
    wrappers = {f.qual: f for f in inner.nested.values()}
    kinds = set()
    for p in engine(prog).paths(inner):
        if p.exit[0] != "return":
            continue
        v = p.exit[1]
        rep.instance(rid, f"decorator|returns {show(v)[:50]}")
        is_async = [pol for a, pol, _ in p.conds if a[0] == "pure" and "iscoroutinefunction" in str(a[1])]
        target = v[1] if isinstance(v, tuple) and v[0] == "global" else None
        wf = wrappers.get(target) if target else None
        if wf is None and target in prog.funcs:
            # a wrapper made by a helper that did not exist when the rules were written (`_wrap_sync(func, policy, opts)`
            # returning its nested `wrapper`): still a wrapper of the library, whose forwarding R12.3 checks
            from ..paths import default_inline

            g = prog.funcs[target]
            if g.parent is not None and default_inline()(g.parent):
                wf = g
        problem = None
        if wf is None:
            problem = f"returns {show(v)} instead of a wrapper that runs the function under the policy (the decorated function would bypass retries, events and hooks)"
        elif is_async not in ([True], [False]):
            problem = "the choice of wrapper does not depend on asyncio.iscoroutinefunction(func) alone"
        elif wf.is_async != is_async[0]:
            problem = f"a {'coroutine' if is_async[0] else 'plain'} function gets the {'async' if wf.is_async else 'sync'} wrapper"
        else:
            kinds.add(wf.is_async)
        if problem:
            rep.fail(rid, f"decorator|{problem[:50]}", f"{inner.qual}: {problem}", where=path_where(prog, inner.qual, p), function=inner.qual, path=p.describe())
        else:
            rep.ok(rid)
    rep.instance(rid, "decorator|both-twins")
    if kinds == {True, False}:
        rep.ok(rid)
    else:
        rep.fail(rid, "decorator|both-twins", f"{inner.qual}: expected a sync and an async wrapper path; found async={sorted(kinds)}", where=inner.where(), function=inner.qual)


def context_forwarding(rep: Report, rid: str, prog: Program) -> None:
    """per-call overrides bound through `.context(...)` reach call(): the context object is built from the like-named
    parameters (positional construction is checked against the field order of the context class) and its call()
    forwards every bound value under the same name"""
    ends = lambda *s_: (lambda e: any(e.label.endswith(x) for x in s_))  # noqa: E731
    for cls in ("redress.policy.retry_sync:Retry", "redress.policy.retry_async:AsyncRetry", "redress.policy.policy:Policy", "redress.policy.async_policy:AsyncPolicy"):
        check_forward(rep, prog, prog.func(f"{cls}.context"), lambda e: e.label.startswith("new ") and "Context" in e.label, CALL_PARAMS, {"policy": "self"}, "context-ctor", required_kw=["policy"] + CALL_PARAMS, rid=rid)
    C = "redress.policy.context"
    for cname, target in (("_RetryContext", "Retry.call"), ("_AsyncRetryContext", "AsyncRetry.call"), ("_PolicyContext", "Policy.call"), ("_AsyncPolicyContext", "AsyncPolicy.call")):
        fi = prog.func(f"{C}:{cname}.call")
        check_forward(rep, prog, fi, ends(target), CALL_PARAMS, {}, "context->call", required_kw=CALL_PARAMS, rid=rid)
