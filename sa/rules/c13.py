"""C13 - abort and cancellation stop work immediately and are never retried."""

from __future__ import annotations

import ast
from typing import Any

from ..absint import Event
from ..ctx import cfgs, engine
from ..model import AnalysisError, Program
from ..paths import show
from ..report import Report
from .common import RUNNERS, SELF, attr, emit_info, enum_name, is_emit
from .runner_flow import flag1, CANCEL_KINDS, RUN_MODULES, RunnerClient, run_runners, short_witness

WORK = ("operation", "sleeper", "sleep_handler", "before_sleep", "strategy")


class AbortClient(RunnerClient):
    """polls before attempts / backoffs; a true poll or an AbortRetryError is final"""

    name = "abort-polls"
    fault = {"operation": ("AbortRetryError", "OtherException")}

    def initial(self) -> Any:
        # (polled since loop head, polled since the operation was invoked, aborting, flags)
        return (False, True, False, frozenset())

    def on_event(self, ev: Event, cs: Any) -> Any:
        ph, po, ab, flags = cs
        if ev.kind == "iter":
            return (False, True, ab, flags)
        if ev.kind == "enter" and self.callee_is(ev, "_RetryState.check_abort"):
            return (True, True, ab, flags)
        if ev.kind == "enter" and self.callee_is(ev, "_RetryState._handle_failure"):
            # the backoff is decided here (strategy, budget, `retry` event - user code runs): the poll that
            # guards the sleep must come after it
            return (ph, False, ab, flags)
        if ev.kind == "raise":
            exc = ev.node.info["exc"]
            if exc is not None and isinstance(exc, ast.Call) and ast.unparse(exc.func).endswith("AbortRetryError"):
                return (ph, po, True, flags)
            return cs
        if ev.kind == "call":
            what = None
            if self.is_operation(ev):
                what = "operation"
                if not ph:
                    flags = flag1(flags, "operation invoked without an abort poll since the loop head")
                if ab:
                    flags = flag1(flags, "operation invoked after an abort")
                return (ph, False, ab, flags)
            for cat in ("sleeper", "sleep_handler", "before_sleep"):
                if self.is_callback(ev, cat):
                    what = cat
            if what in ("sleeper", "sleep_handler", "before_sleep"):
                if not po:
                    flags = flag1(flags, f"{what} reached without an abort poll after the failed attempt's backoff was decided")
                if ab:
                    flags = flag1(flags, f"{what} called after an abort")
                return (ph, po, ab, flags)
            if ab and (self.is_callback(ev, "strategy") or self.callee_is(ev, "Budget.consume")):
                flags = flag1(flags, "retry computed (strategy / budget) after an abort")
                return (ph, po, ab, flags)
        return cs

    def on_event_exc(self, ev: Event, cs: Any, kind: str) -> Any:
        ph, po, ab, flags = cs
        if ev.kind == "call" and self.is_operation(ev):
            ph, po, ab, flags = self.on_event(ev, cs)
            if kind == "AbortRetryError":
                ab = True
            return (ph, po, ab, flags)
        return cs


class CancelClient(RunnerClient):
    """CancelledError / KeyboardInterrupt / SystemExit pass through untouched"""

    name = "cancellation-pass-through"
    fault = {
        "operation": CANCEL_KINDS,
        "sleeper": CANCEL_KINDS,
        "before_sleep": CANCEL_KINDS,
        "on_metric": CANCEL_KINDS,
        "on_log": CANCEL_KINDS,
    }
    await_fault = ("CancelledError",)

    def initial(self) -> Any:
        return (None, frozenset())

    def descend(self, fi, ev) -> bool:
        return super().descend(fi, ev)

    def on_event(self, ev: Event, cs: Any) -> Any:
        k, flags = cs
        if k is None:
            return cs
        what = None
        if ev.kind == "enter" and self.callee_is(ev, "_RetryState._handle_failure"):
            what = "failure handling"
        if ev.kind == "call" and ev.target is not None:
            if ev.target.kind == "callback":
                what = f"callback {ev.target.category}"
            elif self.callee_is(ev, "Budget.consume"):
                what = "failure handling"
            elif self.is_operation(ev):
                what = "operation"
        if ev.kind == "iter":
            what = "next attempt"
        if what:
            return (k, flag1(flags, f"{what} after {k} was raised"))
        return cs

    def on_event_exc(self, ev: Event, cs: Any, kind: str) -> Any:
        k, flags = cs
        if k is None and kind in CANCEL_KINDS:
            return (kind, flags)
        return cs


def check_abort_table(rep: Report, prog: Program) -> None:
    rep.rule("R13.3a", "check_abort: no predicate or falsy answer -> return; truthy answer -> last_stop_reason=ABORTED, exactly one `aborted` emit with stop_reason=ABORTED, raise AbortRetryError")
    fi = prog.func("redress.policy.state:_RetryState.check_abort")
    rep.analysed(fi.qual)
    for p in engine(prog).paths(fi):
        polls = [e for e in p.calls() if e.callback() == "abort_if"]
        truthy = any(isinstance(a, tuple) and a[0] == "call" and str(a[2]) == "callback:abort_if" and pol for a, pol, _ in p.conds)
        rep.instance("R13.3a", "|".join(p.describe()[-3:]), {"path": p.describe()})
        if truthy:
            emits = [emit_info(e) for e in p.events if is_emit(e)]
            stores = [e for e in p.stores() if e.loc == attr(SELF, "last_stop_reason")]
            ok = (
                p.exit[0] == "raise" and p.exit[1] == "AbortRetryError"
                and len(polls) == 1
                and len(emits) == 1 and emits[0]["event_name"] == "ABORTED" and emits[0]["reason_name"] == "ABORTED" and emits[0]["attempt"] == ("param", "attempt")
                and len(stores) == 1 and enum_name(stores[0].value, "StopReason") == "ABORTED"
            )
        else:
            ok = p.exit == ("return", ("const", None)) and len(polls) <= 1 and not [e for e in p.events if is_emit(e)] and not p.stores()
        if ok:
            rep.ok("R13.3a")
        else:
            rep.fail("R13.3a", f"check_abort|truthy={truthy}|exit={p.exit[0]}", f"check_abort path (abort_if truthy: {truthy}) does not match the table: {p.describe()}", where=fi.where(), function=fi.qual, path=p.describe())
    rep.floor("R13.3a", 3)


def run(rep: Report, prog: Program, tier: str) -> None:
    rep.explanation = (
        "Typestate over the four runners (with summaries of state.py / retry_helpers.py / logic.py). Abort client: an "
        "abort poll (entry of check_abort) lies on every path from the loop head to the operation invocation and on every "
        "path from a failed attempt to the sleep handler / before_sleep / sleeper; after a true poll or an "
        "AbortRetryError from the operation no operation, sleep, strategy or budget event is reachable and the runner "
        "leaves by AbortRetryError (call) or an outcome with stop_reason ABORTED (execute). Cancellation client: for "
        "CancelledError / KeyboardInterrupt / SystemExit raised by the operation, the sleeper, a hook or a real "
        "suspension point, the path to the runner's exit crosses no callback, no failure handling and no loop head and "
        "ends in an exceptional exit of the same kind (handler matching uses the true subclass relation: these kinds are "
        "not below Exception, so `except Exception` guards do not match and a widened `except BaseException` does)."
    )
    rep.trusted_base = ["sa/absint.py", "sa/kinds.py subclass facts"]
    rep.assumptions = ["abort_if returns a Boolean and does not raise", "a sleep handler returns a SleepDecision member"]
    rep.not_decided = ["promptness in wall time", "thread cancellation inside _call_with_timeout's worker"]
    check_abort_table(rep, prog)
    rep.rule("R13.1", "an abort poll precedes every operation invocation of an iteration")
    rep.rule("R13.2", "an abort poll lies between a failed attempt and the sleep handler / before_sleep / sleeper")
    rep.rule("R13.3", "a true poll / AbortRetryError is final: no further work, exit by AbortRetryError (call) or stop_reason=ABORTED (execute)")
    abort_flow(rep, "R13.1", "R13.2", "R13.3", prog)
    rep.floor("R13.1", 40)
    cancellation_and_timeout(rep, prog)


def abort_flow(rep: Report, r1: str, r2: str, r3: str, prog: Program) -> None:
    res = run_runners(prog, lambda: AbortClient(prog))
    n_abort = 0
    for name, (interp, exits, client) in res.items():
        q = RUNNERS[name]
        rep.analysed(*interp.visited_funcs)
        for ex in exits:
            ph, po, ab, flags = ex.cstate
            construct = f"{name}|{ex.how}:{ex.kind}|ab={ab}"
            rep.instance(r1, construct, {"runner": q, "exit": f"{ex.how}:{ex.kind}", "aborting": ab} if len(rep.samples) < 14 else None)
            f1 = [f for f in flags if "without an abort poll since" in f]
            f2 = [f for f in flags if "without an abort poll after" in f]
            f3 = [f for f in flags if "after an abort" in f]
            for rid, fs in ((r1, f1), (r2, f2), (r3, f3)):
                if fs:
                    for f in fs:
                        rep.fail(rid, f"{name}|{f}", f"{q}: {f}", where=prog.func(q).where(), function=q, path=short_witness(interp, ex))
                else:
                    rep.ok(rid)
            if ab:
                n_abort += 1
                rep.instance(r3, construct)
                if name.endswith("call"):
                    ok = ex.how == "raise" and ex.kind == "AbortRetryError"
                    want = "raise AbortRetryError"
                else:
                    rv = ex.retval
                    fields = dict(rv[2]) if rv is not None and rv[0] == "i" else {}
                    ok = ex.how == "return" and fields.get("ok") == ("c", False) and fields.get("stop_reason") == ("e", "StopReason", "ABORTED")
                    want = "return an outcome with ok=False, stop_reason=ABORTED"
                if ok:
                    rep.ok(r3)
                else:
                    rep.fail(r3, f"{name}|abort-exit|{ex.how}:{ex.kind}", f"{q}: an aborted run must {want}; found {ex.how} {ex.kind} {ex.retval}", where=prog.func(q).where(), function=q, path=short_witness(interp, ex))
    if n_abort < 4:
        raise AnalysisError(f"abort flow: only {n_abort} aborting exits found")


class WideCancelClient(CancelClient):
    """thorough tier: a cancellation-type exception may be raised by *any* user callback
    (KeyboardInterrupt is delivered wherever the interpreter happens to be)"""

    name = "cancellation-pass-through-wide"
    fault = {"*": CANCEL_KINDS, "operation": CANCEL_KINDS}


def cancellation_and_timeout(rep: Report, prog: Program) -> None:
    rep.rule("R13.4", "CancelledError / KeyboardInterrupt / SystemExit raised by the operation, a sleep, a hook or a suspension point reach the runner's exit with the same kind and without any intervening callback, failure handling or new attempt")
    wide = rep.tier == "thorough"
    res = run_runners(prog, (lambda: WideCancelClient(prog)) if wide else (lambda: CancelClient(prog)))
    rep.extra["R13.4_fault_model"] = "every user callback (classifier, strategy, attempt hooks, abort_if, sleep handler, hooks, sleeper, operation) and every suspension point" if wide else "operation, sleeper, before_sleep, on_metric, on_log and every suspension point"
    n_cancel = 0
    for name, (interp, exits, client) in res.items():
        q = RUNNERS[name]
        for ex in exits:
            k, flags = ex.cstate
            if k is None:
                continue
            n_cancel += 1
            rep.instance("R13.4", f"{name}|{k}|{ex.how}:{ex.kind}")
            if flags:
                for f in sorted(flags):
                    rep.fail("R13.4", f"{name}|{f}", f"{q}: {f}", where=prog.func(q).where(), function=q, path=short_witness(interp, ex))
            elif not (ex.how == "raise" and ex.kind == k):
                rep.fail("R13.4", f"{name}|{k}-swallowed|{ex.how}:{ex.kind}", f"{q}: {k} raised during the run does not propagate unchanged (runner exits by {ex.how} {ex.kind or ''})", where=prog.func(q).where(), function=q, path=short_witness(interp, ex))
            else:
                rep.ok("R13.4")
    if n_cancel < 12:
        raise AnalysisError(f"C13: only {n_cancel} cancellation exits found")

    rep.rule("R13.6", "what users raise to abort is what the runners catch: the documented alias AbortRetry is (a subclass of) AbortRetryError")
    from .foundations import alias_is_class

    alias_is_class(rep, "R13.6", prog, "redress.errors", "AbortRetry", "AbortRetryError")
    rep.floor("R13.6", 1)

    rep.rule("R13.7", "the abort predicate the caller passed is the one that is polled: `abort_if` reaches every delegate unchanged through all layers (decorator, sugar, policy, retry, runner) - not a copy, not a wrapper, not another layer's predicate (= the abort_if obligations of C12 R12.3)")
    from .c12 import forwarding
    from .common import RuleView

    forwarding(RuleView(rep, "R13.7", keep=lambda key, msg: "abort_if" in key or "abort_if" in msg), prog, strict=False)
    rep.floor("R13.7", 100)

    rep.rule("R13.8", "cancellation is never swallowed at the policy layer: on every path of Policy.call/execute and AsyncPolicy.call/execute on which a KeyboardInterrupt, SystemExit, CancelledError or GeneratorExit was raised (by the operation, the retry component or at an await), the entry point ends by raising that very kind - it may tell the breaker on the way, it may not return")
    from .breaker_flow import ENTRY_POINTS, flow

    F8 = flow(prog, "stated")
    CANCEL8 = ("KeyboardInterrupt", "SystemExit", "CancelledError", "GeneratorExit")
    n8 = 0
    bad8: set = set()
    for q8 in ENTRY_POINTS:
        for ex in F8.exits[q8]:
            steps = F8.interp.witness_path(ex.witness)
            raised = [st[1] for st in steps if st and st[0] == "raise" and len(st) > 1 and st[1] in CANCEL8]
            if not raised:
                continue
            n8 += 1
            k8 = raised[-1]
            rep.instance("R13.8", f"{q8.split(':')[1]}|{k8}|{ex.how}:{ex.kind}")
            if ex.how == "raise" and ex.kind == k8:
                rep.ok("R13.8")
            elif (q8, k8, ex.how, ex.kind) not in bad8:
                bad8.add((q8, k8, ex.how, ex.kind))
                rep.fail("R13.8", f"{q8.split(':')[1]}|{k8}|{ex.how}:{ex.kind}", f"{q8}: a {k8} raised during the call ends the entry point by {ex.how} {ex.kind or ''} instead of propagating", where=prog.func(q8).where(), function=q8, path=F8.witness(ex))
            else:
                rep.ok("R13.8")
    rep.floor("R13.8", 16)

    rep.rule("R13.5", "_call_with_timeout re-raises what the worker raised unchanged, except the documented future-timeout -> TimeoutError mapping")
    fi = prog.func("redress.policy.runner.sync_core:_call_with_timeout")
    kinds = ("CancelledError", "KeyboardInterrupt", "SystemExit", "AbortRetryError", "OtherException", "TimeoutError")

    def is_result_call(ev) -> bool:
        f = ev.node.ast.func if isinstance(ev.node.ast, ast.Call) else None
        return ev.kind == "call" and ((ev.lib() or "").endswith(".submit().result") or (isinstance(f, ast.Attribute) and f.attr == "result" and not any(t.kind in ("repo", "ctor", "callback") for t in ev.targets)))

    def raises(ev, cfg):
        if is_result_call(ev):
            return kinds
        return ()

    worker_pool(rep, "R13.5", prog, fi)
    # an operation run inside a hand-made worker (the `target=` of a Thread: closure or module-level function): whatever
    # catches its exceptions there must catch BaseException, or KeyboardInterrupt / SystemExit / CancelledError die in
    # the worker instead of propagating unchanged
    mod_funcs = [f for f in prog.funcs.values() if f.module is fi.module]
    thread_targets: set[str] = set()
    for f in mod_funcs:
        for n in prog._own_nodes(f.node):
            if isinstance(n, ast.Call) and ast.unparse(n.func).split(".")[-1] == "Thread":
                for kw in n.keywords:
                    if kw.arg == "target" and isinstance(kw.value, ast.Name):
                        thread_targets.add(kw.value.id)
    hand_made = False
    for sub_f in mod_funcs:
        if sub_f.name not in thread_targets and sub_f not in _nested(fi):
            continue
        callables = set(sub_f.param_names()) | set(fi.param_names())
        for n in ast.walk(sub_f.node):
            if isinstance(n, ast.Try) and any(isinstance(c, ast.Call) and isinstance(c.func, ast.Name) and c.func.id in callables for b in n.body for c in ast.walk(b)):
                hand_made = True
                rep.instance("R13.5", f"{sub_f.qual}|worker-handler")
                classes = [c for h in n.handlers for c in cfgs(prog).kinds.handler_classes(h.type, sub_f)]
                if "BaseException" in classes or not n.handlers:
                    rep.ok("R13.5")
                else:
                    rep.fail("R13.5", f"{sub_f.qual.split(':')[1]}|worker-drops-base-exceptions", f"{sub_f.qual}: the operation runs in a worker whose handler catches only {classes}: KeyboardInterrupt / SystemExit / CancelledError raised by the operation are lost in the worker instead of propagating unchanged", where=sub_f.where(n), function=sub_f.qual)

    seen = set()
    for p in engine(prog).paths(fi, raises=raises, key="c13"):
        if p.exit[0] != "raise":
            continue
        src = [e.value for e in p.events if e.kind == "exc"]
        if not src:
            continue
        k = src[0]
        seen.add(k)
        rep.instance("R13.5", f"{k}->{p.exit[1]}")
        if p.exit[1] == k:
            rep.ok("R13.5")
        else:
            rep.fail("R13.5", f"_call_with_timeout|{k}->{p.exit[1]}", f"_call_with_timeout turns {k} from the operation into {p.exit[1]}", where=fi.where(), function=fi.qual, path=p.describe())
    if len(seen) < len(kinds) and not (hand_made and not seen):
        # (with a hand-made worker there is no future.result() to follow: the worker-handler rule above decides)
        raise AnalysisError(f"R13.5: only kinds {sorted(seen)} explored")


def worker_pool(rep: Report, rid: str, prog: Program, fi=None) -> None:
    """each timed attempt runs on an executor of its own, created in the invocation that submits it: a hung attempt can
    then neither occupy a worker the next attempt needs nor leave it queued and cancelled without ever being invoked.
    Looks at every `.submit(...)` in the sync runner module (wherever the timeout helper lives today)."""
    cands = [f for f in prog.funcs.values() if f.module.name == "redress.policy.runner.sync_core" or (fi is not None and f is fi)]
    found = 0
    for fi in cands:
      subs = [n for n in prog._own_nodes(fi.node) if isinstance(n, ast.Call) and isinstance(n.func, ast.Attribute) and n.func.attr == "submit"]
      found += len(subs)
      for n in subs:
          rep.instance(rid, f"_call_with_timeout|executor@{n.lineno}")
          recv = n.func.value
          local_ctor = False
          if isinstance(recv, ast.Name):
              binds = [a.value for a in prog._own_nodes(fi.node) if isinstance(a, ast.Assign) and len(a.targets) == 1 and isinstance(a.targets[0], ast.Name) and a.targets[0].id == recv.id]
              binds += [it.context_expr for w in prog._own_nodes(fi.node) if isinstance(w, ast.With) for it in w.items if isinstance(it.optional_vars, ast.Name) and it.optional_vars.id == recv.id]
              local_ctor = len(binds) == 1 and isinstance(binds[0], ast.Call) and ast.unparse(binds[0].func).split(".")[-1] in ("ThreadPoolExecutor", "ProcessPoolExecutor")
          elif isinstance(recv, ast.Call):
              local_ctor = ast.unparse(recv.func).split(".")[-1] in ("ThreadPoolExecutor", "ProcessPoolExecutor")
          if local_ctor:
              rep.ok(rid)
          else:
              rep.fail(rid, f"_call_with_timeout|shared-executor|{ast.unparse(recv)[:30]}", f"{fi.qual}: the attempt is submitted to `{ast.unparse(recv)}`, which is not an executor created for this attempt: attempts that hang keep its workers busy, later attempts are queued, time out and are cancelled without the operation ever being invoked (sync and async runs then differ)", where=fi.where(n), function=fi.qual)
    if not found:
        threads = [n for f in cands for n in prog._own_nodes(f.node) if isinstance(n, ast.Call) and ast.unparse(n.func).split(".")[-1] == "Thread"]
        if threads:
            # no pool at all: a thread made for the attempt is a worker of its own (what the worker does with the
            # operation's exceptions is judged by the caller of this rule)
            rep.instance(rid, f"_call_with_timeout|thread@{threads[0].lineno}")
            rep.ok(rid)
            return
        raise AnalysisError("no executor.submit(...) found in the sync runner: the attempt-timeout mechanism changed beyond what this rule understands")


def _nested(fi):
    out = []
    for s_ in fi.nested.values():
        out.append(s_)
        out.extend(_nested(s_))
    return out
