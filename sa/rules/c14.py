"""C14 - event stream explains every run: retry* then exactly one terminal event."""

from __future__ import annotations

import ast
from typing import Any

from ..absint import Event
from ..ctx import engine
from ..model import AnalysisError, Program
from ..paths import SymPath, show
from ..report import Report
from .common import is_attempt_no, is_loop_var, HANDLE_FAILURE, REASON_EVENT, RUNNERS, SELF, attr, check_enums, emit_info, enum_name, is_emit, runner_paths
from .runner_flow import RunnerClient, flag1, run_runners, short_witness

TERMINAL_NO_REASON = {"SUCCESS"}


class ProtocolClient(RunnerClient):
    name = "event-protocol"
    fault = {"operation": ("AbortRetryError", "OtherException", "RetryExhaustedError")}
    tracked = RunnerClient.tracked | {"last_exc"}

    def __init__(self, prog: Program) -> None:
        super().__init__(prog)
        self.emit_sites: dict[str, str] = {}

    def initial(self) -> Any:
        # (protocol state, reason of the terminal event, delivered reason, flags)
        return ("RUN", None, None, frozenset())

    def descend(self, fi, ev) -> bool:
        if fi.qual.endswith("_RetryState.emit"):
            return False
        return super().descend(fi, ev)

    def on_event(self, ev: Event, cs: Any) -> Any:
        st, term, deliv, flags = cs
        if ev.kind == "call" and self.callee_is(ev, "_RetryState.emit"):
            name = ev.arg_value(0, "event")
            reason = ev.arg_value(5, "stop_reason")
            ename = name[2] if name is not None and name[0] == "e" and name[1] == "EventName" else None
            rname = reason[2] if reason is not None and reason[0] == "e" else ("none" if reason == ("c", None) or ev.arg(5, "stop_reason") is None else None)
            self.emit_sites[f"{ev.where()} {ename}/{rname}"] = f"{ename}/{rname}"  # keyed by (site, label): one emit inside a shared helper/closure counts once per event it is asked to emit
            if ename is None or rname is None:
                return (st, term, deliv, flag1(flags, f"emit with a non-constant event name or stop_reason at {ev.func.qual}"))
            terminal = ename in TERMINAL_NO_REASON or rname != "none"
            if st == "DONE":
                return (st, term, deliv, flag1(flags, f"`{ename}` emitted after the terminal event `{term}`"))
            if terminal:
                if ename not in TERMINAL_NO_REASON and REASON_EVENT.get(rname) != ename:
                    flags = flag1(flags, f"terminal event `{ename}` carries stop_reason {rname} (paired event is {REASON_EVENT.get(rname)})")
                if ename in TERMINAL_NO_REASON and rname != "none":
                    flags = flag1(flags, f"`{ename}` carries a stop_reason")
                # the state's stop reason must agree with the tag when the tag is emitted
                return ("DONE", f"{ename}/{rname}", deliv, flags)
            if ename != "RETRY":
                flags = flag1(flags, f"non-terminal event `{ename}` (only `retry` may precede the terminal event)")
            return (st, term, deliv, flags)
        if ev.kind == "call" and ev.target is not None and ev.target.kind == "ctor" and ev.target.cls is not None and ev.target.cls.name == "RetryExhaustedError":
            r = ev.arg_value(0, "stop_reason")
            if r is not None and r[0] == "e":
                return (st, term, r[2], flags)
            return (st, term, "?", flags)
        return cs


def protocol(rep: Report, r1: str, r2: str, prog: Program, which: tuple | None = None) -> dict[str, str]:
    """event protocol (r1) and delivered-reason agreement (r2) over the runners; returns the emit sites reached"""
    res = run_runners(prog, lambda: ProtocolClient(prog), which=which) if which else run_runners(prog, lambda: ProtocolClient(prog))
    sites: dict[str, str] = {}
    for name, (interp, exits, client) in res.items():
        q = RUNNERS[name]
        rep.analysed(*interp.visited_funcs)
        sites.update(client.emit_sites)
        for ex in exits:
            st, term, deliv, flags = ex.cstate
            construct = f"{name}|{ex.how}:{ex.kind}|{st}|{term}|{deliv}"
            rep.instance(r1, construct, {"runner": q, "exit": f"{ex.how}:{ex.kind}", "protocol": st, "terminal": term} if len(rep.samples) < 16 else None)
            if flags:
                for f in sorted(flags):
                    rep.fail(r1, f"{name}|{f}", f"{q}: {f}", where=prog.func(q).where(), function=q, path=short_witness(interp, ex))
                continue
            normal_end = ex.how == "return" or ex.kind in ("AbortRetryError", "RetryExhaustedError", "OtherException")
            # an operation's own RetryExhaustedError (nested policy) propagates untouched: no terminal event is due
            nested = ex.how == "raise" and ex.kind == "RetryExhaustedError" and deliv is None
            if normal_end and not nested and st != "DONE":
                rep.fail(r1, f"{name}|no-terminal-event|{ex.how}:{ex.kind}", f"{q}: the run ends by {ex.how} {ex.kind or ''} without a terminal event", where=prog.func(q).where(), function=q, path=short_witness(interp, ex))
                continue
            rep.ok(r1)
            if st != "DONE" or term is None:
                continue
            ename, rname = term.split("/")
            rep.instance(r2, construct)
            problem = None
            if ex.how == "return" and name.endswith("execute"):
                rv = ex.retval
                fields = dict(rv[2]) if rv is not None and rv[0] == "i" else {}
                sr = fields.get("stop_reason")
                okv = fields.get("ok")
                if ename == "SUCCESS":
                    if okv != ("c", True) or sr not in (("c", None), None):
                        problem = f"terminal `success` but outcome ok={okv} stop_reason={sr}"
                else:
                    if okv != ("c", False):
                        problem = f"terminal `{ename}` but outcome ok={okv}"
                    elif sr is None or sr[0] != "e" or sr[2] != rname:
                        problem = f"terminal event tag stop_reason={rname} but outcome.stop_reason={sr}"
            elif ex.how == "raise" and ex.kind == "RetryExhaustedError":
                if deliv not in (None, "?") and deliv != rname:
                    problem = f"terminal event tag stop_reason={rname} but RetryExhaustedError.stop_reason={deliv}"
            elif ex.how == "raise" and ex.kind == "AbortRetryError":
                if rname != "ABORTED":
                    problem = f"run ends by AbortRetryError but the terminal event says {rname}"
            elif ex.how == "return" and ename != "SUCCESS":
                problem = f"call() returns a value but the terminal event is `{ename}`"
            if problem:
                rep.fail(r2, f"{name}|{ex.how}:{ex.kind}|{term}|{deliv}", f"{q}: {problem}", where=prog.func(q).where(), function=q, path=short_witness(interp, ex))
            else:
                rep.ok(r2)
    return sites


def run(rep: Report, prog: Program, tier: str) -> None:
    check_enums(prog)
    rep.explanation = (
        "Protocol typestate over the four runners: every emit site is resolved to its EventName constant and classified "
        "retry / terminal (success or carrying stop_reason=); automaton RUN -retry-> RUN, RUN -terminal-> DONE, any emit "
        "in DONE is an error; at every exit that ends the run normally (return, AbortRetryError, RetryExhaustedError, the "
        "operation's own exception) the state must be DONE and the stop reason delivered to the caller equals the "
        "terminal event's tag. last_stop_reason facts are tracked so the `is not StopReason.ABORTED` guards are followed "
        "precisely. Field tables (path enumeration): _RetryState.emit builds the tags once from the like-named "
        "parameters and feeds both sinks on every path; the timeline wrapper records before delegating; "
        "_emit_breaker_event reports attempt 0 / 0.0 / the breaker state; the retry event's attempt is the loop variable "
        "and its sleep_s the sanitised delay."
    )
    rep.trusted_base = ["sa/absint.py, sa/paths.py", "stop-reason/event pairing table (docs/observability.md)"]
    rep.assumptions = ["callbacks return normally; the run ends normally (value, failure, deferral or abort)", "a sleep handler returns a SleepDecision member"]
    rep.not_decided = ["elapsed_s in timeline events (a clock reading)"]

    rep.rule("R14.1", "protocol: retry* then exactly one terminal event on every path that ends the run normally")
    rep.rule("R14.2", "the stop reason delivered to the caller (outcome.stop_reason / RetryExhaustedError.stop_reason) equals the terminal event's stop_reason tag")
    sites = protocol(rep, "R14.1", "R14.2", prog)
    rep.extra["emit_sites"] = sites
    if len(sites) < 15:
        raise AnalysisError(f"C14: only {len(sites)} emit sites reached (17 confirmed by reading)")
    rep.floor("R14.1", 60)
    rep.floor("R14.2", 30)

    # ---- R14.3 numbering / sleep value of the retry event
    rep.rule("R14.3", "the `retry` event carries attempt = the loop variable and sleep_s = the sanitised delay; terminal events of _handle_failure carry the same attempt and 0.0")
    numbering(rep, "R14.3", prog)
    rep.floor("R14.3", 9 + 8 + 2)

    # ---- R14.4 emit feeds both sinks with the same stream
    rep.rule("R14.4", "_RetryState.emit: tags built once from the like-named parameters; on_metric(event, attempt, sleep_s, tags) and on_log(event, {attempt, sleep_s, **tags}) are both reached whenever present; the timeline wrapper records every event before delegating")
    ef = prog.func("redress.policy.state:_RetryState.emit")
    rep.analysed(ef.qual)
    TAGS = {"class": ("klass", lambda v: v == attr(("param", "klass"), "name")), "err": ("exc", None), "stop_reason": ("stop_reason", lambda v: v == attr(("param", "stop_reason"), "value")), "cause": ("cause", lambda v: v == ("param", "cause")), "operation": (None, lambda v: v == attr(SELF, "operation"))}
    seen_bad = set()
    for p in engine(prog).paths(ef):
        lits = {repr(a): pol for a, pol, _ in p.conds}

        def present(param: str) -> bool | None:
            k = repr(("cmp", "is", ("param", param), ("const", None)))
            return None if k not in lits else (not lits[k])

        stores = {}
        for e in p.stores():
            if e.loc[0] == "sub" and e.loc[2][0] == "const":
                stores.setdefault(e.loc[2][1], []).append(e)
        problem = None
        for tag, (param, valok) in TAGS.items():
            got = [e for e in stores.get(tag, []) if e.loc[1][0] in ("pure", "dict")]
            if param is not None:
                want = present(param)
                if want is None:
                    problem = problem or f"presence of `{param}` is not tested"
                elif want != (len(got) == 1):
                    problem = problem or f"tag `{tag}` written {len(got)} times although {param} is {'present' if want else 'absent'}"
            else:
                k = repr(attr(SELF, "operation"))
                want = lits.get(k)
                if want is None:
                    problem = problem or "self.operation is not tested"
                elif want != (len(got) == 1):
                    problem = problem or f"tag `operation` written {len(got)} times although self.operation is {'set' if want else 'unset'}"
            for e in got:
                if valok is not None and not valok(e.value):
                    problem = problem or f"tag `{tag}` := {show(e.value)}"
        m_present = present_attr(lits, "on_metric")
        l_present = present_attr(lits, "on_log")
        mcalls = [e for e in p.calls() if e.callback() == "on_metric"]
        lcalls = [e for e in p.calls() if e.callback() == "on_log"]
        if m_present is None or l_present is None:
            problem = problem or "sink presence is not tested on this path"
        else:
            if (len(mcalls) == 1) != m_present or len(mcalls) > 1:
                problem = problem or f"on_metric called {len(mcalls)} times although it is {'present' if m_present else 'absent'}"
            if (len(lcalls) == 1) != l_present or len(lcalls) > 1:
                problem = problem or f"on_log called {len(lcalls)} times although it is {'present' if l_present else 'absent'}"
        for e in mcalls:
            if e.args[:3] != [("param", "event"), ("param", "attempt"), ("param", "sleep_s")] or len(e.args) != 4 or e.args[3][0] not in ("pure", "dict"):
                problem = problem or f"on_metric receives {[show(a) for a in e.args]}"
            else:
                # the tags object handed over is the one the stores above went into
                tags_obj = e.args[3]
                for tag, es in stores.items():
                    for s in es:
                        if s.loc[1] != tags_obj and tag in TAGS:
                            problem = problem or f"tag `{tag}` is written into a different dict than the one handed to on_metric"
                last_store = max([p.index_of(s) for es in stores.values() for s in es if s.loc[1] == tags_obj] or [-1])
                if last_store > p.index_of(e):
                    problem = problem or "a tag is written after on_metric was called"
        for e in lcalls:
            f = e.args[1] if len(e.args) > 1 else None
            good = e.args and e.args[0] == ("param", "event") and f is not None and f[0] == "dict"
            if good:
                d = {k[1] if k[0] == "const" else "**": v for k, v in f[1]}
                tags_t = mcalls[0].args[3] if mcalls else None
                # the tags are spread into the fields: `**tags`, `fields.update(tags)`, or an item-by-item copy loop
                spread = "**" in d and (tags_t is None or d["**"] == tags_t)
                if not spread:
                    for x in p.events:
                        if x.kind == "call" and not x.pure and x.recv == f and isinstance(x.node.ast, ast.Call) and isinstance(x.node.ast.func, ast.Attribute) and x.node.ast.func.attr == "update" and len(x.args) == 1 and (tags_t is None or x.args[0] == tags_t):
                            spread = True
                        if x.kind == "iter" and x.value != "zero" and isinstance(x.recv, tuple) and x.recv[0] == "pure" and x.recv[1] == ".items" and (tags_t is None or x.recv[2][0] == tags_t):
                            copies = [s for s in p.stores() if s.loc[0] == "sub" and s.loc[1] == f and isinstance(s.loc[2], tuple) and s.loc[2][0] == "fresh" and isinstance(s.value, tuple) and s.value[0] == "fresh" and s.loc[2][1] == s.value[1]]
                            spread = spread or bool(copies)
                    if not spread and any(x.kind == "iter" and x.value == "zero" and isinstance(x.recv, tuple) and x.recv[0] == "pure" and x.recv[1] == ".items" for x in p.events):
                        spread = True  # the zero-iteration path of the copy loop (no tags to copy)
                good = d.get("attempt") == ("param", "attempt") and d.get("sleep_s") == ("param", "sleep_s") and spread
            if not good:
                problem = problem or f"on_log receives {[show(a) for a in e.args]}"
        rep.instance("R14.4", "emit|" + "|".join(sorted(k for k, v in lits.items() if v))[:150])
        if problem is None:
            rep.ok("R14.4")
        elif problem not in seen_bad:
            seen_bad.add(problem)
            rep.fail("R14.4", f"emit|{problem[:60]}", f"_RetryState.emit: {problem}", where=ef.where(), function=ef.qual, path=p.describe())
    rep.floor("R14.4", 64)
    # timeline wrapper
    tl = prog.func("redress.policy.runner.timeline:_resolve_timeline")
    from .common import timeline_hook

    from .common import timeline_hook_paths

    hook, hook_ref, hp, hook_paths = timeline_hook_paths(prog)
    rep.analysed(hook.qual)
    for p in hook_paths:
        # the record step: one TimelineEvent built from the hook's own (event, attempt, sleep_s) - in a collector method
        # read through here, or in the hook itself - and added to the timeline
        recs = [e for e in p.calls(pure=None) if e.is_ctor("TimelineEvent")]
        dele = [e for e in p.calls() if e.callback() == "on_metric"]
        params = [("param", n) for n in hp]
        rep.instance("R14.4", "timeline-hook|" + "|".join(p.describe()[-2:]))
        adds = [e for e in p.calls() if isinstance(e.node.ast, ast.Call) and isinstance(e.node.ast.func, ast.Attribute) and e.node.ast.func.attr == "add" and recs and e.args and e.args[0] == recs[0].result]
        ok = len(recs) == 1 and len(hp) == 4 and all(recs[0].kwargs.get(k) == ("param", hp[i]) for i, k in enumerate(("event", "attempt", "sleep_s"))) and len(adds) == 1 and all(d.args == params for d in dele) and len(dele) <= 1
        if dele and ok:
            ok = p.index_of(adds[0]) < p.index_of(dele[0])
        # "no caller hook": the closure's free `on_metric`, or the field of the collector it was stored in
        none_branch = any(a[0] == "cmp" and a[1] == "is" and a[3] == ("const", None) and pol and (a[2] == ("free", "on_metric") or (isinstance(a[2], tuple) and a[2][0] == "attr" and a[2][1] == ("param", hook.param_names()[0]))) for a, pol, _ in p.conds)
        ok = ok and (bool(dele) != none_branch)
        if ok:
            rep.ok("R14.4")
        else:
            rep.fail("R14.4", "timeline-hook|shape", f"timeline wrapper must record(event, attempt, sleep_s, tags) first and then delegate the same arguments to on_metric when present: {p.describe()}", where=hook.where(), function=hook.qual)
    for p in engine(prog).paths(tl):
        if p.exit[0] == "return":
            rv = p.exit[1]
            off = any(a == ("param", "capture_timeline") and not pol for a, pol, _ in p.conds)
            rep.instance("R14.4", f"_resolve_timeline|capture={'off' if off else 'on'}")
            if off:
                ok = rv == ("tuple", (("const", None), ("param", "on_metric")))
            else:
                ok = rv[0] == "tuple" and len(rv[1]) == 2 and rv[1][1] == hook_ref
            if ok:
                rep.ok("R14.4")
            else:
                rep.fail("R14.4", f"_resolve_timeline|return|capture={'off' if off else 'on'}", f"_resolve_timeline returns {show(rv)}", where=tl.where(), function=tl.qual)

    # ---- R14.5 breaker events
    rep.rule("R14.5", "_emit_breaker_event reports attempt 0, sleep 0.0 and tags['state'] = state.value to both sinks; emit_breaker_event forwards its event/state unchanged")
    # decided on ExecutionContext.emit_breaker_event as a whole, with the private helper it delegates to (today
    # policy_helpers._emit_breaker_event) inlined: which of the two functions builds the tags is the code's business
    from ..ctx import cfgs
    from ..paths import PathEngine, default_inline

    e5 = PathEngine(prog, cfgs(prog))
    base5 = default_inline()
    e5.inline = lambda fn: base5(fn) or fn.name == "_emit_breaker_event"
    xf = prog.func("redress.policy.execution:ExecutionContext.emit_breaker_event")
    rep.analysed(xf.qual)
    if "redress.policy.policy_helpers:_emit_breaker_event" in prog.funcs:
        rep.analysed("redress.policy.policy_helpers:_emit_breaker_event")
    EV5, ST5 = ("param", "event"), ("param", "state")

    def present_attr5(p: SymPath, name: str) -> bool | None:
        for a, pol, _ in p.conds:
            if a == ("cmp", "is", attr(SELF, name), ("const", None)):
                return not pol
        return None

    for p in e5.paths(xf):
        mcalls = [e for e in p.calls() if e.callback() == "on_metric"]
        lcalls = [e for e in p.calls() if e.callback() == "on_log"]
        none_ev = any(a == ("cmp", "is", EV5, ("const", None)) and pol for a, pol, _ in p.conds)
        rep.instance("R14.5", f"emit_breaker_event|event_none={none_ev}|" + "|".join(p.describe()[-3:])[:100])
        problem = None
        if none_ev:
            if mcalls or lcalls:
                problem = "a sink is called although there is no event to report"
        else:
            for e in mcalls:
                t = e.args[3] if len(e.args) == 4 else None
                if e.args[:3] != [EV5, ("const", 0), ("const", 0.0)] or t is None or t[0] != "dict" or dict((k[1], v) for k, v in t[1] if k[0] == "const").get("state") != attr(ST5, "value"):
                    problem = f"on_metric receives {[show(a) for a in e.args]}"
                elif e.recv is not None and False:
                    pass
            for e in lcalls:
                f = e.args[1] if len(e.args) > 1 else None
                d = {k[1] if k[0] == "const" else "**": v for k, v in f[1]} if f is not None and f[0] == "dict" else {}
                if e.args[0] != EV5 or d.get("attempt") != ("const", 0) or d.get("sleep_s") != ("const", 0.0) or "**" not in d:
                    problem = problem or f"on_log receives {[show(a) for a in e.args]}"
            mp = present_attr5(p, "on_metric")
            lp = present_attr5(p, "on_log")
            if mp is None or lp is None or (len(mcalls) == 1) != mp or (len(lcalls) == 1) != lp:
                problem = problem or f"sinks called metric={len(mcalls)} log={len(lcalls)} with presence metric={mp} log={lp}"
        if problem:
            rep.fail("R14.5", f"emit_breaker_event|{problem[:50]}", f"ExecutionContext.emit_breaker_event: {problem}", where=xf.where(), function=xf.qual, path=p.describe())
        else:
            rep.ok("R14.5")
    rep.floor("R14.5", 6)

    _delay_applied(rep, prog)
    rep.rule("R14.7", "the class / err / cause tags of a terminal event describe the final failure: terminal events emitted after the failure handling (scheduled, post-sleep deadline / attempt cap) take them from the run state's last_* fields or from the current failure's own arguments, and those fields are overwritten as a set by every failure (= C04 R4.4)")
    ST7 = ("param", "state")
    n7 = 0
    _sd_allowed = {"klass": [attr(ST7, "last_class")], "exc": [attr(ST7, "last_exc")], "cause": [attr(ST7, "last_cause")]}
    # (the decision step: `_handle_sleep_decision`, or - where its body lives in the two sleep steps - those)
    _sd_exists = any(f0.name == "_handle_sleep_decision" and f0.cls is None for f0 in prog.funcs.values())  # (wherever it lives)
    _sd_sites = [("redress.policy.retry_helpers:_handle_sleep_decision", _sd_allowed)] if _sd_exists else [("redress.policy.retry_helpers:_sync_sleep_action", _sd_allowed), ("redress.policy.retry_helpers:_async_sleep_action", _sd_allowed)]
    for q7, allowed in (
        *_sd_sites,
        ("redress.policy.retry_helpers:_finalize_attempt", {"klass": [attr(ST7, "last_class"), attr(("param", "classification"), "klass")], "exc": [("param", "exception"), attr(ST7, "last_exc")], "cause": [("param", "cause"), attr(ST7, "last_cause")]}),
    ):
        f7 = prog.func(q7)
        rep.analysed(q7)
        seen7: set = set()
        for p in engine(prog).paths(f7):
            for e in p.events:
                if not is_emit(e):
                    continue
                info = emit_info(e)
                if info["event_name"] in (None, "RETRY", "ABORTED", "SUCCESS"):
                    continue
                key = (e.node.lineno, info["event_name"])  # one emit in a shared helper counts once per event it is asked to emit
                if key in seen7:
                    continue
                seen7.add(key)
                n7 += 1
                rep.instance("R14.7", f"{q7.split(':')[1]}|{info['event_name']}")
                bad = {k: show(info[k]) for k, v in allowed.items() if info[k] not in v}
                if bad:
                    rep.fail("R14.7", f"{q7.split(':')[1]}|{info['event_name']}|{sorted(bad)[0]}", f"{q7}: terminal event `{info['event_name']}` carries {bad}; expected the final failure's class / exception / cause", where=f7.where(e.node.ast), function=q7, path=p.describe())
                else:
                    rep.ok("R14.7")
    if n7 < 3:
        raise AnalysisError(f"R14.7: only {n7} terminal emit sites found after the failure handling (3 confirmed by hand)")
    from .c04 import final_failure_state

    final_failure_state(rep, "R14.7", prog)
    rep.floor("R14.7", 12)

    rep.rule("R14.9", "`the breaker's state` in a breaker event is the state after the transition it reports: the decision returned by CircuitBreaker.allow() carries the state read after any OPEN -> HALF_OPEN step (= the `ret` column of C07 R7.1), and _BreakerDecision hands it on unchanged")
    from .breaker_table import check_method
    from .foundations import records_transparent

    check_method(rep, "R14.9", prog, "allow")
    records_transparent(rep, "R14.9", prog, ["redress.circuit:_BreakerDecision"])
    rep.floor("R14.9", 12)

    rep.rule("R14.6", "breaker events report what just happened: at every emit_breaker_event site the event is the answer of the breaker operation made on that path (allow().event / record_*()) and the state is the admission's own state or the breaker's state read after that operation")
    CBQ = "redress.circuit:CircuitBreaker"
    n_sites = 0
    for fn in list(prog.funcs.values()):
        if not fn.module.name.startswith("redress.policy"):
            continue
        if not any(isinstance(n, ast.Attribute) and n.attr == "emit_breaker_event" for n in prog._own_nodes(fn.node)):
            continue
        if fn.qual.endswith("ExecutionContext.emit_breaker_event"):
            continue
        rep.analysed(fn.qual)
        seen6: set = set()
        for p in engine(prog).paths(fn):
            for e in p.calls(pure=None):
                if not e.is_repo("ExecutionContext.emit_breaker_event"):
                    continue
                i_emit = p.index_of(e)
                ops = [(p.index_of(x), x) for x in p.calls(pure=None) if any(t.func is not None and t.func.qual in (f"{CBQ}.allow", f"{CBQ}.record_success", f"{CBQ}.record_failure") for t in x.targets) and p.index_of(x) < i_emit]
                ev_arg = e.args[0] if e.args else e.kwargs.get("event")
                st_arg = e.args[1] if len(e.args) > 1 else e.kwargs.get("state")
                st_ast = e.node.ast.args[1] if len(e.node.ast.args) > 1 else next((k.value for k in e.node.ast.keywords if k.arg == "state"), None)
                key = (e.node.lineno, show(ev_arg), show(st_arg), bool(ops))
                if key in seen6:
                    continue
                seen6.add(key)
                n_sites += 1
                rep.instance("R14.6", f"{fn.qual}|L{e.node.lineno}")
                problem = None
                if not ops:
                    problem = "no breaker operation precedes the event on this path"
                else:
                    i_op, op = ops[-1]
                    is_allow = any(t.func is not None and t.func.qual == f"{CBQ}.allow" for t in op.targets)
                    want_ev = attr(op.result, "event") if is_allow else op.result
                    if ev_arg != want_ev:
                        problem = f"the event reported is {show(ev_arg)}, not the answer of {op.label.split(':')[-1]}"
                    elif is_allow and st_arg == attr(op.result, "state"):
                        pass
                    elif isinstance(st_arg, tuple) and st_arg[0] == "attr" and st_arg[2] == "state" and st_arg[1] == op.recv:
                        # the breaker's state property: it must be read after the operation
                        if isinstance(st_ast, ast.Name):
                            reads = [i for i, it in enumerate(p.items) if it[0] == "ev" and it[1].kind == "lstore" and it[1].loc == ("local", st_ast.id) and i < i_emit]
                            if not reads or reads[-1] < i_op:
                                problem = f"the state reported was read (into `{st_ast.id}`) before {op.label.split('.')[-1]}() changed it"
                    else:
                        problem = f"the state reported is {show(st_arg)}, not the state of the breaker that was just told"
                if problem:
                    rep.fail("R14.6", f"{fn.qual}|{problem[:50]}", f"{fn.qual}: {problem}", where=fn.where(e.node.ast), function=fn.qual, path=p.describe())
                else:
                    rep.ok("R14.6")
    if n_sites < 3:
        # rejection, the success side and the failure side each report somewhere (helpers may share a site)
        raise AnalysisError(f"R14.6: only {n_sites} emit_breaker_event sites found (at least 3 expected: rejected / after success / after failure)")
    rep.floor("R14.6", 3)


def present_attr(lits: dict, name: str) -> bool | None:
    k = repr(("cmp", "is", attr(SELF, name), ("const", None)))
    return None if k not in lits else (not lits[k])


def numbering(rep: Report, rid: str, prog: Program) -> None:
    """attempt numbers and delays travel unchanged: runner loop variable -> handle_exception / handle_result ->
    _handle_failure -> the `retry` event (with the delay that is returned) and the terminal events"""
    fi = prog.func(HANDLE_FAILURE)
    n = 0
    for p in engine(prog).paths(fi):
        for e in p.events:
            if is_emit(e):
                info = emit_info(e)
                n += 1
                rep.instance(rid, f"_handle_failure|{info['event_name']}")
                ok = info["attempt"] == ("param", "attempt") and info["recv"] == SELF
                if info["event_name"] == "RETRY":
                    d = p.exit[1] if p.exit[0] == "return" else None
                    ok = ok and d is not None and d[0] == "pure" and len(d[2]) >= 2 and d[2][1] == info["sleep_s"]
                    ok = ok and info["klass"] == attr(("param", "classification"), "klass") and info["exc"] == ("param", "exc") and info["cause"] == ("param", "cause") and info["classification"] == ("param", "classification")
                else:
                    ok = ok and info["sleep_s"] == ("const", 0.0)
                    ok = ok and info["klass"] == attr(("param", "classification"), "klass") and info["exc"] == ("param", "exc") and info["cause"] == ("param", "cause")
                if ok:
                    rep.ok(rid)
                else:
                    rep.fail(rid, f"_handle_failure|emit-args|{info['event_name']}", f"_handle_failure: emit({info['event_name']}) carries attempt={show(info['attempt'])}, sleep_s={show(info['sleep_s'])}, klass={show(info['klass'])}, exc={show(info['exc'])}, cause={show(info['cause'])}", where=f"{fi.module.relpath}:{e.lineno}", function=fi.qual)
    for name, q in RUNNERS.items():
        rf = prog.func(q)
        kinds_seen = set()
        for p in runner_paths(prog, name):
            for e in p.calls():
                if e.is_repo("_RetryState.handle_exception") or e.is_repo("_RetryState.handle_result"):
                    kinds_seen.add(e.label.split(".")[-1])
                    a = e.args[-1] if e.args else None
                    a = e.kwargs.get("attempt", a)
                    rep.instance(rid, f"{name}|{e.label.split('.')[-1]}@{e.lineno}")
                    if is_attempt_no(a, p):
                        rep.ok(rid)
                    else:
                        rep.fail(rid, f"{name}|attempt-arg|{e.label.split('.')[-1]}", f"{q}: {e.label.split(':')[-1]} receives attempt={show(a)}, expected the loop variable", where=f"{rf.module.relpath}:{e.lineno}", function=q)
        if kinds_seen != {"handle_exception", "handle_result"}:
            raise AnalysisError(f"{q}: failure handling call sites reached: {kinds_seen}")
    for m in ("handle_exception", "handle_result"):
        hf = prog.func(f"redress.policy.state:_RetryState.{m}")
        for p in engine(prog).paths(hf):
            for e in p.calls():
                if e.is_repo("_RetryState._handle_failure"):
                    rep.instance(rid, f"{m}|forward")
                    want_cause = "exception" if m == "handle_exception" else "result"
                    ok = e.kwargs.get("attempt") == ("param", "attempt") and e.kwargs.get("cause") == ("const", want_cause)
                    if m == "handle_exception":
                        ok = ok and e.kwargs.get("exc") == ("param", "exc") and e.kwargs.get("result") == ("const", None)
                        c = e.kwargs.get("classification")
                        ok = ok and c is not None and c[0] == "call" and str(c[2]).endswith(":_normalize_classification")
                    else:
                        ok = ok and e.kwargs.get("result") == ("param", "result") and e.kwargs.get("exc") == ("const", None) and e.kwargs.get("classification") == ("param", "classification")
                    if ok:
                        rep.ok(rid)
                    else:
                        rep.fail(rid, f"{m}|forward", f"_RetryState.{m} does not forward (classification, attempt, cause={want_cause!r}, exc/result) to _handle_failure unchanged: {[(k, show(v)) for k, v in e.kwargs.items()]}", where=hf.where(), function=hf.qual)


def present_param(p: SymPath, name: str) -> bool | None:
    for a, pol, _ in p.conds:
        if a == ("cmp", "is", ("param", name), ("const", None)):
            return not pol
    return None


def _delay_applied(rep: Report, prog: Program) -> None:
    rep.rule("R14.8", "`the delay applied`: the value reported by the i-th `retry` event (decision.sleep_s, R14.3) is the very value the sleep handler, before_sleep and the sleeper receive (= C16 R16.3): nothing re-computes the delay between the event and the sleep")
    from .c16 import sleep_action_tables

    sleep_action_tables(rep, "R14.8", prog)
    rep.floor("R14.8", 12)

    from .common import forwarding_slice

    forwarding_slice(rep, "R14.10", prog, ("on_metric", "on_log", "operation", "capture_timeline"), "the sinks that receive the event stream are the caller's: on_metric, on_log, operation and capture_timeline reach the run state unchanged through every layer incl. the bound contexts (= their obligations of C12 R12.3)")

    rep.rule("R14.11", "the captured timeline receives the same sequence as the hooks: every entry's attempt, event and sleep_s are the ones the metric hook was called with (elapsed_s is the collector's own clock)")
    from .common import timeline_record

    timeline_record(rep, "R14.11", prog)
    rep.floor("R14.11", 1)
