"""C15 - observability hooks can never alter control flow."""

from __future__ import annotations

import ast
from typing import Any

from ..ctx import cfgs
from ..model import AnalysisError, FuncInfo, Program
from ..report import Report

HOOKS = {"on_metric", "on_log", "before_sleep"}
SKIP_MODULES = ("redress.testing", "redress.contrib", "redress.cli", "redress.metrics")
PURE_OK = {"isawaitable", "isinstance", "callable", "len", "getattr", "type"}


def parents(root: ast.AST) -> dict[int, ast.AST]:
    out: dict[int, ast.AST] = {}
    for n in ast.walk(root):
        for ch in ast.iter_child_nodes(n):
            out[id(ch)] = n
    return out


def suppress_as_try(prog: Program, fi: FuncInfo, w: ast.With) -> ast.Try | None:
    if len(w.items) != 1:
        return None
    e = w.items[0].context_expr
    if not (isinstance(e, ast.Call) and e.args and not e.keywords):
        return None
    t = prog.type_of(e.func, fi)
    if not any(a[0] == "ext" and a[1] == "contextlib.suppress" for a in t):
        return None
    typ: ast.expr = e.args[0] if len(e.args) == 1 else ast.Tuple(elts=list(e.args), ctx=ast.Load())
    h = ast.ExceptHandler(type=typ, name=None, body=[ast.Pass()])
    tr = ast.Try(body=w.body, handlers=[h], orelse=[], finalbody=[])
    for n in (h, tr):
        ast.copy_location(n, w)
    return tr


def enclosing_try(node: ast.AST, par: dict[int, ast.AST], stop: ast.AST, prog: Program | None = None, fi: FuncInfo | None = None) -> tuple[ast.Try | None, str]:
    """innermost Try (or `with contextlib.suppress(...)`) having `node` in its body / handlers / orelse / finalbody"""
    cur = node
    while cur is not stop and id(cur) in par:
        p = par[id(cur)]
        if isinstance(p, ast.With) and prog is not None and fi is not None and any(cur is s for s in p.body):
            tr = suppress_as_try(prog, fi, p)
            if tr is not None:
                return tr, "body"
        if isinstance(p, ast.Try):
            for part in ("body", "orelse", "finalbody"):
                if any(cur is s for s in getattr(p, part)):
                    return p, part
        if isinstance(p, ast.ExceptHandler):
            gp = par.get(id(p))
            if isinstance(gp, ast.Try):
                return gp, "handler"
        cur = p
    return None, ""


def awaiter_only(prog: Program, fi: FuncInfo, call: ast.Call) -> bool:
    """`helper(hook(...))` where the repository helper does nothing but test its argument with pure predicates and
    await it (`if isawaitable(v): await v`): part of the hook invocation, not another effect"""
    tg = prog.resolve_call(call, fi)
    if len(tg) != 1 or tg[0].kind != "repo" or tg[0].func is None:
        return False
    g = tg[0].func
    params = set(g.param_names())
    for x in ast.walk(g.node):
        if isinstance(x, ast.Call):
            fname = x.func.attr if isinstance(x.func, ast.Attribute) else (x.func.id if isinstance(x.func, ast.Name) else "?")
            if fname not in PURE_OK:
                return False
        if isinstance(x, ast.Await) and not (isinstance(x.value, ast.Name) and x.value.id in params):
            return False
        if isinstance(x, (ast.Attribute, ast.Subscript)) and isinstance(x.ctx, ast.Store):
            return False
        if isinstance(x, (ast.Raise, ast.Global, ast.Nonlocal, ast.Yield, ast.YieldFrom)):
            return False
    return True


def hook_category(prog: Program, fi: FuncInfo, call: ast.Call) -> str | None:
    """the hook role(s) of the callee, `a+b` when a shared helper is handed hooks of several roles"""
    cats = sorted({t.category for t in prog.resolve_call(call, fi) if t.kind == "callback" and t.category in HOOKS})
    return "+".join(cats) if cats else None


def run(rep: Report, prog: Program, tier: str) -> None:
    rep.explanation = (
        "Isolation rule over every call site of a user callable of category on_metric / on_log / before_sleep (category "
        "from the parameter / attribute annotation, propagated through locals), in every module of the library: the call "
        "- and the await of its result in the async twin - lies in the body of a `try` whose first handler matching each "
        "Exception kind is a swallowing handler (body without effects, falls through), the try body contains no other "
        "effect than that one hook call (so a raising hook cannot skip anything else, and the other sink still receives "
        "the event), there is no else/finally with effects, and the guard is not wider than Exception (it must not match "
        "KeyboardInterrupt / SystemExit / CancelledError / GeneratorExit). Obligation transfer: the timeline wrapper "
        "calls the user's metric hook unguarded but is itself only ever installed as the on_metric of a _RetryState."
    )
    rep.trusted_base = ["callback categories from annotations (sa/model.py)", "try/except semantics", "exception-kind partition (sa/kinds.py)"]
    rep.assumptions = ["hooks misbehave only by raising (no blocking forever, no mutation of the tags dict)"]
    rep.not_decided = ["non-raising misbehaviour of hooks"]
    rep.rule("R15.1", "every hook invocation (and the await of its result) is alone in a try whose handler swallows every Exception kind and falls through")
    rep.rule("R15.2", "obligation transfer: an unguarded hook call is accepted only inside a wrapper that is itself installed exclusively as a guarded hook of the same category (timeline wrapper), and that records before delegating")
    rep.rule("R15.4", "hook guards are not wider than Exception")
    K = cfgs(prog).kinds
    exc_kinds = [k for k in K.parent if K.is_sub(k, "Exception")]
    base_only = ["KeyboardInterrupt", "SystemExit", "CancelledError", "GeneratorExit", "OtherBase"]
    n_sites = 0
    cats_seen: set[str] = set()
    for fi in prog.funcs.values():
        if fi.module.name.startswith(SKIP_MODULES):
            continue
        par = None
        for n in prog._own_nodes(fi.node):
            if not isinstance(n, ast.Call):
                continue
            cat = hook_category(prog, fi, n)
            if cat is None:
                continue
            n_sites += 1
            cats_seen.update(cat.split("+"))
            if par is None:
                par = parents(fi.node)
            construct = f"{fi.qual}|{cat}"
            rep.analysed(fi.qual)
            rep.instance("R15.1", construct, {"function": fi.qual, "hook": cat, "line": n.lineno})
            tr, part = enclosing_try(n, par, fi.node, prog, fi)
            if tr is None or part != "body":
                # R15.2: wrapper exemption
                if is_transfer_wrapper(prog, fi, cat):
                    rep.instance("R15.2", construct)
                    rep.ok("R15.2")
                    rep.ok("R15.1")
                else:
                    rep.fail("R15.1", f"{construct}|unguarded", f"{fi.qual}: {cat} is invoked outside any try body: an exception from the hook propagates into the run", where=fi.where(n), function=fi.qual)
                continue
            problem = None
            # (b)/(c) first matching handler for every Exception kind swallows
            handler_classes = [K.handler_classes(h.type, fi) for h in tr.handlers]
            for k in exc_kinds:
                first = next((i for i, cl in enumerate(handler_classes) if K.catches(cl, k)), None)
                if first is None:
                    problem = f"no handler for exception kind {k}"
                    break
                h = tr.handlers[first]
                if not swallowing(h):
                    problem = f"the handler that catches {k} does not swallow silently (it has effects or leaves the handler)"
                    break
            # (d) try body: only this call (+ await of its result, pure predicates)
            if problem is None:
                others = []
                for st in tr.body:
                    for x in ast.walk(st):
                        if isinstance(x, ast.Call) and x is not n:
                            fname = x.func.attr if isinstance(x.func, ast.Attribute) else (x.func.id if isinstance(x.func, ast.Name) else "?")
                            if fname not in PURE_OK and not (n in x.args and awaiter_only(prog, fi, x)):
                                others.append(ast.unparse(x)[:50])
                        if isinstance(x, (ast.Attribute, ast.Subscript)) and isinstance(x.ctx, ast.Store):
                            others.append("store " + ast.unparse(x)[:40])
                        if isinstance(x, (ast.Return, ast.Raise, ast.Break, ast.Continue)):
                            others.append(type(x).__name__.lower())
                if others:
                    problem = f"the guarded region contains other effects that a raising hook would skip: {others[:3]}"
            if problem is None and (tr.orelse or tr.finalbody):
                if any(isinstance(x, (ast.Call, ast.Raise, ast.Return)) for st in tr.orelse + tr.finalbody for x in ast.walk(st)):
                    problem = "else/finally clause with effects on the guard"
            if problem:
                rep.fail("R15.1", f"{construct}|{problem[:50]}", f"{fi.qual}: {cat} call is not isolated: {problem}", where=fi.where(n), function=fi.qual)
            else:
                rep.ok("R15.1")
            # R15.4
            rep.instance("R15.4", construct)
            wide = [k for k in base_only if any(K.catches(cl, k) and swallowing(tr.handlers[i]) for i, cl in enumerate(handler_classes))]
            if wide:
                rep.fail("R15.4", f"{construct}|too-wide", f"{fi.qual}: the guard around {cat} also swallows {wide} (cancellation would be lost)", where=fi.where(n), function=fi.qual)
            else:
                rep.ok("R15.4")
        # awaits of hook results must be inside the same kind of guard
        for n in prog._own_nodes(fi.node):
            if isinstance(n, ast.Await) and isinstance(n.value, ast.Name):
                cats = set()
                for a in prog._own_nodes(fi.node):
                    if isinstance(a, ast.Assign) and len(a.targets) == 1 and isinstance(a.targets[0], ast.Name) and a.targets[0].id == n.value.id and isinstance(a.value, ast.Call):
                        c = hook_category(prog, fi, a.value)
                        if c:
                            cats.add(c)
                if cats:
                    if par is None:
                        par = parents(fi.node)
                    tr, part = enclosing_try(n, par, fi.node, prog, fi)
                    rep.instance("R15.1", f"{fi.qual}|await-{sorted(cats)[0]}")
                    K2 = [K.handler_classes(h.type, fi) for h in tr.handlers] if tr is not None else []
                    ok = tr is not None and part == "body" and all(any(K.catches(cl, k) and swallowing(tr.handlers[i]) for i, cl in enumerate(K2)) for k in exc_kinds)
                    if ok:
                        rep.ok("R15.1")
                    else:
                        rep.fail("R15.1", f"{fi.qual}|await-{sorted(cats)[0]}|unguarded", f"{fi.qual}: the awaitable returned by {sorted(cats)[0]} is awaited outside a swallowing guard", where=fi.where(n), function=fi.qual)
    # not a count of today's call sites (shared helpers merge them): every hook role must have been seen being called
    if cats_seen != HOOKS or n_sites < len(HOOKS):
        raise AnalysisError(f"C15: hook call sites found for {sorted(cats_seen)} only ({n_sites} sites); on_metric, on_log and before_sleep must each be invoked somewhere")
    rep.floor("R15.1", len(HOOKS))
    rep.floor("R15.2", 1)


def swallowing(h: ast.ExceptHandler) -> bool:
    for st in h.body:
        if isinstance(st, ast.Pass):
            continue
        if isinstance(st, ast.Expr) and isinstance(st.value, ast.Constant):
            continue
        if isinstance(st, ast.Expr) and _plain_log_call(st.value):
            continue  # a diagnostic through the logging module (which never lets formatting errors out) with plain arguments
        return False
    return True


def _plain_log_call(e: ast.expr) -> bool:
    """`logging.getLogger(__name__).debug("...", name, 3)` / `_LOG.warning("...")`: a logging method called on a logger
    expression with constant / plain-name arguments only (no attribute access or call on a user object, which could
    itself raise inside the handler)"""
    if not (isinstance(e, ast.Call) and isinstance(e.func, ast.Attribute) and e.func.attr in ("debug", "info", "warning", "error", "exception", "critical")):
        return False
    recv = e.func.value
    ok_recv = (isinstance(recv, ast.Name) and recv.id.lower().strip("_") in ("log", "logger", "logging")) or (isinstance(recv, ast.Call) and ast.unparse(recv.func) in ("logging.getLogger", "getLogger") and all(isinstance(a, (ast.Constant, ast.Name)) for a in recv.args))
    plain = all(isinstance(a, (ast.Constant, ast.Name)) for a in e.args) and all(isinstance(k.value, (ast.Constant, ast.Name)) for k in e.keywords)
    return ok_recv and plain


def is_transfer_wrapper(prog: Program, fi: FuncInfo, cat: str) -> bool:
    """the timeline wrapper: nested in _resolve_timeline, returned as the metric hook, which the
    runners install only as `_RetryState(on_metric=...)`; records before delegating"""
    if cat != "on_metric":
        return False
    # it is the function _resolve_timeline returns as the metric hook (a nested function, or a bound method of the
    # collector it builds)
    from .common import timeline_hook

    hk, _ref = timeline_hook(prog)
    if hk is not fi:
        return False
    parent = prog.func("redress.policy.runner.timeline:_resolve_timeline")
    # record precedes the delegated call
    body_calls = [n for n in ast.walk(fi.node) if isinstance(n, ast.Call)]
    # the record step: the collector's `record(...)`, or - with the collector written out in the hook - the
    # `timeline.add(TimelineEvent(...))` itself
    rec = [c for c in body_calls if isinstance(c.func, ast.Attribute) and (c.func.attr == "record" or (c.func.attr == "add" and len(c.args) == 1 and isinstance(c.args[0], ast.Call) and ast.unparse(c.args[0].func).split(".")[-1] == "TimelineEvent"))]
    dele = [c for c in body_calls if hook_category(prog, fi, c) == "on_metric"]
    if len(rec) != 1 or len(dele) != 1 or rec[0].lineno > dele[0].lineno:
        return False
    # every consumer of _resolve_timeline's second result passes it as on_metric= to _RetryState
    ok_consumers = 0
    for g in prog.funcs.values():
        for n in prog._own_nodes(g.node):
            if isinstance(n, ast.Assign) and isinstance(n.value, ast.Call) and any(t.func is not None and t.func.qual == parent.qual for t in prog.resolve_call(n.value, g)):
                tgt = n.targets[0]
                uses: list[ast.AST]
                if isinstance(tgt, ast.Tuple) and len(tgt.elts) == 2 and isinstance(tgt.elts[1], ast.Name):
                    name = tgt.elts[1].id
                    uses = [u for u in prog._own_nodes(g.node) if isinstance(u, ast.Name) and u.id == name and isinstance(u.ctx, ast.Load)]
                elif isinstance(tgt, ast.Name):
                    # the pair kept whole and taken apart by index: `r = _resolve_timeline(...)`; `r[0]`, `r[1]`
                    loads = [u for u in prog._own_nodes(g.node) if isinstance(u, ast.Name) and u.id == tgt.id and isinstance(u.ctx, ast.Load)]
                    subs = {id(sb.value): sb for sb in prog._own_nodes(g.node) if isinstance(sb, ast.Subscript) and isinstance(sb.slice, ast.Constant) and isinstance(sb.slice.value, int)}
                    if any(id(u) not in subs for u in loads):
                        return False
                    uses = [subs[id(u)] for u in loads if subs[id(u)].slice.value == 1]
                else:
                    return False
                for u in uses:
                    good = False
                    for c in prog._own_nodes(g.node):
                        if isinstance(c, ast.Call):
                            for kw in c.keywords:
                                if kw.value is u and kw.arg == "on_metric" and any(t.kind == "ctor" and t.cls is not None and t.cls.name == "_RetryState" for t in prog.resolve_call(c, g)):
                                    good = True
                    if not good:
                        return False
                ok_consumers += 1
    return ok_consumers >= 1
