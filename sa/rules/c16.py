"""C16 - sleep-handler protocol: SLEEP sleeps, DEFER schedules, ABORT aborts."""

from __future__ import annotations

import ast
from typing import Any

from ..absint import Event
from ..ctx import cfgs, engine
from ..model import AnalysisError, Program
from ..paths import SymPath, show
from ..report import Report
from .common import HELPERS, RUNNERS, attr, emit_info, enum_name, is_emit
from .runner_flow import RunnerClient, flag1, run_runners, short_witness

DEC_SLEEP = attr(("param", "decision"), "sleep_s")
DEC_CTX = attr(("param", "decision"), "context")


class SleepClient(RunnerClient):
    """counts handler / before_sleep / sleeper calls per granted retry"""

    name = "sleep-protocol"
    # hooks may fail: a failing before_sleep / on_metric / on_log must not cost the retry its sleep
    fault = {"operation": ("OtherException",), "before_sleep": ("OtherException",), "on_metric": ("OtherException",), "on_log": ("OtherException",)}

    def initial(self) -> Any:
        # (handler calls, before_sleep calls, sleeper calls, decision, granted, flags)
        return (0, 0, 0, None, False, frozenset())

    def on_event(self, ev: Event, cs: Any) -> Any:
        h, b, s, dec, granted, flags = cs
        if ev.kind == "iter":
            if granted:
                if s != 1:
                    flags = flag1(flags, f"next attempt after a granted retry with {s} sleeper calls (expected exactly 1)")
                if dec == "PENDING":
                    flags = flag1(flags, "next attempt although a configured sleep handler was never consulted")
                elif dec not in (None, "SLEEP"):
                    flags = flag1(flags, f"next attempt although the sleep handler answered {dec}")
            elif s or b or h:
                flags = flag1(flags, "sleep machinery ran without a granted retry")
            return (0, 0, 0, None, False, flags)
        if ev.kind == "store":
            v = ev.node.info["value"]
            if isinstance(v, ast.Call):
                tg = ev.interp.prog.resolve_call(v, ev.func)
                if any(t.func is not None and t.func.qual.endswith(("_RetryState.handle_exception", "_RetryState.handle_result")) for t in tg):
                    rec = ev.value(v)
                    act = dict(rec[2]).get("action") if rec is not None and rec[0] == "i" else None
                    return (h, b, s, dec, act == ("c", "retry"), flags)
                if any(t.func is not None and t.func.qual.endswith(":determine_action_from_outcome") for t in tg) and granted:
                    rec = ev.value(v)
                    if rec is not None and rec[0] == "i" and str(rec[1]).endswith(":ContinueAction"):
                        return (h, b, s, dec, "continue", flags)  # the loop action says: next attempt
            return cs
        if ev.kind != "call":
            return cs
        if self.is_callback(ev, "sleep_handler"):
            if dec == "PENDING":
                dec = None
            if h >= 1:
                flags = flag1(flags, "sleep handler consulted twice for one retry")
            if b or s:
                flags = flag1(flags, "sleep handler consulted after before_sleep / the sleeper")
            if not granted:
                flags = flag1(flags, "sleep handler consulted although no retry was granted")
            return (min(h + 1, 2), b, s, dec, granted, flags)
        if self.is_callback(ev, "before_sleep"):
            if dec == "PENDING":
                flags = flag1(flags, "before_sleep runs although a configured sleep handler has not been consulted")
            if s:
                flags = flag1(flags, "before_sleep runs after the sleeper")
            if dec in ("DEFER", "ABORT"):
                flags = flag1(flags, f"before_sleep runs although the handler answered {dec}")
            if b >= 1:
                flags = flag1(flags, "before_sleep called twice for one retry")
            return (h, min(b + 1, 2), s, dec, granted, flags)
        if self.is_callback(ev, "sleeper") or (ev.target is not None and ev.target.kind == "lib" and (ev.target.name or "") in ("time.sleep", "asyncio.sleep")):
            if dec in ("DEFER", "ABORT"):
                flags = flag1(flags, f"the sleeper runs although the handler answered {dec}")
            if dec == "PENDING":
                flags = flag1(flags, "the sleeper runs although a configured sleep handler has not been consulted for this retry")
            if s >= 1:
                flags = flag1(flags, "the sleeper is called twice for one retry")
            if not granted:
                flags = flag1(flags, "the sleeper runs although no retry was granted")
            return (h, b, min(s + 1, 2), dec, granted, flags)
        return cs

    def on_branch(self, ev: Event, cs: Any, branch: bool) -> Any:
        # `sleep_fn is None` / `is not None`: remember whether a handler is configured
        cond = ev.node.info["cond"]
        if isinstance(cond, ast.Compare) and len(cond.ops) == 1 and isinstance(cond.ops[0], (ast.Is, ast.IsNot)) and isinstance(cond.comparators[0], ast.Constant) and cond.comparators[0].value is None:
            t = ev.interp.prog.type_of(cond.left, ev.func)
            if any(a[0] == "cb" and a[1] == "sleep_handler" for a in t):
                is_none = isinstance(cond.ops[0], ast.Is) == branch
                self.handler_known = True
                h, b, s, dec, granted, flags = cs
                if not is_none and h == 0:
                    # a handler exists: it must be consulted before any sleep of this retry
                    return (h, b, s, "PENDING" if dec is None else dec, granted, flags)
        return cs


class SleepClient2(SleepClient):
    """records the handler's answer when the handler result is bound"""

    def on_event(self, ev: Event, cs: Any) -> Any:
        cs = super().on_event(ev, cs)
        h, b, s, dec, granted, flags = cs
        if ev.kind == "store":
            v = ev.node.info["value"]
            if isinstance(v, ast.Call):
                tg = ev.interp.prog.resolve_call(v, ev.func)
                if any(t.kind == "callback" and t.category == "sleep_handler" for t in tg):
                    val = ev.value(v)
                    if val is not None and val[0] == "e":
                        return (h, b, s, val[2], granted, flags)
        return cs


def run(rep: Report, prog: Program, tier: str) -> None:
    rep.explanation = (
        "End-to-end typestate over the four runners with the sleep handler's answer enumerated over the SleepDecision "
        "members: per granted retry the handler is consulted at most once and first; SLEEP leads to before_sleep (if any) "
        "and then exactly one sleeper call and only then to the next attempt; DEFER and ABORT reach neither before_sleep "
        "nor the sleeper nor the loop head, and the run ends as SCHEDULED resp. ABORTED. Effect tables by path "
        "enumeration of _sync_sleep_action / _async_sleep_action / _handle_sleep_decision pin the arguments (the handler, "
        "before_sleep and the sleeper all receive decision.sleep_s; SCHEDULED is emitted with that delay). The four "
        "_resolve_* selectors are evaluated on all None/non-None combinations (call-level wins), and every awaitable "
        "returned by a sleeper / before_sleep hook is awaited on every path."
    )
    rep.trusted_base = ["sa/absint.py, sa/paths.py"]
    rep.assumptions = ["a user sleep handler returns a SleepDecision member (typed domain)"]
    rep.not_decided = ["a handler returning a non-member (ValueError path is pinned, not judged)"]

    rep.rule("R16.1", "per granted retry: a configured handler is consulted exactly once and first; SLEEP -> [before_sleep] then exactly one sleeper call, then the next attempt; DEFER/ABORT -> no before_sleep, no sleeper, no further attempt")
    rep.rule("R16.2", "DEFER ends the run as SCHEDULED with next_sleep_s = the delay; ABORT ends it as ABORTED")
    sleep_protocol(rep, "R16.1", "R16.2", prog)
    rep.floor("R16.1", 60)
    rep.floor("R16.2", 8)
    rep.rule("R16.9", "DEFER hands the caller the delay: in execute mode the outcome of a deferred run carries next_sleep_s = the attempt outcome's sleep_s exactly when the decision is SCHEDULED - on the exception path and on the result path of both execute runners (= C11 R11.5); in call mode RetryExhaustedError.next_sleep_s likewise (= the next_sleep_s column of C04 R4.3)")
    from .c04 import scheduled_action_fields
    from .c11 import check_runner_fields
    from .common import RuleView

    check_runner_fields(RuleView(rep, "R16.9", only=("R11.5",)), prog)
    scheduled_action_fields(rep, "R16.9", prog, only=("next_sleep_s",))
    rep.floor("R16.9", 4)

    # ---- argument tables
    rep.rule("R16.3", "effect tables of _sync_sleep_action/_async_sleep_action/_handle_sleep_decision: a configured handler is consulted exactly once; handler(ctx, decision.sleep_s); before_sleep(ctx, decision.sleep_s); sleeper(decision.sleep_s); SCHEDULED emitted with sleep_s = decision.sleep_s and stop_reason SCHEDULED; ABORTED emitted once (guarded); decision returned unchanged")
    sleep_action_tables(rep, "R16.3", prog)
    rep.floor("R16.3", 12)
    selectors_and_rest(rep, prog)
    rep.rule("R16.7", "per-call handlers, hooks and sleepers bound through `.context(...)` reach call() under their own names: the context object is built from the like-named parameters (positional construction follows the field order of the context class) and its call() forwards each value unchanged (= C12 R12.3, context layers)")
    from .c12 import context_forwarding

    context_forwarding(rep, "R16.7", prog)
    rep.floor("R16.7", 60)

    from .common import forwarding_slice

    forwarding_slice(rep, "R16.8", prog, ("sleep", "sleep_fn", "before_sleep", "sleeper"), "the sleep handler, before_sleep hook and sleeper the caller passed are the ones consulted: they reach the runner unchanged through every layer, per-call values taking precedence over policy-level ones (= their obligations of C12 R12.3)")


def sleep_protocol(rep: Report, r1: str, r2: str, prog: Program) -> None:
    res = run_runners(prog, lambda: SleepClient2(prog))
    seen_dec = set()
    for name, (interp, exits, client) in res.items():
        q = RUNNERS[name]
        rep.analysed(*interp.visited_funcs)
        for ex in exits:
            h, b, s, dec, granted, flags = ex.cstate
            seen_dec.add(dec)
            construct = f"{name}|{ex.how}:{ex.kind}|h={h} b={b} s={s} dec={dec} granted={granted}"
            rep.instance(r1, construct, {"runner": q, "exit": f"{ex.how}:{ex.kind}", "handler_calls": h, "before_sleep_calls": b, "sleeper_calls": s, "handler_answer": dec} if len(rep.samples) < 16 else None)
            if flags:
                for f in sorted(flags):
                    rep.fail(r1, f"{name}|{f}", f"{q}: {f}", where=prog.func(q).where(), function=q, path=short_witness(interp, ex))
                continue
            # a run may not end while the loop action just computed says `continue` (the granted retry - delay computed,
            # token spent, `retry` reported, slept - must be followed by the next attempt)
            cont = granted == "continue"
            if cont and not (ex.how == "raise" and ex.kind in ("KeyboardInterrupt", "SystemExit", "CancelledError", "GeneratorExit")):
                rep.fail(r1, f"{name}|ends-on-continue|{ex.how}:{ex.kind}", f"{q}: the run ends by {ex.how} {ex.kind or ''} although determine_action_from_outcome answered ContinueAction for the attempt just handled: a granted retry is not followed by the next attempt", where=prog.func(q).where(), function=q, path=short_witness(interp, ex))
                continue
            rep.ok(r1)
            if dec in ("DEFER", "ABORT"):
                rep.instance(r2, construct)
                problem = None
                if s or b:
                    problem = f"{dec}: before_sleep={b} sleeper={s}"
                if name.endswith("execute"):
                    rv = ex.retval
                    fields = dict(rv[2]) if rv is not None and rv[0] == "i" else {}
                    want = "SCHEDULED" if dec == "DEFER" else "ABORTED"
                    if ex.how != "return" or fields.get("stop_reason") != ("e", "StopReason", want) or fields.get("ok") != ("c", False):
                        problem = problem or f"{dec} must end the run with an outcome stop_reason={want}; found {ex.how} {ex.kind} {rv}"
                else:
                    wantk = "RetryExhaustedError" if dec == "DEFER" else "AbortRetryError"
                    if ex.how != "raise" or ex.kind != wantk:
                        problem = problem or f"{dec} must end call() by {wantk}; found {ex.how} {ex.kind}"
                if problem:
                    rep.fail(r2, f"{name}|{dec}|{ex.how}:{ex.kind}", f"{q}: {problem}", where=prog.func(q).where(), function=q, path=short_witness(interp, ex))
                else:
                    rep.ok(r2)
    if not {"DEFER", "ABORT", "SLEEP"} <= seen_dec:
        raise AnalysisError(f"sleep protocol: handler answers reached: {seen_dec}")


def sleep_action_tables(rep: Report, rid: str, prog: Program) -> None:
    """effect tables of the two sleep steps, decided on `_sync_sleep_action` / `_async_sleep_action` as wholes with the
    decision step (`_handle_sleep_decision`, where it is a function of its own) read through: whether the handling of
    the handler's answer lives in a helper or in the sleep step itself is the code's business"""
    state = ("param", "state")
    hd_q = f"{HELPERS}:_handle_sleep_decision"
    for q0, f0 in prog.funcs.items():
        if f0.name == "_handle_sleep_decision" and f0.cls is None:
            rep.analysed(q0)
    eng = engine(prog)
    inline0 = eng.inline
    eng.inline = lambda f, inline0=inline0: bool(inline0 and inline0(f)) or (f.name == "_handle_sleep_decision" and f.cls is None)  # (by name: it may have moved to another module)
    try:
        for fn in ("_sync_sleep_action", "_async_sleep_action"):
            fi = prog.func(f"{HELPERS}:{fn}")
            rep.analysed(fi.qual)
            seen_dec: set = set()
            for p in eng.paths(fi, raises=lambda ev, cfg: (), key="c16-sleep-step"):
                # the same test taken both ways, or the answer equal to two different members: not a path of the program
                pols: dict = {}
                members: set = set()
                infeasible = False
                for a, pol, _ in p.conds:
                    if pols.setdefault(repr(a), pol) != pol:
                        infeasible = True
                    if a[0] == "cmp" and a[1] in ("is", "==") and pol and isinstance(a[3], tuple) and a[3][:2] == ("enum", "SleepDecision"):
                        members.add((repr(a[2]), a[3]))
                if infeasible or len({m for _, m in members}) > 1:
                    continue
                rep.instance(rid, f"{fn}|" + "|".join(p.describe()[-3:])[:140])
                problem = None
                handler_present = any(a == ("cmp", "is", ("param", "sleep_fn"), ("const", None)) and not pol for a, pol, _ in p.conds)
                handler_absent = any(a == ("cmp", "is", ("param", "sleep_fn"), ("const", None)) and pol for a, pol, _ in p.conds)
                hc = [e for e in p.calls() if e.callback() == "sleep_handler"]
                n_handler = len(hc)
                if p.exit[0] == "return" and handler_present and n_handler != 1:
                    problem = f"a sleep handler is configured but consulted {n_handler} times on this path"
                if not (handler_present or handler_absent) and p.exit[0] == "return":
                    problem = "the presence of a sleep handler is not tested"
                slept = False
                hooked = False
                for e in p.calls():
                    if e.callback() == "sleep_handler":
                        if e.args != [DEC_CTX, DEC_SLEEP]:
                            problem = f"sleep handler receives {[show(a) for a in e.args]}"
                    if e.is_repo(":_call_before_sleep") or e.is_repo(":_call_before_sleep_async"):
                        hooked = True
                        # by parameter name (positional arguments are bound to the callee's names by the engine)
                        if sorted(e.kwargs.values(), key=repr) != sorted([("param", "before_sleep"), DEC_CTX, DEC_SLEEP], key=repr) or e.kwargs.get("sleep_s", DEC_SLEEP) != DEC_SLEEP or e.kwargs.get("ctx", DEC_CTX) != DEC_CTX:
                            problem = f"before_sleep wrapper receives {[(k, show(a)) for k, a in e.kwargs.items()]}"
                    if e.callback() == "before_sleep":
                        hooked = True
                        if e.args != [DEC_CTX, DEC_SLEEP]:
                            problem = f"before_sleep receives {[show(a) for a in e.args]}"
                    if e.callback() == "sleeper" or e.is_repo(":_call_async_sleeper"):
                        slept = True
                        a = e.args[-1] if e.args else None
                        if a != DEC_SLEEP:
                            problem = f"sleeper receives {show(a)}"
                # the answer of the handler, and what is done with it
                if hc and p.exit[0] in ("return", "raise"):
                    action = hc[0].result
                    which = None
                    for a, pol, _ in p.conds:
                        if a[0] == "cmp" and a[1] in ("is", "==") and a[2] == action and pol:
                            which = enum_name(a[3], "SleepDecision")
                    emits = [emit_info(e) for e in p.events if is_emit(e)]
                    stores = [(enum_name(e.value, "StopReason")) for e in p.stores() if e.loc == attr(state, "last_stop_reason")]
                    seen_dec.add(which)
                    if which is None:
                        if p.exit[0] != "raise" or p.exit[1] != "ValueError":
                            problem = problem or f"non-member answer must raise ValueError; found {p.exit[:2]}"
                    elif p.exit[0] == "return":
                        if p.exit != ("return", action) and p.exit != ("return", ("enum", "SleepDecision", which)):
                            problem = problem or f"{which}: the action is not returned unchanged ({p.exit})"
                        if which == "SLEEP" and (emits or stores):
                            problem = problem or "SLEEP must not emit or write the stop reason"
                        if which in ("DEFER", "ABORT") and (slept or hooked):
                            problem = problem or f"{which}: the run still sleeps / calls before_sleep"
                        if which == "DEFER":
                            if stores != ["SCHEDULED"] or len(emits) != 1 or emits[0]["event_name"] != "SCHEDULED" or emits[0]["reason_name"] != "SCHEDULED" or emits[0]["sleep_s"] != DEC_SLEEP or emits[0]["attempt"] != ("param", "attempt"):
                                problem = problem or f"DEFER must set SCHEDULED and emit `scheduled` with sleep_s=decision.sleep_s; found stores {stores} emits {[(e['event_name'], e['reason_name'], show(e['sleep_s'])) for e in emits]}"
                        if which == "ABORT":
                            already = any(a == ("cmp", "is", attr(state, "last_stop_reason"), ("enum", "StopReason", "ABORTED")) and pol for a, pol, _ in p.conds)
                            if already:
                                if emits or stores:
                                    problem = problem or "ABORT when already aborted must not emit again"
                            elif stores != ["ABORTED"] or len(emits) != 1 or emits[0]["event_name"] != "ABORTED" or emits[0]["reason_name"] != "ABORTED":
                                problem = problem or f"ABORT must set ABORTED and emit `aborted` once; found stores {stores} emits {[(e['event_name'], e['reason_name']) for e in emits]}"
                if problem:
                    rep.fail(rid, f"{fn}|{problem[:40]}", f"{fn}: {problem}", where=fi.where(), function=fi.qual, path=p.describe())
                else:
                    rep.ok(rid)
            if not {"SLEEP", "DEFER", "ABORT", None} <= seen_dec:
                raise AnalysisError(f"{fn}: handler answers decided on its paths: {sorted(map(str, seen_dec))} (SLEEP, DEFER, ABORT and a non-member expected)")
    finally:
        eng.inline = inline0


def selectors_and_rest(rep: Report, prog: Program) -> None:
    # ---- precedence of the selectors
    rep.rule("R16.4", "_resolve_sleep/_resolve_before_sleep/_resolve_sleeper/_resolve_attempt_hooks: the call-level value wins unless it is None; at every call site the policy-level attribute is the first and the call-level parameter the second argument")
    for fn, pol_p, call_p in (("_resolve_sleep", "policy_sleep", "call_sleep"), ("_resolve_before_sleep", "policy_before_sleep", "call_before_sleep"), ("_resolve_sleeper", "policy_sleeper", "call_sleeper")):
        fi = prog.func(f"{HELPERS}:{fn}")
        rep.analysed(fi.qual)
        for cv in (None, "C"):
            for pv in (None, "P"):
                rv = eval_selector(prog, fi, {call_p: cv, pol_p: pv})
                want = cv if cv is not None else pv
                rep.instance("R16.4", f"{fn}|call={cv}|policy={pv}")
                if rv == [want]:
                    rep.ok("R16.4")
                else:
                    rep.fail("R16.4", f"{fn}|call={cv}|policy={pv}", f"{fn}(policy={pv}, call={cv}) yields {rv}, expected {want}", where=fi.where(), function=fi.qual)
    fi = prog.func(f"{HELPERS}:_resolve_attempt_hooks")
    for cs_, ps_, ce_, pe_ in [(a, b, c, d) for a in (None, "CS") for b in (None, "PS") for c in (None, "CE") for d in (None, "PE")]:
        rv = eval_selector(prog, fi, {"call_start": cs_, "policy_start": ps_, "call_end": ce_, "policy_end": pe_})
        want = (cs_ if cs_ is not None else ps_, ce_ if ce_ is not None else pe_)
        rep.instance("R16.4", f"_resolve_attempt_hooks|{cs_}|{ps_}|{ce_}|{pe_}")
        if rv == [want]:
            rep.ok("R16.4")
        else:
            rep.fail("R16.4", f"_resolve_attempt_hooks|{cs_}|{ps_}|{ce_}|{pe_}", f"_resolve_attempt_hooks yields {rv}, expected {want}", where=fi.where(), function=fi.qual)
    # the effective values, decided by value: with the selectors (and whatever helper took their place) read through,
    # what each Retry method hands to its runner is `call-level value if it is not None else policy-level value`, for
    # every combination of the two being None / given - for the handler, before_sleep, the sleeper and both attempt hooks
    from ..paths import CannotEval, evaluate, truth

    ROLES = (("sleep_fn", "sleep", "sleep"), ("before_sleep", "before_sleep", "before_sleep"), ("sleeper", "sleeper", "sleeper"), ("attempt_start_hook", "on_attempt_start", "on_attempt_start"), ("attempt_end_hook", "on_attempt_end", "on_attempt_end"))
    eng = engine(prog)
    inline0 = eng.inline
    eng.inline = lambda f, inline0=inline0: bool(inline0 and inline0(f)) or (f.name.startswith("_resolve_") and f.cls is None)
    n_sites = 0
    try:
        for cls, runner in (("redress.policy.retry_sync:Retry", "run_sync_"), ("redress.policy.retry_async:AsyncRetry", "run_async_")):
            for m in ("call", "execute"):
                mf = prog.func(f"{cls}.{m}")
                rep.analysed(mf.qual)
                mpaths = eng.paths(mf, raises=lambda ev, cfg: (), key="c16-effective")
                for kw, param, attrname in ROLES:
                    for cv in (None, "C"):
                        for pv in (None, "P"):

                            def leaf(t: Any, cv: Any = cv, pv: Any = pv, param: str = param, attrname: str = attrname) -> Any:
                                if t == ("param", param):
                                    return cv
                                if t == attr(("param", "self"), attrname):
                                    return pv
                                if isinstance(t, tuple) and t and t[0] == "pure" and t[1] == "typing.cast" and len(t[2]) == 2:
                                    return evaluate(t[2][1], leaf)
                                raise CannotEval()

                            got = set()
                            for p in mpaths:
                                feasible = True
                                for a_, pol, _ in p.conds:
                                    try:
                                        if truth(a_, leaf) != pol:
                                            feasible = False
                                            break
                                    except CannotEval:
                                        continue
                                if not feasible:
                                    continue
                                for e in p.calls():
                                    if e.is_repo(f":{runner}{m}"):
                                        v = e.kwargs.get(kw)
                                        if v is None:
                                            # the private runner layers may spell their keywords freely (`before_sleep_hook`,
                                            # `sleeper_fn`): the keyword that stands for this parameter (C12's table)
                                            from .c12 import CALL_PARAMS, RENAMES, canonical_keyword

                                            alt = [k for k in e.kwargs if canonical_keyword(k, e, mf, CALL_PARAMS, RENAMES["runner"]) == param]
                                            v = e.kwargs[alt[0]] if len(alt) == 1 else None
                                        try:
                                            got.add(evaluate(v, leaf) if v is not None else "<not passed>")
                                        except CannotEval:
                                            got.add(show(v))
                            want = cv if cv is not None else pv
                            n_sites += 1
                            rep.instance("R16.4", f"{mf.qual}|{kw}|call={cv}|policy={pv}")
                            if got == {want}:
                                rep.ok("R16.4")
                            else:
                                rep.fail("R16.4", f"{mf.qual.split(':')[1]}|{kw}|call={cv}|policy={pv}", f"{mf.qual}: with the per-call `{param}` {'given' if cv else 'None'} and the policy-level `{attrname}` {'given' if pv else 'None'} the runner receives {kw}={sorted(map(str, got))}; expected the {'per-call' if cv else 'policy-level'} value", where=mf.where(), function=mf.qual)
    finally:
        eng.inline = inline0
    if n_sites < 80:
        raise AnalysisError(f"R16.4: only {n_sites} effective-value rows decided (80 expected)")
    rep.floor("R16.4", 12 + 16 + 80)

    # ---- only granted retries consult the handler
    rep.rule("R16.5", "_X_sleep_action is called only from _X_failure_outcome, on the edge where decision.action is not `raise`")
    for sa, fo in (("_sync_sleep_action", "_sync_failure_outcome"), ("_async_sleep_action", "_async_failure_outcome")):
        callers = set()
        for g in prog.funcs.values():
            if g.module.name.startswith("redress.testing"):
                continue
            for n in prog._own_nodes(g.node):
                if isinstance(n, ast.Call) and any(t.func is not None and t.func.qual == f"{HELPERS}:{sa}" for t in prog.resolve_call(n, g)):
                    callers.add(g.qual)
        rep.instance("R16.5", f"{sa}|callers")
        if callers == {f"{HELPERS}:{fo}"}:
            rep.ok("R16.5")
        else:
            rep.fail("R16.5", f"{sa}|callers", f"{sa} is called from {sorted(callers)}; expected only {fo}", where=prog.func(f'{HELPERS}:{sa}').where(), function=sa)
        ff = prog.func(f"{HELPERS}:{fo}")
        rep.analysed(ff.qual)
        for p in engine(prog).paths(ff):
            calls = [e for e in p.calls() if e.is_repo(f":{sa}")]
            raise_edge = any(a == ("cmp", "==", attr(("param", "decision"), "action"), ("const", "raise")) and pol for a, pol, _ in p.conds)
            fin = [e for e in p.calls() if e.is_repo(":_finalize_attempt")]
            rep.instance("R16.5", f"{fo}|raise_edge={raise_edge}")
            ok = (len(calls) == 0) == raise_edge and len(calls) <= 1 and len(fin) == 1
            if ok and calls:
                c = calls[0]
                ok = c.kwargs.get("decision") == ("param", "decision") and c.kwargs.get("sleep_fn") == ("param", "sleep_fn") and c.kwargs.get("before_sleep") == ("param", "before_sleep") and c.kwargs.get("sleeper") == ("param", "sleeper") and fin[0].kwargs.get("sleep_action") == c.result and fin[0].kwargs.get("decision") == ("param", "decision")
            elif ok:
                ok = fin[0].kwargs.get("sleep_action") == ("const", None) and fin[0].kwargs.get("decision") == ("param", "decision")
            if ok:
                rep.ok("R16.5")
            else:
                rep.fail("R16.5", f"{fo}|raise_edge={raise_edge}|shape", f"{fo}: on the {'raise' if raise_edge else 'retry'} edge the sleep action is called {len(calls)} times / its result or the decision is not handed to _finalize_attempt unchanged", where=ff.where(), function=ff.qual, path=p.describe())
    rep.floor("R16.5", 6)

    # ---- awaitables are awaited
    rep.rule("R16.6", "async twin: every awaitable returned by a sleeper / before_sleep hook is awaited (isawaitable true-edge -> await of that very value); no repository coroutine is created and dropped")
    # decided on the async sleep step as a whole, with the helpers of its module inlined: which helper makes the call
    # and which one awaits (today _call_async_sleeper / _call_before_sleep_async) is the code's business
    from ..paths import PathEngine, default_inline

    eng6 = PathEngine(prog, cfgs(prog))
    base_inline6 = default_inline()
    from .runner_flow import KNOWN_MODULES as _KM

    eng6.inline = lambda fn: base_inline6(fn) or ((fn.module.name == HELPERS or fn.module.name not in _KM) and fn.name.startswith("_") and fn.cls is None)
    root6 = prog.func(f"{HELPERS}:_async_sleep_action")
    rep.analysed(root6.qual)
    seen6: dict[str, int] = {"sleeper": 0, "before_sleep": 0}
    done6: set = set()
    for p in eng6.paths(root6):
        aws = [e for e in p.events if e.kind == "await"]
        for cat in ("sleeper", "before_sleep"):
            for cbe in [e for e in p.calls() if e.callback() == cat]:
                res_ = cbe.result
                isaw = [(a, pol) for a, pol, _ in p.conds if a[0] == "pure" and a[1] == "inspect.isawaitable" and a[2] == (res_,)]
                key6 = (cat, cbe.node.id, isaw[0][1] if isaw else None)
                seen6[cat] += 1
                if key6 in done6:
                    continue
                done6.add(key6)
                fn = cbe.cfg.func.name if getattr(cbe, "cfg", None) is not None else root6.name
                rep.instance("R16.6", f"{fn}|{cat}|isawaitable={isaw[0][1] if isaw else None}")
                if not isaw:
                    rep.fail("R16.6", f"{fn}|not-tested", f"{fn}: the {cat} result is not tested with inspect.isawaitable before the step goes on (a Future / Task / object with __await__ handed back by an async {cat} would be dropped unawaited)", where=cbe.cfg.func.where(cbe.node.ast) if getattr(cbe, "cfg", None) is not None else root6.where(), function=root6.qual, path=p.describe())
                elif isaw[0][1] and not any(a.recv == res_ for a in aws):
                    rep.fail("R16.6", f"{fn}|not-awaited", f"{fn}: an awaitable {cat} result is not awaited", where=root6.where(), function=root6.qual, path=p.describe())
                else:
                    rep.ok("R16.6")
    for cat, n in seen6.items():
        if n < 2:
            raise AnalysisError(f"_async_sleep_action: {cat} call not found on its paths")
    G = cfgs(prog)
    for g in prog.funcs.values():
        if g.module.name.startswith(("redress.testing", "redress.cli", "redress.contrib")):
            continue
        cfg = None
        for nn in prog._own_nodes(g.node):
            if isinstance(nn, ast.Call):
                tg = prog.resolve_call(nn, g)
                if tg and all(t.kind == "repo" and t.func is not None and t.func.is_async for t in tg):
                    cfg = cfg or G.get(g)
                    nid = cfg.call_node.get(id(nn))
                    awaited = nid is not None and cfg.nodes[nid].info.get("awaited")
                    rep.instance("R16.6", f"coroutine|{g.qual}|{tg[0].func.qual.split(':')[-1]}")
                    if awaited:
                        rep.ok("R16.6")
                    else:
                        rep.fail("R16.6", f"coroutine-dropped|{g.qual}|{tg[0].func.qual.split(':')[-1]}", f"{g.qual}: coroutine {tg[0].func.qual} is created but not awaited (its body - sleep, hook, attempt - never runs)", where=g.where(nn), function=g.qual)
    rep.floor("R16.6", 20)


def eval_selector(prog: Program, fi, assign: dict[str, Any]) -> list[Any]:
    """evaluate a pure selector function on symbolic None / non-None arguments"""
    out = []
    for p in engine(prog).paths(fi):
        feasible = True
        for a, pol, _ in p.conds:
            if a[0] == "cmp" and a[1] == "is" and a[2][0] == "param" and a[3] == ("const", None):
                if (assign.get(a[2][1]) is None) != pol:
                    feasible = False
            else:
                raise AnalysisError(f"{fi.qual}: unrecognised condition {show(a)} in a selector")
        if feasible and p.exit[0] == "return":
            out.append(eval_term(p.exit[1], assign, fi))
    return out


def eval_term(t: Any, assign: dict[str, Any], fi) -> Any:
    if t[0] == "param":
        return assign.get(t[1])
    if t[0] == "const":
        return t[1]
    if t[0] == "tuple":
        return tuple(eval_term(x, assign, fi) for x in t[1])
    if t[0] == "ite":
        c = eval_cond(t[1], assign, fi)
        return eval_term(t[2] if c else t[3], assign, fi)
    if t[0] == "bool" and t[1] == "or":
        for x in t[2]:
            v = eval_term(x, assign, fi)
            if v:
                return v
        return v
    raise AnalysisError(f"{fi.qual}: selector result {show(t)} not understood")


def eval_cond(c: Any, assign: dict[str, Any], fi) -> bool:
    if c[0] == "not":
        return not eval_cond(c[1], assign, fi)
    if c[0] == "cmp" and c[1] == "is" and c[3] == ("const", None):
        return eval_term(c[2], assign, fi) is None
    if c[0] == "param":
        return bool(assign.get(c[1]))
    raise AnalysisError(f"{fi.qual}: selector condition {show(c)} not understood")
