"""C17 - Budget and CircuitBreaker are atomic under concurrent threads (lockset; sufficient)."""

from __future__ import annotations

import ast
from typing import Any

from ..model import AnalysisError, ClassInfo, FuncInfo, Program
from ..report import Report

CLASSES = {
    "redress.circuit:CircuitBreaker": {"_state", "_opened_at", "_probe_in_flight", "_failures", "_class_failures"},
    "redress.budget:Budget": {"_events"},
}
MUTATORS = {"append", "appendleft", "pop", "popleft", "clear", "update", "add", "remove", "extend", "insert", "setdefault", "discard"}


def self_name(fi: FuncInfo) -> str | None:
    ps = fi.positional_params()
    return ps[0] if ps and fi.is_method and not fi.is_staticmethod and not fi.is_classmethod else None


def field_aliases(prog: Program, m: FuncInfo, sn: str) -> dict[str, str]:
    """locals bound (only) to `self.<field>`: `events = self._events` - a use of the local is a use of the field"""
    binds: dict[str, list[Any]] = {}
    for n in prog._own_nodes(m.node):
        tv: list[tuple[ast.expr, Any]] = []
        if isinstance(n, ast.Assign):
            tv = [(t, n.value) for t in n.targets]
        elif isinstance(n, ast.AnnAssign) and n.value is not None:
            tv = [(n.target, n.value)]
        elif isinstance(n, ast.NamedExpr):
            tv = [(n.target, n.value)]
        elif isinstance(n, ast.AugAssign):
            tv = [(n.target, None)]
        elif isinstance(n, (ast.For, ast.AsyncFor)):
            tv = [(x, None) for x in ast.walk(n.target) if isinstance(x, ast.Name)]
        for t, v in tv:
            if isinstance(t, ast.Name):
                while isinstance(v, ast.NamedExpr):
                    v = v.value
                binds.setdefault(t.id, []).append(v)
    out: dict[str, str] = {}
    for name, vals in binds.items():
        fields = {v.attr if isinstance(v, ast.Attribute) and isinstance(v.value, ast.Name) and v.value.id == sn else None for v in vals}
        if len(fields) == 1 and None not in fields:
            out[name] = next(iter(fields))
    return out


def field_uses(prog: Program, m: FuncInfo, sn: str, fields: set[str] | None = None) -> list[tuple[ast.AST, str]]:
    """(node, field) for every `self.<field>` and every use of a local alias of it"""
    al = field_aliases(prog, m, sn)
    out: list[tuple[ast.AST, str]] = []
    for n in prog._own_nodes(m.node):
        if isinstance(n, ast.Attribute) and isinstance(n.value, ast.Name) and n.value.id == sn:
            if fields is None or n.attr in fields:
                out.append((n, n.attr))
        elif isinstance(n, ast.Name) and isinstance(n.ctx, ast.Load) and n.id in al:
            if fields is None or al[n.id] in fields:
                out.append((n, al[n.id]))
    return out


def all_methods(prog: Program, ci: ClassInfo) -> dict:
    """the class's methods including those inherited from repository base classes / mixins (nearest definition wins)"""
    out: dict = {}
    for c in reversed(prog.mro(ci)):
        out.update(c.methods)
    return out


def _mutators(prog: Program) -> frozenset:
    """the library's in-place container operations, plus the methods of the repository's own container subclasses
    (`class _TokenWindow(deque)`) that apply one of them to `self`: calling those on a field mutates the field"""
    LIB = MUTATORS

    extra: set[str] = set()
    for c in prog.classes.values():
        if not any(ast.unparse(b).split("[")[0].split(".")[-1] in ("deque", "list", "dict", "set", "defaultdict", "OrderedDict", "Counter") for b in c.node.bases):
            continue
        for mname, m in c.methods.items():
            sn = self_name(m)
            if sn is None or mname.startswith("__"):
                continue
            if any(isinstance(n, ast.Call) and isinstance(n.func, ast.Attribute) and n.func.attr in LIB and isinstance(n.func.value, ast.Name) and n.func.value.id == sn for n in prog._own_nodes(m.node)):
                extra.add(mname)
    return frozenset(LIB) | frozenset(extra)


def guarded_fields(prog: Program, ci: ClassInfo, lock: str) -> set[str]:
    """fields written (assigned or mutated in place, directly or through a local alias) outside __init__"""
    out: set[str] = set()
    MUTATORS = _mutators(prog)
    for name, m in all_methods(prog, ci).items():
        if name == "__init__":
            continue
        sn = self_name(m)
        if sn is None:
            continue
        al = field_aliases(prog, m, sn)
        for n in prog._own_nodes(m.node):
            if isinstance(n, ast.Call) and isinstance(n.func, ast.Attribute) and n.func.attr in MUTATORS and isinstance(n.func.value, ast.Name) and n.func.value.id in al:
                out.add(al[n.func.value.id])
            if isinstance(n, ast.Subscript) and isinstance(n.ctx, (ast.Store, ast.Del)) and isinstance(n.value, ast.Name) and n.value.id in al:
                out.add(al[n.value.id])
            if isinstance(n, ast.Attribute) and isinstance(n.value, ast.Name) and n.value.id == sn and n.attr != lock:
                if isinstance(n.ctx, (ast.Store, ast.Del)):
                    out.add(n.attr)
            if isinstance(n, ast.Call) and isinstance(n.func, ast.Attribute) and n.func.attr in MUTATORS:
                r = n.func.value
                if isinstance(r, ast.Attribute) and isinstance(r.value, ast.Name) and r.value.id == sn:
                    out.add(r.attr)
            if isinstance(n, ast.Subscript) and isinstance(n.ctx, (ast.Store, ast.Del)):
                r = n.value
                if isinstance(r, ast.Attribute) and isinstance(r.value, ast.Name) and r.value.id == sn:
                    out.add(r.attr)
    return out


class NoEagerLock(Exception):
    pass


def lock_field(prog: Program, ci: ClassInfo) -> str:
    init = all_methods(prog, ci).get("__init__")
    locks = []
    if init is not None:
        for n in prog._own_nodes(init.node):
            if isinstance(n, (ast.Assign, ast.AnnAssign)) and isinstance(n.value, ast.Call) and ast.unparse(n.value.func) in ("threading.Lock", "threading.RLock", "Lock", "RLock"):
                for t in (n.targets if isinstance(n, ast.Assign) else [n.target]):  # (`self._lock: threading.Lock = threading.Lock()` too)
                    if isinstance(t, ast.Attribute):
                        locks.append((t.attr, ast.unparse(n.value.func)))
    if not locks:
        raise NoEagerLock(f"{ci.qual}: __init__ does not create the lock (`self.<lock> = threading.Lock()`): a lock created lazily, or not at all, does not protect the first racing operations")
    if len(locks) != 1:
        raise AnalysisError(f"{ci.qual}: expected exactly one lock field, found {locks}")
    if "RLock" in locks[0][1]:
        raise AnalysisError(f"{ci.qual}: lock became re-entrant; the no-reentrancy rule needs re-confirmation")
    return locks[0][0]


def _lock_names(m: FuncInfo, sn: str, lock: str) -> set[str]:
    """local names bound (only) to self.<lock>"""
    out: set[str] = set()
    binds: dict[str, list[ast.expr]] = {}
    for n in Program._own_nodes(m.node):
        if isinstance(n, ast.Assign) and len(n.targets) == 1 and isinstance(n.targets[0], ast.Name):
            binds.setdefault(n.targets[0].id, []).append(n.value)
    for nm, vals in binds.items():
        if all(isinstance(v, ast.Attribute) and v.attr == lock and isinstance(v.value, ast.Name) and v.value.id == sn for v in vals):
            out.add(nm)
    return out


def _is_lock_expr(e: ast.expr, sn: str, lock: str, aliases: set[str]) -> bool:
    return (isinstance(e, ast.Attribute) and e.attr == lock and isinstance(e.value, ast.Name) and e.value.id == sn) or (isinstance(e, ast.Name) and e.id in aliases)


def with_lock_blocks(m: FuncInfo, sn: str, lock: str) -> list[ast.AST]:
    """critical sections: `with self.<lock>:` blocks, and the spelled-out form
    `L.acquire()` immediately followed by `try: ... finally: L.release()` (L = self.<lock> or a local alias of it)"""
    out: list[ast.AST] = []
    aliases = _lock_names(m, sn, lock)
    for n in Program._own_nodes(m.node):
        if isinstance(n, ast.With):
            for it in n.items:
                if _is_lock_expr(it.context_expr, sn, lock, aliases):
                    out.append(n)
        body = getattr(n, "body", None)
        for seq in [body, getattr(n, "orelse", None), getattr(n, "finalbody", None)] + ([m.node.body] if n is m.node else []):
            if not isinstance(seq, list):
                continue
            for i in range(len(seq) - 1):
                a_, t_ = seq[i], seq[i + 1]
                if (
                    isinstance(a_, ast.Expr) and isinstance(a_.value, ast.Call) and isinstance(a_.value.func, ast.Attribute) and a_.value.func.attr == "acquire" and not a_.value.args and not a_.value.keywords
                    and _is_lock_expr(a_.value.func.value, sn, lock, aliases)
                    and isinstance(t_, ast.Try) and len(t_.finalbody) == 1 and isinstance(t_.finalbody[0], ast.Expr) and isinstance(t_.finalbody[0].value, ast.Call)
                    and isinstance(t_.finalbody[0].value.func, ast.Attribute) and t_.finalbody[0].value.func.attr == "release"
                    and ast.dump(t_.finalbody[0].value.func.value) == ast.dump(a_.value.func.value)
                    and t_ not in out
                ):
                    out.append(t_)
    # the function body itself is a statement list too
    seq = m.node.body
    for i in range(len(seq) - 1):
        a_, t_ = seq[i], seq[i + 1]
        if (
            isinstance(a_, ast.Expr) and isinstance(a_.value, ast.Call) and isinstance(a_.value.func, ast.Attribute) and a_.value.func.attr == "acquire" and not a_.value.args and not a_.value.keywords
            and _is_lock_expr(a_.value.func.value, sn, lock, aliases)
            and isinstance(t_, ast.Try) and len(t_.finalbody) == 1 and isinstance(t_.finalbody[0], ast.Expr) and isinstance(t_.finalbody[0].value, ast.Call)
            and isinstance(t_.finalbody[0].value.func, ast.Attribute) and t_.finalbody[0].value.func.attr == "release"
            and ast.dump(t_.finalbody[0].value.func.value) == ast.dump(a_.value.func.value)
            and t_ not in out
        ):
            out.append(t_)
    return out


def lock_protocol_uses(m: FuncInfo, sn: str, lock: str, blocks: list[ast.AST]) -> set[int]:
    """ids of the AST nodes through which the lock is legitimately used: the `with` context expressions, and for the
    spelled-out form the alias binding, the acquire() right before the try and the release() in its finally"""
    ok: set[int] = set()
    aliases = _lock_names(m, sn, lock)
    for b in blocks:
        if isinstance(b, ast.With):
            for it in b.items:
                for x in ast.walk(it.context_expr):
                    ok.add(id(x))
        elif isinstance(b, ast.Try):
            for x in ast.walk(b.finalbody[0]):
                ok.add(id(x))
    for n in Program._own_nodes(m.node):
        if isinstance(n, ast.Assign) and len(n.targets) == 1 and isinstance(n.targets[0], ast.Name) and n.targets[0].id in aliases:
            for x in ast.walk(n.value):
                ok.add(id(x))
        if isinstance(n, ast.Expr) and isinstance(n.value, ast.Call) and isinstance(n.value.func, ast.Attribute) and n.value.func.attr == "acquire" and _is_lock_expr(n.value.func.value, sn, lock, aliases):
            # only the acquire that opens one of the recognised regions
            for x in ast.walk(n):
                ok.add(id(x))
    return ok


def inside(node: ast.AST, blocks: list[ast.AST]) -> bool:
    return any(node in list(ast.walk(b)) for b in blocks)


def run(rep: Report, prog: Program, tier: str) -> None:
    rep.explanation = (
        "Lockset analysis on the source of the two thread-shared classes. Guarded fields are inferred (every self._x "
        "written or mutated in place outside __init__) and must be a superset of the set confirmed by hand. R17.1: every "
        "access to a guarded field is lexically inside `with self._lock` or in a private helper all of whose call sites "
        "hold the lock (exemption: a method whose whole body is one load of one guarded field under the lock or not - "
        "atomic under the GIL). R17.2: each public method has a single critical section, all its guarded accesses and "
        "the computation of its result lie inside it (one linearisation point; read-modify-write cannot be split). "
        "R17.3: while the lock is held there is no call to a lock-taking method of the same object, no user callback "
        "(the injected clock is read before the `with`), no blocking API; the lock is used only through `with`. Together "
        "with the sequential tables of C06/C07/C10 this is a sufficient static argument for linearizability and "
        "deadlock freedom; no schedule is explored."
    )
    rep.trusted_base = ["threading.Lock as a context manager releases on every exit", "CPython evaluates `with` bodies atomically w.r.t. other holders of the same lock"]
    rep.assumptions = ["each operation is identified with (method, its clock reading); readings may be taken out of order by racing threads"]
    rep.not_decided = ["schedule exploration", "window arithmetic of C06/C10 under out-of-order timestamps"]
    rep.rule("R17.1", "guarded-field discipline: every access to a guarded field holds the lock (directly, or in a helper whose every call site holds it)")
    rep.rule("R17.2", "one critical section per public operation; guarded accesses and the result are computed inside it")
    rep.rule("R17.3", "no re-entrancy / callbacks / blocking while the lock is held; lock used only via `with`; one lock per class")
    for cq, floor_fields in CLASSES.items():
        ci = prog.cls(cq)
        try:
            lock = lock_field(prog, ci)
        except NoEagerLock as exc:
            rep.instance("R17.3", f"{cq}|lock-created-in-__init__")
            init = all_methods(prog, ci).get("__init__")
            rep.fail("R17.3", f"{cq}|no-eager-lock", str(exc), where=(init.where() if init is not None else f"{ci.module.relpath}:{ci.node.lineno}"), function=cq)
            continue
        guarded = guarded_fields(prog, ci, lock)
        if not floor_fields <= guarded:
            raise AnalysisError(f"{cq}: inferred guarded fields {sorted(guarded)} no longer include {sorted(floor_fields - guarded)}")
        rep.extra.setdefault("guarded_fields", {})[cq] = sorted(guarded)
        # classify methods
        locking: set[str] = set()  # methods that take the lock themselves
        for name, m in all_methods(prog, ci).items():
            sn = self_name(m)
            if sn and with_lock_blocks(m, sn, lock):
                locking.add(name)
        # helpers: methods that touch guarded fields without taking the lock
        helper_need: dict[str, list[ast.AST]] = {}
        for name, m in all_methods(prog, ci).items():
            rep.analysed(m.qual)
            if name == "__init__":
                continue
            sn = self_name(m)
            if sn is None:
                continue
            blocks = with_lock_blocks(m, sn, lock)
            uses = field_uses(prog, m, sn, guarded)
            field_of = {id(n): f for n, f in uses}
            accesses = [n for n, _f in uses]
            # parameters that alias guarded containers (CircuitBreaker._prune(bucket, ...)) are
            # covered through the call-site rule below
            outside = [n for n in accesses if not inside(n, blocks)]
            for n in accesses:
                rep.instance("R17.1", f"{m.qual}|{field_of[id(n)]}|{'locked' if n not in outside else 'unlocked'}", {"method": m.qual, "field": field_of[id(n)], "line": n.lineno} if len(rep.samples) < 15 else None)
            if outside:
                helper_need[name] = outside
            for n in accesses:
                if n not in outside:
                    rep.ok("R17.1")
        # every call site of a helper must hold the lock (transitively through other helpers)
        def call_sites(target: str) -> list[tuple[FuncInfo, ast.Call]]:
            out = []
            for nm, m in all_methods(prog, ci).items():
                sn = self_name(m)
                tm = all_methods(prog, ci).get(target)
                is_prop = tm is not None and tm.is_property
                for n in prog._own_nodes(m.node):
                    if isinstance(n, ast.Call) and isinstance(n.func, ast.Attribute) and n.func.attr == target and isinstance(n.func.value, ast.Name) and n.func.value.id == sn:
                        out.append((m, n))
                    elif is_prop and isinstance(n, ast.Attribute) and n.attr == target and isinstance(n.value, ast.Name) and n.value.id == sn and isinstance(n.ctx, ast.Load):
                        out.append((m, n))  # a private property is "called" wherever it is read
            return out

        def holds_lock(m: FuncInfo, node: ast.AST, seen: tuple = ()) -> bool:
            sn = self_name(m)
            if sn and inside(node, with_lock_blocks(m, sn, lock)):
                return True
            if m.name in seen or m.name.startswith("__"):
                return False
            if not (m.name.startswith("_") or m.name.endswith("__wrapped__")):
                return False  # public method called from anywhere
            sites = call_sites(m.name)
            return bool(sites) and all(holds_lock(cm, cn, seen + (m.name,)) for cm, cn in sites)

        for name, outside in helper_need.items():
            m = all_methods(prog, ci)[name]
            body = [s for s in m.node.body if not (isinstance(s, ast.Expr) and isinstance(s.value, ast.Constant))]
            single_load = (
                len(body) == 1
                and isinstance(body[0], ast.Return)
                and isinstance(body[0].value, ast.Attribute)
                and body[0].value.attr in guarded
            )
            for n in outside:
                if single_load:
                    rep.ok("R17.1")
                    continue
                if (name.startswith("_") or name.endswith("__wrapped__")) and holds_lock(m, m.node):
                    rep.ok("R17.1")
                else:
                    fld = getattr(n, "attr", None) or field_aliases(prog, m, self_name(m) or "self").get(getattr(n, "id", ""), "?")
                    rep.fail("R17.1", f"{m.qual}|{fld}|unlocked", f"{m.qual} accesses guarded field `{fld}` without holding {lock} (and not every call site of this method holds it)", where=m.where(n), function=m.qual)
        # public methods: one critical section, result inside
        for name, m in all_methods(prog, ci).items():
            if name.endswith("__wrapped__"):
                continue  # the undecorated body of a method wrapped by a decorator of the library: reachable only through its wrapper
            if name.startswith("_") or m.is_property and name not in locking:
                if not (m.is_property and name in locking):
                    continue
            sn = self_name(m)
            if sn is None:
                continue
            blocks = with_lock_blocks(m, sn, lock)
            touches = name in locking or name in helper_need or any(
                isinstance(n, ast.Call) and isinstance(n.func, ast.Attribute) and isinstance(n.func.value, ast.Name) and n.func.value.id == sn and n.func.attr in helper_need
                for n in prog._own_nodes(m.node)
            )
            if not touches:
                continue
            rep.instance("R17.2", f"{m.qual}|critical-sections={len(blocks)}")
            problem = None
            if len(blocks) != 1:
                problem = f"{len(blocks)} `with self.{lock}` blocks (expected exactly one)"
            else:
                blk = blocks[0]
                rets = [n for n in prog._own_nodes(m.node) if isinstance(n, ast.Return) and n.value is not None]
                al = field_aliases(prog, m, sn)

                def snapshot_only(expr: ast.AST) -> bool:
                    """the expression uses only locals / constants / unguarded configuration: values computed
                    inside the critical section and handed out afterwards are a snapshot, not a second access"""
                    for x in ast.walk(expr):
                        if isinstance(x, ast.Attribute) and isinstance(x.value, ast.Name) and x.value.id == sn and (x.attr in guarded or x.attr == lock):
                            return False
                        if isinstance(x, ast.Name) and x.id in al and al[x.id] in guarded:
                            return False
                        if isinstance(x, ast.Call) and isinstance(x.func, ast.Attribute) and isinstance(x.func.value, ast.Name) and x.func.value.id == sn:
                            return False
                    return True

                out_rets = [r for r in rets if r not in list(ast.walk(blk))]
                if any(not snapshot_only(r.value) for r in out_rets):
                    problem = "the result is computed outside the critical section"
                after = m.node.body[m.node.body.index(blk) + 1 :] if blk in m.node.body else None
                if after is None:
                    problem = problem or "the critical section is nested in other control flow"
                elif any(not (isinstance(s, ast.Pass) or (isinstance(s, ast.Return) and (s.value is None or snapshot_only(s.value)))) for s in after):
                    problem = problem or "statements follow the critical section"
                # statements before the block may only validate arguments / read the clock
                before = m.node.body[: m.node.body.index(blk)] if blk in m.node.body else []
                for s in before + [x for x in (after or []) if not isinstance(x, ast.Return)]:
                    for n in ast.walk(s):
                        if isinstance(n, ast.Attribute) and isinstance(n.value, ast.Name) and n.value.id == sn and n.attr in guarded:
                            problem = problem or f"guarded field `{n.attr}` read before the lock is taken"
                        if isinstance(n, ast.Call) and isinstance(n.func, ast.Attribute) and isinstance(n.func.value, ast.Name) and n.func.value.id == sn and (n.func.attr in locking or n.func.attr in helper_need):
                            problem = problem or f"`self.{n.func.attr}()` (a second critical section / guarded access) outside the critical section: the operation is split (check-then-act)"
            if problem:
                rep.fail("R17.2", f"{m.qual}|{problem[:40]}", f"{m.qual}: {problem}", where=m.where(), function=m.qual)
            else:
                rep.ok("R17.2")
        # calls made while holding the lock
        for name, m in all_methods(prog, ci).items():
            sn = self_name(m)
            if sn is None:
                continue
            held_everywhere = name in helper_need and name.startswith("_") and holds_lock(m, m.node)
            blocks = with_lock_blocks(m, sn, lock)
            for n in prog._own_nodes(m.node):
                if not isinstance(n, ast.Call):
                    continue
                if not (inside(n, blocks) or held_everywhere):
                    continue
                if id(n) in lock_protocol_uses(m, sn, lock, blocks):
                    continue
                rep.instance("R17.3", f"{m.qual}|call {ast.unparse(n.func)}")
                problem = None
                f = n.func
                if isinstance(f, ast.Attribute) and isinstance(f.value, ast.Name) and f.value.id == sn:
                    if f.attr in locking:
                        problem = f"calls lock-taking method self.{f.attr}() while holding {lock} (self-deadlock)"
                    elif f.attr == lock:
                        problem = "uses the lock object directly"
                    elif f.attr not in all_methods(prog, ci):
                        problem = f"calls the injected callable self.{f.attr}() while holding {lock}"
                for t in prog.resolve_call(n, m):
                    if t.kind == "callback":
                        problem = problem or f"user callback ({t.category}) invoked while holding {lock}"
                    if t.kind == "lib" and (t.name or "").split(".")[-1] in ("sleep", "acquire", "wait", "join", "result"):
                        problem = problem or f"blocking call {t.name} while holding {lock}"
                if problem:
                    rep.fail("R17.3", f"{m.qual}|{problem[:50]}", f"{m.qual}: {problem}", where=m.where(n), function=m.qual)
                else:
                    rep.ok("R17.3")
            # `.state` read through the property inside a locked region
            for n in prog._own_nodes(m.node):
                if isinstance(n, ast.Attribute) and isinstance(n.value, ast.Name) and n.value.id == sn and n.attr in locking and isinstance(all_methods(prog, ci).get(n.attr), FuncInfo) and all_methods(prog, ci)[n.attr].is_property:
                    if inside(n, blocks) or held_everywhere:
                        rep.instance("R17.3", f"{m.qual}|property {n.attr}")
                        rep.fail("R17.3", f"{m.qual}|property-{n.attr}-under-lock", f"{m.qual} reads the lock-taking property self.{n.attr} while holding {lock} (self-deadlock)", where=m.where(n), function=m.qual)
            # lock used only through `with`
            for n in prog._own_nodes(m.node):
                if isinstance(n, ast.Attribute) and n.attr == lock and isinstance(n.value, ast.Name) and n.value.id == sn:
                    is_ctx = id(n) in lock_protocol_uses(m, sn, lock, blocks)
                    is_init = name == "__init__" and isinstance(n.ctx, ast.Store)
                    rep.instance("R17.3", f"{m.qual}|lock-use")
                    if is_ctx or is_init:
                        rep.ok("R17.3")
                    else:
                        rep.fail("R17.3", f"{m.qual}|raw-lock-use", f"{m.qual} uses self.{lock} other than as `with self.{lock}:`", where=m.where(n), function=m.qual)
    # no access to guarded fields / the lock from outside the class
    for fn in prog.funcs.values():
        for cq, fields in CLASSES.items():
            ci = prog.cls(cq)
            if fn.cls is ci:
                continue
            if fn.module.name == "redress.strategies":
                continue  # AdaptiveStrategy has its own _events/_lock
            for n in prog._own_nodes(fn.node):
                if isinstance(n, ast.Attribute) and (n.attr in fields or n.attr == "_lock"):
                    bt = prog.type_of(n.value, fn)
                    if not any(a[0] == "cls" and a[1] == cq for a in bt):
                        continue
                    rep.instance("R17.1", f"outside|{fn.qual}|{n.attr}")
                    rep.fail("R17.1", f"outside|{fn.qual}|{n.attr}", f"{fn.qual} touches `{n.attr}` of a thread-shared object from outside its class", where=fn.where(n), function=fn.qual)
    rep.floor("R17.1", 25)
    rep.floor("R17.2", 7)
    rep.floor("R17.3", 10)
    rep.rule("R17.4", "what each atomic operation does is what the statement names: with R17.1-R17.3 every interleaving equals a sequential order, so `two racing probes are never both admitted` and `racing failures open the circuit exactly once` hold iff they hold sequentially - allow() claims the single probe slot when it admits in HALF_OPEN and rejects while it is taken, record_failure() opens once and reports nothing more while OPEN (= the transition table of C07 R7.1 / C06 R6.1)")
    from .breaker_table import check_method

    check_method(rep, "R17.4", prog, "allow")
    for m in ("record_success", "record_failure", "record_cancel"):
        check_method(rep, "R17.4", prog, m, row_filter=lambda v: v["ST"] in ("HALF_OPEN", "OPEN"))
    rep.floor("R17.4", 18)
