"""C18 - built-in backoff strategies are total and stay inside their envelopes."""

from __future__ import annotations

import ast
import math
from fractions import Fraction
from typing import Any

from ..bounds import lower_bounds, lower_const, upper_bounds, upper_bounds_o
from ..ctx import cfgs, engine
from ..interval import form, interval
from ..mayraise import F, I, N, analyse_function
from ..model import AnalysisError, Program
from ..paths import SymPath, contains, show, subterms
from ..report import Report

ST = "redress.strategies"
TRUSTED = {"strategy": frozenset({F}), "clock": frozenset({F})}
SELF = ("param", "self")


def report_obligations(rep: Report, rid: str, prog: Program, qual: str, obs, label: str | None = None) -> int:
    fi = prog.func(qual)
    n = 0
    for ob in obs:
        n += 1
        rep.instance(rid, f"{qual.split(':')[1]}|{ob.expr[:70]}|{','.join(ob.kinds)}", {"function": qual, "operation": ob.expr[:100], "may_raise": list(ob.kinds), "discharged_by": ob.discharged_by or "-", "why": ob.why[:120]} if len(rep.samples) < 14 else None)
        if ob.discharged_by:
            rep.ok(rid)
        else:
            rep.fail(rid, f"{qual.split(':')[1]}|{ob.expr[:60]}|{','.join(ob.escaping)}", f"{qual}: `{ob.expr[:90]}` may raise {', '.join(ob.escaping)} ({ob.why}) and nothing in the function catches it", where=f"{fi.module.relpath}:{ob.node.lineno}", function=qual)
    return n


def uniform_args(p: SymPath):
    by = {e.result: e for e in p.calls(pure=None)}

    def f(t: Any):
        e = by.get(t)
        return list(e.args) if e is not None else None

    return f


def run(rep: Report, prog: Program, tier: str) -> None:
    rep.explanation = (
        "(R18.1) May-raise analysis with type guards over all symbolic paths of the five strategy families: every "
        "operation that can raise on the input domain (float power with an unbounded integer exponent, division, "
        "float()/math.isfinite of unbounded ints, ordering comparison of non-numbers, indexing of possibly empty "
        "containers, attribute access, user callables) is discharged by operand types, a dominating guard or an enclosing "
        "handler. (R18.2) Envelopes over the reals by a small symbolic interval domain (linear endpoints over "
        "non-negative symbols; min/max bound sets): decorrelated_jitter in [0, max_s]; equal_jitter / token_backoff in "
        "[cap/2, cap] for the structurally matched cap = min(max_s, base_s * g**E); AdaptiveStrategy._multiplier in "
        "[min_multiplier, max_multiplier] on each of its return paths and __call__ = fallback(ctx) * _multiplier(); "
        "retry_after_or finite (isfinite guard), >= 0 and <= remaining_s when one is given."
    )
    rep.trusted_base = ["sa/mayraise.py table of raising operations (CPython 3.12)", "random.uniform(a, b) lies between min(a, b) and max(a, b)", "min / max / math.isfinite contracts"]
    rep.assumptions = [
        "attempt >= 1 (int, unbounded); prev_sleep >= 0 or None; 0 <= base_s <= max_s finite; remaining_s >= 0 or None; min_multiplier <= max_multiplier (validated by adaptive())",
        "a fallback strategy and the injected clock return floats and do not raise (typed domain)",
        "real arithmetic",
    ]
    rep.not_decided = ["IEEE-754 rounding (e.g. cap/2 + u <= cap bit-exactly)", "NaN parameters", "parameterisations with base_s below max_s * g**-N for the clamped exponent N (subnormal corner)"]

    G, E = cfgs(prog), engine(prog)
    rep.rule("R18.1", "totality: no operation of the built-in strategies can raise on the input domain")
    funcs = [
        f"{ST}:decorrelated_jitter.<locals>.f", f"{ST}:equal_jitter.<locals>.f", f"{ST}:token_backoff.<locals>.f", f"{ST}:retry_after_or.<locals>.f",
        f"{ST}:AdaptiveStrategy.__call__", f"{ST}:AdaptiveStrategy._multiplier",
        f"{ST}:AdaptiveStrategy.record_success", f"{ST}:AdaptiveStrategy.record_failure",
    ]
    # plus whatever private helpers the class has today (extracted or inlined helpers change nothing)
    for mname, mfi in prog.cls(f"{ST}:AdaptiveStrategy").methods.items():
        if mfi.qual not in funcs and not (mname.startswith("__") and mname.endswith("__")):
            funcs.append(mfi.qual)
    n_ops = 0
    results = {}
    for q in funcs:
        fi = prog.func(q)
        rep.analysed(q)
        obs, paths, mr = analyse_function(prog, G, E, fi, domain={"attempt": frozenset({I}), "prev_sleep": frozenset({F, N})}, trusted=TRUSTED)
        results[q] = (obs, paths)
        report_obligations(rep, "R18.1", prog, q, obs)
        open_exprs = {ob.expr[:90] for ob in obs if not ob.discharged_by}
        for ex in mr.examined:
            n_ops += 1
            rep.instance("R18.1", f"{q.split(':')[1]}|{ex}", {"function": q, "operation": ex} if len(rep.samples) < 20 else None)
            if not any(o in ex for o in open_exprs):
                rep.ok("R18.1")
    if n_ops < 6:
        raise AnalysisError(f"R18.1: only {n_ops} raising operations recognised in strategies.py (power, divisions, conversions expected)")

    rep.rule("R18.2", "envelopes over the reals: decorrelated_jitter in [0, max_s]; equal_jitter/token_backoff in [cap/2, cap]; _multiplier in [min_multiplier, max_multiplier]; retry_after_or finite, >= 0, <= remaining_s")
    base_s, max_s, prev = ("free", "base_s"), ("free", "max_s"), ("param", "prev_sleep")
    # decorrelated
    q = f"{ST}:decorrelated_jitter.<locals>.f"
    for p in results[q][1]:
        if p.exit[0] != "return":
            continue
        r = p.exit[1]
        rep.instance("R18.2", "decorrelated_jitter", {"value": show(r)})
        lc = lower_const(r, nonneg=[base_s, max_s, prev], call_args=uniform_args(p))
        if max_s in upper_bounds(r) and lc is not None and lc >= 0:
            rep.ok("R18.2")
        else:
            rep.fail("R18.2", "decorrelated_jitter|envelope", f"decorrelated_jitter returns {show(r)}: not provably within [0, max_s] (upper bound max_s: {max_s in upper_bounds(r)}, constant lower bound: {lc})", where=prog.func(q).where(), function=q)
    # exponential families
    for name, g in (("equal_jitter", 2.0), ("token_backoff", 1.5)):
        q = f"{ST}:{name}.<locals>.f"
        for p in results[q][1]:
            if p.exit[0] != "return":
                continue
            r = p.exit[1]
            pool = list(subterms(r))
            for e in p.calls(pure=None):
                for a in e.args:
                    pool.extend(subterms(a))
            caps = [t for t in pool if is_cap(t, base_s, max_s, g)]
            rep.instance("R18.2", name, {"value": show(r), "cap": show(caps[0]) if caps else None})
            if not caps:
                rep.fail("R18.2", f"{name}|cap-shape", f"{name}: no sub-term of the form min(max_s, base_s * {g}**attempt) in the result {show(r)}", where=prog.func(q).where(), function=q)
                continue
            cap = caps[0]
            lo, hi = interval(r, {cap: "cap"}, uniform_args(p))
            want_lo, want_hi = form(0, cap=Fraction(1, 2)), form(0, cap=1)
            if lo == want_lo and hi == want_hi:
                rep.ok("R18.2")
            else:
                rep.fail("R18.2", f"{name}|envelope", f"{name} returns {show(r)} whose range over the reals is [{fmt(lo)}, {fmt(hi)}], expected [cap/2, cap]", where=prog.func(q).where(), function=q)
    # adaptive
    q = f"{ST}:AdaptiveStrategy._multiplier"
    minm, maxm = ("attr", SELF, "min_multiplier"), ("attr", SELF, "max_multiplier")
    order = [(minm, maxm)]
    nret = 0
    for p in results[q][1]:
        if p.exit[0] != "return":
            continue
        r = p.exit[1]
        nret += 1
        rep.instance("R18.2", f"_multiplier|{show(r)[:50]}")
        if minm in lower_bounds(r, order) and maxm in upper_bounds_o(r, order):
            rep.ok("R18.2")
        else:
            rep.fail("R18.2", f"_multiplier|{show(r)[:40]}", f"AdaptiveStrategy._multiplier returns {show(r)}: not provably within [min_multiplier, max_multiplier]", where=prog.func(q).where(), function=q)
    if nret < 4:
        raise AnalysisError("_multiplier: fewer than 4 return paths")
    q = f"{ST}:AdaptiveStrategy.__call__"
    for p in results[q][1]:
        r = p.exit[1] if p.exit[0] == "return" else None
        fb = [e for e in p.calls() if e.callback() == "strategy"]
        mu = [e for e in p.calls() if e.is_repo("AdaptiveStrategy._multiplier")]
        rep.instance("R18.2", "AdaptiveStrategy.__call__", {"value": show(r)})
        ok = len(fb) == 1 and len(mu) == 1 and r in (("op", "*", fb[0].result, mu[0].result), ("op", "*", mu[0].result, fb[0].result)) and fb[0].args == [("param", "ctx")] and fb[0].recv == SELF
        if ok:
            rep.ok("R18.2")
        else:
            rep.fail("R18.2", "AdaptiveStrategy.__call__|shape", f"AdaptiveStrategy.__call__ returns {show(r)}; expected fallback(ctx) * self._multiplier()", where=prog.func(q).where(), function=q)
    ad = prog.func(f"{ST}:adaptive")
    # decided on the paths of adaptive() that build the strategy (validation helpers read through): each of them has
    # decided `min_multiplier >= 1.0` and `max_multiplier >= min_multiplier` (linear normal form of its branch literals)
    from ..paths import norm_less

    MINP, MAXP = ("param", "min_multiplier"), ("param", "max_multiplier")
    apaths = [p for p in E.paths(ad) if p.exit[0] == "return"]
    missing: list[str] = []
    for p in apaths:
        forms = []
        for a, pol, _ in p.conds:
            nf = norm_less(a, pol, integer=False) if isinstance(a, tuple) and a and a[0] == "cmp" and a[1] == "<" else None
            if nf is not None and nf[0] == ">=0":
                forms.append((dict(nf[1]), nf[2]))
        has_min = any(td == {MINP: 1} and c == -1 for td, c in forms)
        has_order = any(td == {MAXP: 1, MINP: -1} and c == 0 for td, c in forms)
        if not (has_min and has_order):
            missing.append("|".join(p.describe()[-3:]))
    rep.instance("R18.2", "adaptive|validation", {"constructing_paths": len(apaths)})
    if apaths and not missing:
        rep.ok("R18.2")
    else:
        rep.fail("R18.2", "adaptive|validation", f"adaptive() no longer validates min_multiplier >= 1.0 and max_multiplier >= min_multiplier on {len(missing)} of its {len(apaths)} constructing paths", where=ad.where(), function=ad.qual)
    # retry_after_or
    q = f"{ST}:retry_after_or.<locals>.f"
    ctx = ("param", "ctx")
    rem = ("attr", ctx, "remaining_s")
    outer = prog.func(f"{ST}:retry_after_or")
    from .common import nonneg_local

    jname = nonneg_local(prog, outer, "jitter_s")  # the local is found by what it is bound to, not by its name
    jitter = ("free", jname or "jitter")
    jit_ok = jname is not None
    rep.instance("R18.2", "retry_after_or|jitter-nonneg")
    if jit_ok:
        rep.ok("R18.2")
    else:
        rep.fail("R18.2", "retry_after_or|jitter-nonneg", "retry_after_or no longer normalises jitter = max(0.0, jitter_s)", where=outer.where(), function=outer.qual)
    for p in results[q][1]:
        if p.exit[0] != "return":
            continue
        r = p.exit[1]
        # remaining_s may be given unless this path established `remaining_s is None`
        has_rem = not any(a == ("cmp", "is", rem, ("const", None)) and pol for a, pol, _ in p.conds)
        raw_terms = [e.result for e in p.calls() if e.callback() == "strategy"]
        hint = ("attr", ("attr", ctx, "classification"), "retry_after_s")
        rep.instance("R18.2", "retry_after_or|" + "|".join(p.describe()[-3:])[:120])
        problem = None
        lc = lower_const(r, nonneg=[rem, jitter], call_args=uniform_args(p))
        if lc is None or lc < 0:
            problem = f"result {show(r)} not bounded below by 0"
        if has_rem and rem not in upper_bounds(r):
            problem = problem or f"remaining_s may be given on this path but does not bound the result {show(r)}"
        # finiteness: every unbounded source inside the result is dominated by an isfinite(...) == True literal
        fin_true = [a[2][0] for a, pol, _ in p.conds if a[0] == "pure" and a[1] == "math.isfinite" and pol]
        for src in raw_terms + [hint]:
            if contains(r, src):
                guarded = any(contains(ft, src) for ft in fin_true) or src in fin_true
                if not guarded:
                    problem = problem or f"{show(src)} reaches the result without a dominating math.isfinite(...) test"
        if problem:
            rep.fail("R18.2", f"retry_after_or|{problem[:50]}", f"retry_after_or: {problem}", where=prog.func(q).where(), function=q, path=p.describe())
        else:
            rep.ok("R18.2")
    rep.floor("R18.2", 12)

    rep.rule("R18.3", "the envelopes hold for NaN too: in every min / max clamp of the built-in strategies the NaN-free bound is the first argument (CPython's min/max return their first argument when comparisons with NaN are false), so a NaN from random.uniform over an infinite range or from a misbehaving fallback cannot leave through the clamp")
    from .floats import nan_safe_clamps

    n_cl = nan_safe_clamps(rep, "R18.3", prog, {q: results[q][1] for q in results})
    if n_cl < 6:
        raise AnalysisError(f"R18.3: only {n_cl} min/max clamps found in the strategies")
    rep.floor("R18.3", 6)


def is_cap(t: Any, base_s: Any, max_s: Any, g: float) -> bool:
    """min(max_s, base_s * g**E) with E = attempt or a clamp of attempt whose power is finite"""
    if not (isinstance(t, tuple) and len(t) == 4 and t[0] == "pure" and t[1] == "min" and len(t[2]) == 2 and max_s in t[2]):
        return False
    other = t[2][0] if t[2][1] == max_s else t[2][1]
    if not (other[0] == "op" and other[1] == "*" and base_s in (other[2], other[3])):
        return False
    pw = other[3] if other[2] == base_s else other[2]
    if not (pw[0] == "op" and pw[1] == "**" and pw[2] == ("const", g)):
        return False
    e = pw[3]
    att = ("param", "attempt")
    if e == att:
        return True
    if e[0] == "pure" and e[1] == "min" and len(e[2]) == 2 and att in e[2]:
        c = e[2][0] if e[2][1] == att else e[2][1]
        if c[0] == "const" and isinstance(c[1], int) and c[1] >= 64:
            try:
                return math.log(g) * c[1] < math.log(1.7976931348623157e308)
            except (ValueError, OverflowError):
                return False
    return False


def fmt(f) -> str:
    if f is None:
        return "?"
    parts = [f"{v}*{k}" for k, v in sorted(f[1])]
    if f[0] != 0 or not parts:
        parts.append(str(f[0]))
    return " + ".join(parts)

