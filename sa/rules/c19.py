"""C19 - built-in classifiers are total and follow the documented table and precedence."""

from __future__ import annotations

import ast
import itertools
from typing import Any

from ..ctx import cfgs, engine
from ..mayraise import ANY, B, S, X, analyse_function
from ..model import AnalysisError, Program
from ..paths import CannotEval, SymPath, evaluate, feasible_paths, show, subterms, truth
from ..report import Report
from .c18 import report_obligations
from .runner_flow import KNOWN_MODULES

MARKERS = {"TimeoutError": "TRANSIENT", "PermanentError": "PERMANENT", "RateLimitError": "RATE_LIMIT", "ConcurrencyError": "CONCURRENCY", "ServerError": "SERVER_ERROR"}
NAME_GROUPS = [(("auth", "unauthoriz", "credential"), "AUTH"), (("forbid", "permission"), "PERMISSION"), (("timeout", "connection"), "TRANSIENT")]
SUBSTRINGS = [s for g, _ in NAME_GROUPS for s in g]
CODES = [-1, 0, 1, 99, 100, 399, 400, 401, 402, 403, 404, 405, 407, 408, 409, 410, 421, 422, 423, 428, 429, 430, 499, 500, 501, 550, 599, 600, 601, 10**30]


def code_class_default(c: int) -> str | None:
    if c == 401:
        return "AUTH"
    if c == 403:
        return "PERMISSION"
    if c in (400, 404, 422):
        return "PERMANENT"
    if c == 409:
        return "CONCURRENCY"
    if c == 408:
        return "TRANSIENT"
    if c == 429:
        return "RATE_LIMIT"
    if 500 <= c <= 599:
        return "SERVER_ERROR"
    return None


def code_class_http(c: int) -> str:
    if c == 401:
        return "AUTH"
    if c == 403:
        return "PERMISSION"
    if c in (400, 404):
        return "PERMANENT"
    if c == 409:
        return "CONCURRENCY"
    if c == 408:
        return "TRANSIENT"
    if c == 429:
        return "RATE_LIMIT"
    if 500 <= c <= 599:
        return "SERVER_ERROR"
    return "UNKNOWN"


def sqlstate_class(code: str) -> str:
    if code in ("40001", "40P01"):
        return "CONCURRENCY"
    if code in ("HYT00", "HYT01", "08S01") or code.startswith("08"):
        return "TRANSIENT"
    if code.startswith("28"):
        return "AUTH"
    if code in ("42000", "42P01"):
        return "PERMANENT"
    return "UNKNOWN"


SQLSTATES = ["40001", "40P01", "HYT00", "HYT01", "08S01", "08001", "08006", "08", "28000", "28P01", "2", "42000", "42P01", "42S02", "42", "00000", "23505", "", "40002", "HYT02", "4", "0"]


def result_class(t: Any) -> str | None:
    if isinstance(t, tuple) and t[0] == "enum" and t[1] == "ErrorClass":
        return t[2]
    if isinstance(t, tuple) and t[0] == "call" and str(t[2]).endswith((":default_classifier", ":http_classifier", ":_classify", ":strict_classifier", ":_map_grpc_status", ":_classify_client_error")):
        return "@" + str(t[2]).split(":")[-1]
    if isinstance(t, tuple) and t[0] == "ite":
        a, b = result_class(t[2]), result_class(t[3])
        return None if a is None or b is None else f"ite({a},{b})"
    return None


def flag_param(fi) -> str:
    """the parameter of _classify that switches the name heuristics: the one annotated `bool` (its name is free)"""
    for a in fi.params():
        if a.annotation is not None and ast.unparse(a.annotation).strip() == "bool":
            return a.arg
    return "use_name_heuristics"


CLASSIFIER_MODULES = ("redress.classify", "redress.extras.http", "redress.extras.sqlstate", "redress.extras.pyodbc")


def totality(rep: Report, rid: str, prog: Program, roots: list[str] | None = None, min_ops: int = 25) -> dict:
    """no operation reachable from the given built-in classifiers can raise; every path returns an ErrorClass"""
    G, E = cfgs(prog), engine(prog)
    roots = roots or [
        "redress.classify:default_classifier", "redress.classify:strict_classifier", "redress.extras.http:http_classifier",
        "redress.extras.sqlstate:sqlstate_classifier", "redress.extras.pyodbc:pyodbc_classifier",
    ]
    funcs: dict[str, dict] = {}
    todo = [prog.func(r) for r in roots]
    while todo:
        f = todo.pop()
        if f.qual in funcs:
            continue
        dom = {}
        for prm in f.params():
            if prm.arg in ("err", "exc"):
                dom[prm.arg] = frozenset({X})
            if prm.arg == flag_param(f) and prm.annotation is not None and ast.unparse(prm.annotation).strip() == "bool":
                dom[prm.arg] = frozenset({B})
        funcs[f.qual] = dom
        for n in prog._own_nodes(f.node):
            if isinstance(n, ast.Call):
                for t in prog.resolve_call(n, f):
                    if t.kind == "repo" and t.func is not None and (t.func.module.name in CLASSIFIER_MODULES or t.func.module.name not in KNOWN_MODULES):
                        todo.append(t.func)  # the classifiers' own modules, and any module that did not exist when the rules were written (a helper moved out)
    for need in (("_classify", "_coerce_status") if len(roots) > 1 else ("_classify",)):
        if not any(q.split(":")[1] == need for q in funcs):
            raise AnalysisError(f"anchor vanished from the classifiers' call graph: {need}")
    n_ops = 0
    allpaths: dict[str, list[SymPath]] = {}
    for q, dom in funcs.items():
        fi = prog.func(q)
        rep.analysed(q)
        obs, paths, mr = analyse_function(prog, G, E, fi, domain=dom, call_types={":_coerce_status": frozenset({"Int", "Bool", "None"}), ":_extract_sqlstate": frozenset({"Str", "None"})})
        allpaths[q] = paths
        report_obligations(rep, rid, prog, q, obs)
        open_exprs = {ob.expr[:90] for ob in obs if not ob.discharged_by}
        for ex in mr.examined:
            n_ops += 1
            rep.instance(rid, f"{q.split(':')[1]}|{ex}", {"function": q, "operation": ex} if len(rep.samples) < 16 else None)
            if not any(o in ex for o in open_exprs):
                rep.ok(rid)
        if "classifier" in q or q.endswith("_classify"):
            for p in paths:
                rep.instance(rid, f"{q.split(':')[1]}|returns|{show(p.exit[1])[:40] if len(p.exit) > 1 else p.exit}")
                if p.exit[0] == "return" and (result_class(p.exit[1]) is not None or table_of_classes(prog, fi, p.exit[1])):
                    rep.ok(rid)
                else:
                    rep.fail(rid, f"{q.split(':')[1]}|not-an-ErrorClass", f"{q}: a path ends with {p.exit[0]} {show(p.exit[1]) if len(p.exit) > 1 else ''} instead of returning an ErrorClass", where=fi.where(), function=q, path=p.describe())
    if n_ops < min_ops:
        raise AnalysisError(f"R19.1: only {n_ops} raising-capable operations recognised")
    return allpaths


def run(rep: Report, prog: Program, tier: str) -> None:
    rep.explanation = (
        "(R19.1) May-raise analysis with type guards over all paths of _classify, default/strict_classifier, "
        "_coerce_status, http_classifier, both _extract_sqlstate, sqlstate_classifier and pyodbc_classifier on the domain "
        "`any exception object whose attributes and args hold built-in values`: isinstance / str() guards discharge every "
        "ordering comparison, hashing membership test, regex search and string method; every path returns an ErrorClass. "
        "(R19.2) _classify's decision list is evaluated - by Boolean evaluation of its extracted guards - on every "
        "combination of marker type x integer region (constants of the function +-1) x the seven name substrings x "
        "heuristics flag and compared with `markers > code > names > UNKNOWN`. (R19.3) http_classifier and the SQLSTATE "
        "classifiers are evaluated the same way on all integer regions / representative SQLSTATE strings against the "
        "documented tables, and the two SQLSTATE siblings against each other. (R19.4) every read of the exception's type "
        "name is dominated by use_name_heuristics. (R19.5) each optional-library classifier falls back to "
        "default_classifier(exc) on every import failure."
    )
    rep.trusted_base = ["sa/mayraise.py table of raising operations", "sa/paths.py evaluate() for guards", "documented tables in this file (docstring of default_classifier, docs)"]
    rep.assumptions = ["attribute values and args are built-in values or plain objects without user-defined dunder methods (the property's own domain)", "BaseException.args is always a tuple"]
    rep.not_decided = ["library-present branches of the optional classifiers (third-party types)", "exceptions with raising properties"]
    G, E = cfgs(prog), engine(prog)

    rep.rule("R19.1", "totality: no operation of the built-in classifiers can raise; every path returns an ErrorClass")
    allpaths = totality(rep, "R19.1", prog)

    # ------------------------------------------------------------------ R19.2 precedence in _classify
    rep.rule("R19.2", "_classify == markers > integer status/code > name heuristics > UNKNOWN, on every combination of marker x integer region x name substrings x heuristics flag")
    q = prog.func("redress.classify:_classify").qual
    FLAG = flag_param(prog.func(q))
    fi = prog.func(q)
    paths = allpaths[q]
    err = ("param", "err")
    codeterm = None
    codeterms = set()
    nameterm = None
    for p in paths:
        for a, pol, _ in p.conds:
            if a[0] == "pure" and a[1] == "isinstance" and a[2][1] == ("global", "builtins.int"):
                codeterms.add(a[2][0])
                if codeterm is None or len(show(a[2][0])) > len(show(codeterm)):
                    codeterm = a[2][0]
            for sa_ in ([a] + list(subterms(a)) if a[0] == "bool" else [a]):
                if isinstance(sa_, tuple) and sa_ and sa_[0] == "cmp" and sa_[1] == "in" and isinstance(sa_[2], tuple) and sa_[2][0] == "const" and isinstance(sa_[2][1], str):
                    nameterm = sa_[3]
    if codeterm is None or nameterm is None:
        raise AnalysisError("_classify: code / name terms not found")
    if not (nameterm[0] == "pure" and nameterm[1] == ".lower" and "__name__" in show(nameterm)):
        raise AnalysisError(f"_classify: name heuristics do not look at type(err).__name__.lower(): {show(nameterm)}")
    cterm_ok = show(codeterm) in ("(getattr(err, 'status', None) or getattr(err, 'code', None))",)
    rep.instance("R19.2", "code-source", {"term": show(codeterm)})
    if cterm_ok:
        rep.ok("R19.2")
    else:
        rep.fail("R19.2", "_classify|code-source", f"_classify reads the numeric code from {show(codeterm)}; documented: err.status or err.code", where=fi.where(), function=q)
    def global_dict(t):
        """('global', 'mod:NAME') bound to a dict literal of constants -> python dict of terms"""
        if isinstance(t, tuple) and t and t[0] == "dict" and all(k[0] == "const" for k, _v in t[1]):
            return {k[1]: v for k, v in t[1]}  # the engine already evaluated the module constant
        if not (isinstance(t, tuple) and t[0] == "global" and ":" in t[1]):
            return None
        mod, name = t[1].split(":", 1)
        m = prog.modules.get(mod)
        val = m.assigns.get(name) if m is not None else None
        if not isinstance(val, ast.Dict):
            return None
        out = {}
        for k, v in zip(val.keys, val.values):
            if not isinstance(k, ast.Constant):
                return None
            ec = prog.enum_const(v, fi)
            out[k.value] = ("enum", ec[0], ec[1]) if ec else ("const", getattr(v, "value", None))
        return out

    bad = set()
    marker_vals = [None] + list(MARKERS)
    for marker, code, heur in itertools.product(marker_vals, [None] + CODES, (False, True)):
        for combo in name_combos():
            def leaf(t, marker=marker, code=code, heur=heur, combo=combo):
                if t == ("param", FLAG):
                    return heur
                if t[0] == "pure" and t[1] == "isinstance" and t[2][0] == err:
                    c = t[2][1]
                    n = c[1].split(".")[-1].split(":")[-1] if c[0] == "global" else None
                    if n in MARKERS:
                        return marker == n
                    raise CannotEval()
                if t[0] == "pure" and t[1] == "isinstance" and t[2][0] in codeterms:
                    return code is not None
                if t in codeterms:
                    if code is None:
                        raise CannotEval()
                    return code
                if t[0] == "cmp" and t[1] == "<":
                    a, b = evaluate(t[2], leaf), evaluate(t[3], leaf)
                    return a < b
                if t[0] == "cmp" and t[1] == "in" and t[3] == nameterm and t[2][0] == "const":
                    return t[2][1] in combo
                if t[0] == "pure" and t[1] == ".get" and len(t[2]) >= 2:
                    d = global_dict(t[2][0])
                    if d is not None:
                        k = evaluate(t[2][1], leaf)
                        if k in d and type(k) is not bool:
                            return d[k]
                        return evaluate(t[2][2], leaf) if len(t[2]) > 2 else None
                if t[0] == "cmp" and t[1] == "in" and t[3][0] in ("global", "dict"):
                    d = global_dict(t[3])
                    if d is not None:
                        return evaluate(t[2], leaf) in d
                raise CannotEval()

            fp = []
            for p in paths:
                ok = True
                for a, pol, _ in p.conds:
                    try:
                        v = leaf(a) if a[0] == "pure" or (a[0] == "cmp" and a[1] in ("<",)) or (a[0] == "cmp" and a[1] == "in" and a[3] == nameterm) or a[0] == "param" else truth(a, leaf)
                    except CannotEval:
                        continue  # e.g. which of status / code carried the value: both short-circuit paths must agree
                    if bool(v) != pol:
                        ok = False
                        break
                if ok:
                    fp.append(p)
            construct = f"marker={marker}|code={code}|heur={heur}|names={'+'.join(sorted(combo)) or '-'}"
            rep.instance("R19.2", construct, {"marker": marker, "code": str(code), "heuristics": heur, "name_substrings": sorted(combo)} if len(rep.samples) < 22 else None)
            if marker is not None:
                want = MARKERS[marker]
            elif code is not None and code_class_default(code) is not None:
                want = code_class_default(code)
            else:
                want = "UNKNOWN"
                if heur:
                    for subs, cls in NAME_GROUPS:
                        if any(s in combo for s in subs):
                            want = cls
                            break
            def final_class(p):
                if p is None or p.exit[0] != "return":
                    return "?"
                rc = result_class(p.exit[1])
                if rc is None:
                    try:
                        rc = result_class(evaluate(p.exit[1], leaf))
                    except CannotEval:
                        rc = None
                return str(rc)

            got = sorted({final_class(p) for p in fp})
            if got == [want]:
                rep.ok("R19.2")
            else:
                key = f"{'marker' if marker else ('code' if code is not None and code_class_default(code) else 'names')}|want={want}|got={','.join(map(str, got))}"
                if key not in bad:
                    bad.add(key)
                    rep.fail("R19.2", f"_classify|{key}", f"_classify [{construct}] yields {got}, documented: {want}", where=fi.where(), function=q)
    rep.floor("R19.2", 1000)

    # ------------------------------------------------------------------ R19.3 tables
    rep.rule("R19.3", "integer and SQLSTATE tables: http_classifier on every integer region; sqlstate_classifier and pyodbc_classifier on representative SQLSTATE strings, against the documented table and against each other")
    q = "redress.extras.http:http_classifier"
    fi = prog.func(q)
    paths = allpaths[q]
    status = None
    for p in paths:
        for e in p.calls():
            if e.is_repo(":_coerce_status"):
                status = e.result
    if status is None:
        raise AnalysisError("http_classifier: _coerce_status call not found")
    for code in [None] + CODES:
        def leaf(t, code=code):
            if t == status:
                return code
            if t[0] == "cmp" and t[1] == "<":
                return evaluate(t[2], leaf) < evaluate(t[3], leaf)
            if t[0] == "pure" and t[1] == ".get" and len(t[2]) >= 2:
                # the status table written as data: a lookup in a constant dict
                d = global_dict(t[2][0])
                if d is not None:
                    k = evaluate(t[2][1], leaf)
                    if type(k) is not bool and k in d:
                        return d[k]
                    return evaluate(t[2][2], leaf) if len(t[2]) > 2 else None
            raise CannotEval()

        fp = []
        for p in paths:
            ok = True
            for a, pol, _ in p.conds:
                try:
                    v = leaf(a) if (a[0] == "cmp" and a[1] == "<") else truth(a, leaf)
                except CannotEval:
                    ok = False
                    break
                if bool(v) != pol:
                    ok = False
                    break
            if ok:
                fp.append(p)
        got = []
        for p in fp:
            rv = p.exit[1] if p.exit[0] == "return" else None
            if rv is not None and rv[0] == "ite":
                try:
                    rv = rv[2] if truth(rv[1], leaf) else rv[3]
                except CannotEval:
                    pass
            if rv is not None and rv[0] == "pure" and rv[1] == ".get":
                try:
                    rv = leaf(rv)
                except CannotEval:
                    pass
            got.append(result_class(rv))
        got = sorted(set(map(str, got)))
        want = "@default_classifier" if code is None else code_class_http(code)
        rep.instance("R19.3", f"http|status={code}")
        if got == [want]:
            rep.ok("R19.3")
        else:
            rep.fail("R19.3", f"http_classifier|status={code}|got={','.join(got)}", f"http_classifier with status {code} yields {got}, documented: {want}", where=fi.where(), function=q)
    # _coerce_status: attribute order and the args window
    q = "redress.extras.http:_coerce_status"
    fi = prog.func(q)
    def folded(e: ast.AST, m=fi.module) -> ast.AST:
        """the expression with names of module-level literal constants (hoisted out of the function) spelled out"""
        import copy

        class F(ast.NodeTransformer):
            def visit_Name(self, n: ast.Name) -> ast.AST:
                v = m.assigns.get(n.id) if isinstance(n.ctx, ast.Load) else None
                if isinstance(v, ast.Constant) or (isinstance(v, ast.Tuple) and all(isinstance(x, ast.Constant) for x in v.elts)):
                    return ast.copy_location(copy.deepcopy(v), n)
                return n

        return F().visit(copy.deepcopy(e))

    attrs = [ast.literal_eval(folded(n.iter)) for n in prog._own_nodes(fi.node) if isinstance(n, ast.For) and isinstance(folded(n.iter), ast.Tuple) and all(isinstance(x, ast.Constant) for x in folded(n.iter).elts)]
    rep.instance("R19.3", "_coerce_status|attributes", {"order": attrs})
    if attrs and tuple(attrs[0]) == ("status", "status_code", "code"):
        rep.ok("R19.3")
    else:
        rep.fail("R19.3", "_coerce_status|attributes", f"_coerce_status looks at {attrs}; documented: status, status_code, code", where=fi.where(), function=q)
    win = [ast.unparse(folded(n)) for n in ast.walk(fi.node) if isinstance(n, ast.Compare) and len(n.ops) == 2]
    rep.instance("R19.3", "_coerce_status|args-window", {"window": win})
    if any(w.replace(" ", "") == "100<=arg<=599" for w in win):
        rep.ok("R19.3")
    else:
        rep.fail("R19.3", "_coerce_status|args-window", f"_coerce_status accepts int args in {win}; documented: 100..599", where=fi.where(), function=q)
    # SQLSTATE siblings
    res: dict[str, dict[str, str]] = {}
    for q in ("redress.extras.sqlstate:sqlstate_classifier", "redress.extras.pyodbc:pyodbc_classifier"):
        fi = prog.func(q)
        paths = allpaths[q]
        codeterm = None
        for p in paths:
            for a, pol, _ in p.conds:
                if a[0] == "cmp" and a[1] == "in" and a[3][0] == "set":
                    codeterm = a[2]
        if codeterm is None:
            raise AnalysisError(f"{q}: SQLSTATE term not found")
        res[q] = {}
        for code in SQLSTATES:
            def leaf(t, code=code, codeterm=codeterm):
                if t == codeterm:
                    return code
                if t[0] == "pure" and t[1] == ".startswith" and t[2][0] == codeterm:
                    return code.startswith(evaluate(t[2][1], leaf))
                if t[0] == "set":
                    return tuple(evaluate(x, leaf) for x in t[1])
                raise CannotEval()

            fp = []
            for p in paths:
                ok = True
                used = False
                for a, pol, _ in p.conds:
                    try:
                        if a[0] == "cmp" and a[1] == "in" and a[3][0] == "set":
                            v = evaluate(a[2], leaf) in tuple(evaluate(x, leaf) for x in a[3][1])
                            used = True
                        elif a[0] == "pure" and a[1] == ".startswith":
                            v = leaf(a)
                            used = True
                        else:
                            continue  # presence tests of the sqlstate: irrelevant once a code exists
                    except CannotEval:
                        continue
                    if bool(v) != pol:
                        ok = False
                        break
                if ok and (used or code is None):
                    fp.append(p)
            got = sorted({str(result_class(p.exit[1])) for p in fp if p.exit[0] == "return" and not str(result_class(p.exit[1])).startswith("@")})
            res[q][code] = ",".join(got)
            rep.instance("R19.3", f"{q.split(':')[1]}|{code!r}")
            want = sqlstate_class(code)
            if got == [want]:
                rep.ok("R19.3")
            else:
                rep.fail("R19.3", f"{q.split(':')[1]}|sqlstate={code}|got={','.join(got)}", f"{q} with SQLSTATE {code!r} yields {got}, documented: {want}", where=fi.where(), function=q)
    a, b = list(res.values())
    diff = {c: (a[c], b[c]) for c in SQLSTATES if a[c] != b[c]}
    rep.instance("R19.3", "sqlstate-siblings-agree")
    if diff:
        rep.fail("R19.3", f"sqlstate-siblings|{sorted(diff)[0]}", f"sqlstate_classifier and pyodbc_classifier disagree on {diff}", where=prog.func('redress.extras.pyodbc:pyodbc_classifier').where(), function="pyodbc_classifier")
    else:
        rep.ok("R19.3")
    rep.floor("R19.3", 30 + 2 * len(SQLSTATES))

    # ------------------------------------------------------------------ R19.6 SQLSTATE extraction
    rep.rule("R19.6", "SQLSTATE extraction: pyodbc_classifier takes the code from the sqlstate attribute or a *bracketed* 5-character [0-9A-Z] token of a string argument; sqlstate_classifier from the attribute or a free-standing (word-bounded) token - decided on the regex AST of the extractor each classifier actually calls")
    want_shape = {
        "redress.extras.pyodbc:pyodbc_classifier": "lit:[ group:5-5:[0-9,A-Z] lit:]",
        "redress.extras.sqlstate:sqlstate_classifier": "boundary group:5-5:[0-9,A-Z] boundary",
    }
    def pattern_text(t: Any, mod: Any) -> str | None:
        """the pattern string of a compiled-regex term: a module constant bound to `re.compile("...")`, or the
        compile call itself at the point of use"""
        node = None
        if isinstance(t, tuple) and t[0] == "global" and isinstance(t[1], str) and ":" in t[1]:
            mname, name = t[1].split(":", 1)
            m2 = prog.modules.get(mname)
            node = m2.assigns.get(name) if m2 is not None else None
        elif isinstance(t, tuple) and t[0] in ("call", "pure"):
            for x in subterms(t):
                if isinstance(x, tuple) and x[0] == "const" and isinstance(x[1], str):
                    return x[1]
        if isinstance(node, ast.Call) and node.args and isinstance(node.args[0], ast.Constant) and isinstance(node.args[0].value, str) and ast.unparse(node.func).split(".")[-1] == "compile":
            return node.args[0].value
        return None

    for cq, shape in want_shape.items():
        cf = prog.func(cq)
        # every regex operation the classifier performs, through whatever private extraction helpers it calls (they are
        # read through: the obligation is on the pattern that reaches `.search`, wherever it is spelled or passed from)
        eng = engine(prog)
        inline0 = eng.inline
        eng.inline = lambda f, inline0=inline0: bool(inline0 and inline0(f)) or (f.module.name.startswith("redress.extras") and f.name.startswith("_"))
        try:
            spaths = eng.paths(cf, raises=lambda ev, cfg: (), key="c19-sqlstate")
        finally:
            eng.inline = inline0
        pats_set: set = set()
        helpers: set = set()
        for sp in spaths:
            for e in sp.calls(pure=None):
                res = e.result
                name = res[1] if isinstance(res, tuple) and res[0] == "pure" else (e.lib() or "")
                for fr in e.frames:
                    helpers.add(fr[0].func.qual)
                if name in (".search", ".match", ".findall", ".fullmatch", ".finditer") and e.recv is not None and e.recv in (("global", "re"), ("global", "re.re")) and e.args:
                    a0 = e.args[0]  # `re.search(r"...", arg)`: the module function, pattern first
                    pats_set.add((name[1:], a0[1] if a0[0] == "const" and isinstance(a0[1], str) else (pattern_text(a0, cf.module) or f"<{show(a0)}>")))
                elif name in (".search", ".match", ".findall", ".fullmatch", ".finditer") and e.recv is not None:
                    pats_set.add((name[1:], pattern_text(e.recv, cf.module) or f"<{show(e.recv)}>"))
                elif name in ("re.search", "re.match", "re.findall", "re.fullmatch") and e.args:
                    a0 = e.args[0]
                    pats_set.add((name.split(".")[-1], a0[1] if a0[0] == "const" and isinstance(a0[1], str) else f"<{show(a0)}>"))
        pats = sorted(pats_set)
        rep.instance("R19.6", f"{cq.split(':')[1]}|extractor", {"helpers": sorted(helpers)})
        rep.ok("R19.6")
        rep.instance("R19.6", f"{cq.split(':')[1]}|regex", {"patterns": pats})
        ef = cf
        if len(pats) != 1 or pats[0][0] != "search":
            rep.fail("R19.6", f"{cq.split(':')[1]}|regex-use", f"{cq}: expected one `<compiled regex>.search(arg)` on its paths; found {pats}", where=cf.where(), function=cq)
            continue
        got_shape = regex_shape(pats[0][1])
        if got_shape == shape:
            rep.ok("R19.6")
        else:
            rep.fail("R19.6", f"{cq.split(':')[1]}|regex-shape|{got_shape[:50]}", f"{cq} extracts the SQLSTATE with /{pats[0][1]}/ (shape: {got_shape}); documented shape: {shape}", where=ef.where(), function=ef.qual)
        # group(1) of the first matching str argument, attribute first
        def reads_attr(e: Any) -> bool:
            res = e.result
            return isinstance(res, tuple) and res[0] == "pure" and res[1] == "getattr" and len(e.args) >= 2 and e.args[1] == ("const", "sqlstate")

        def attr_first(sp: SymPath) -> bool:
            evs = sp.calls(pure=None)
            ia = next((i for i, e in enumerate(evs) if reads_attr(e)), None)
            ir = next((i for i, e in enumerate(evs) if isinstance(e.result, tuple) and e.result[0] == "pure" and e.result[1] in (".search", ".match", ".findall", ".fullmatch")), None)
            return ia is not None and (ir is None or ia < ir)

        okattr = bool(spaths) and all(attr_first(sp) for sp in spaths)
        rep.instance("R19.6", f"{cq.split(':')[1]}|attribute-first")
        if okattr:
            rep.ok("R19.6")
        else:
            rep.fail("R19.6", f"{cq.split(':')[1]}|attribute-first", f"{cq} no longer consults the `sqlstate` attribute first", where=cf.where(), function=cq)
    rep.floor("R19.6", 6)

    # ------------------------------------------------------------------ R19.4
    rep.rule("R19.4", "strict never looks at names: every path of _classify that reads the exception's type name has use_name_heuristics true; strict_classifier passes False, default_classifier True")
    q = prog.func("redress.classify:_classify").qual
    for p in allpaths[q]:
        # the exception's type name - `type(err).__name__` / `err.__class__.__name__` - not the module's own `__name__`
        def names_type(t) -> bool:
            return any(isinstance(x, tuple) and len(x) == 3 and x[0] == "attr" and x[2] == "__name__" and isinstance(x[1], tuple) and x[1] and x[1][0] in ("pure", "attr") for x in subterms(t))

        reads = any(names_type(a) for a, _pol, _ in p.conds) or any(names_type(e.result) for e in p.calls(pure=None) if e.result is not None)
        flag = next((pol for a, pol, _ in p.conds if a == ("param", FLAG)), None)
        rep.instance("R19.4", f"_classify|reads_name={reads}|flag={flag}")
        if reads and flag is not True:
            rep.fail("R19.4", "_classify|name-read-without-flag", "_classify reads type(err).__name__ on a path where use_name_heuristics is not known to be true", where=prog.func(q).where(), function=q, path=p.describe())
        else:
            rep.ok("R19.4")
    for fn, want in (("strict_classifier", False), ("default_classifier", True)):
        f2 = prog.func(f"redress.classify:{fn}")
        for p in allpaths[f2.qual]:
            calls = [e for e in p.calls() if e.is_repo(":_classify")]
            rep.instance("R19.4", fn)
            pn = f2.param_names()[0]
            kw = dict(calls[0].kwargs) if len(calls) == 1 else {}
            flagv = kw.pop(FLAG, None)
            # by parameter name (the engine binds positional arguments to the callee's names): the exception and the flag
            if len(calls) == 1 and list(kw.values()) == [("param", pn)] and flagv == ("const", want) and p.exit == ("return", calls[0].result):
                rep.ok("R19.4")
            else:
                rep.fail("R19.4", f"{fn}|flag", f"{fn} must return _classify(err, use_name_heuristics={want})", where=f2.where(), function=f2.qual)
    rep.floor("R19.4", 20)

    # ------------------------------------------------------------------ R19.5
    rep.rule("R19.5", "library-absent fallback: in each optional classifier the import is the only effect of its try and every import failure returns exactly default_classifier(exc)")
    for mod, fn in (("aiohttp", "aiohttp_classifier"), ("grpc", "grpc_classifier"), ("boto3", "boto3_classifier"), ("redis", "redis_classifier"), ("urllib3", "urllib3_classifier")):
        q = f"redress.extras.{mod}:{fn}"
        fi = prog.func(q)
        rep.analysed(q)
        first_import = [None]

        def raises(ev, cfg, first_import=first_import):
            if ev.kind == "call" and (ev.lib() or "") == "importlib.import_module":
                if first_import[0] is None:
                    first_import[0] = ev.node.id
                if ev.node.id == first_import[0]:
                    return ("ImportError", "ModuleNotFoundError", "OtherException")
            return ()

        n = 0
        for p in E.paths(fi, raises=raises, key="c19-import"):
            src = [e for e in p.events if e.kind == "exc"]
            if not src:
                continue
            n += 1
            rep.instance("R19.5", f"{fn}|{src[0].value}")
            calls = [e for e in p.calls() if e.is_repo(":default_classifier")]
            ok = p.exit[0] == "return" and len(calls) == 1 and calls[0].args == [("param", "exc")] and p.exit[1] == calls[0].result
            others = [e for e in p.calls() if not e.is_repo(":default_classifier") and (e.lib() or "") != "importlib.import_module"]
            if ok and not others:
                rep.ok("R19.5")
            else:
                rep.fail("R19.5", f"{fn}|import-failure|{src[0].value}", f"{q}: when the import raises {src[0].value} the classifier ends with {p.exit[0]} {show(p.exit[1]) if len(p.exit) > 1 else ''} (other effects: {[e.label for e in others]}); expected return default_classifier(exc)", where=fi.where(), function=q, path=p.describe())
        if n < 2:
            raise AnalysisError(f"{q}: guarded import not found")
    rep.floor("R19.5", 10)


def table_of_classes(prog: Program, fi, t) -> bool:
    """a value looked up (and tested not None on this path) in a module-level dict whose values are all ErrorClass members"""
    if isinstance(t, tuple) and t[0] == "pure" and t[1] == ".get" and t[2] and t[2][0][0] == "dict":
        return bool(t[2][0][1]) and all(v[0] == "enum" and v[1] == "ErrorClass" for _k, v in t[2][0][1])
    if not (isinstance(t, tuple) and t[0] == "pure" and t[1] == ".get" and t[2] and t[2][0][0] == "global" and ":" in t[2][0][1]):
        return False
    mod, name = t[2][0][1].split(":", 1)
    m = prog.modules.get(mod)
    val = m.assigns.get(name) if m is not None else None
    return isinstance(val, ast.Dict) and all(prog.enum_const(v, fi) is not None and prog.enum_const(v, fi)[0] == "ErrorClass" for v in val.values)


def regex_shape(pattern: str) -> str:
    """coarse semantic signature of a SQLSTATE extraction regex (via the regex AST)"""
    import re._parser as sre  # type: ignore[import-not-found]

    tree = sre.parse(pattern)
    items = list(tree)
    sig = []
    for op, av in items:
        name = str(op)
        if name == "AT":
            sig.append("boundary")
        elif name == "LITERAL":
            sig.append(f"lit:{chr(av)}")
        elif name == "SUBPATTERN":
            inner = list(av[3])
            if len(inner) == 1 and str(inner[0][0]) == "MAX_REPEAT":
                lo, hi, body = inner[0][1]
                b = list(body)
                cls = ""
                if len(b) == 1 and str(b[0][0]) == "IN":
                    cls = ",".join(f"{chr(x[1][0])}-{chr(x[1][1])}" for x in b[0][1] if str(x[0]) == "RANGE")
                sig.append(f"group:{lo}-{hi}:[{cls}]")
            else:
                sig.append("group:?")
        else:
            sig.append(name.lower())
    return " ".join(sig)


def name_combos():
    """every subset of size <= 2 of the seven substrings (each group member alone, and all cross-group pairs)"""
    out = [frozenset()]
    for s in SUBSTRINGS:
        out.append(frozenset({s}))
    for a, b in itertools.combinations(SUBSTRINGS, 2):
        out.append(frozenset({a, b}))
    out.append(frozenset(SUBSTRINGS))
    return out
