"""C20 - Retry-After hints are parsed safely and honoured exactly."""

from __future__ import annotations

import ast
from fractions import Fraction
from typing import Any

from ..bounds import lower_const, upper_bounds
from ..ctx import cfgs, engine
from ..interval import add, form, interval
from ..mayraise import ANY, F, S, X, analyse_function
from ..model import AnalysisError, Program
from ..paths import SymPath, contains, show
from ..report import Report
from .c18 import TRUSTED, fmt, report_obligations, uniform_args

H = "redress.extras.http"


def run(rep: Report, prog: Program, tier: str) -> None:
    rep.explanation = (
        "(R20.1) May-raise analysis with type guards over all paths - handler paths included, by a fixpoint over the "
        "events that may raise inside a try - of _parse_retry_after, _coerce_retry_after, _lookup_header and "
        "http_retry_after_classifier on the domain `any string / number / header container`: int() / float() / "
        "parsedate_to_datetime / datetime arithmetic / user container methods must be discharged by operand types or by a "
        "handler catching exactly what they raise (including OverflowError for integers beyond float range and absurd "
        "dates). (R20.2) every non-None value the parsers return is bounded below by 0. (R20.3) the hint is attached only "
        "to RATE_LIMIT and reaches Classification.retry_after_s unchanged. (R20.4) in retry_after_or, on the hint edge the "
        "pre-cap delay has the symbolic range [h, h + jitter] with h = max(0, hint) and jitter = max(0, jitter_s), and the "
        "final value is capped by remaining_s when one is given."
    )
    rep.trusted_base = ["sa/mayraise.py table (int/float/parsedate_to_datetime/datetime subtraction)", "sa/interval.py"]
    rep.assumptions = ["header containers may be arbitrary user objects whose methods raise ordinary exceptions", "real arithmetic for the honouring interval"]
    rep.not_decided = ["HTTP-date arithmetic (wall clock)", "the float value of very long digit strings"]
    G, E = cfgs(prog), engine(prog)

    rep.rule("R20.1", "totality of the Retry-After parsing chain")
    funcs = {
        f"{H}:_parse_retry_after": {"value": frozenset({S})},
        f"{H}:_coerce_retry_after": {"exc": frozenset({X})},
        f"{H}:_lookup_header": {"headers": ANY, "name": frozenset({S})},
        f"{H}:http_retry_after_classifier": {"exc": frozenset({X})},
    }
    paths_of: dict[str, list[SymPath]] = {}
    n_ops = 0
    for q, dom in funcs.items():
        fi = prog.func(q)
        rep.analysed(q)
        obs, paths, mr = analyse_function(prog, G, E, fi, domain=dom, call_types={":_parse_retry_after": frozenset({F, "None"}), ":_lookup_header": frozenset({S, "None"}), ":_coerce_retry_after": frozenset({F, "None"}), ":http_classifier": frozenset({"Enum"})})
        paths_of[q] = paths
        report_obligations(rep, "R20.1", prog, q, obs)
        open_exprs = {ob.expr[:90] for ob in obs if not ob.discharged_by}
        for ex in mr.examined:
            n_ops += 1
            rep.instance("R20.1", f"{q.split(':')[1]}|{ex}", {"function": q, "operation": ex} if len(rep.samples) < 14 else None)
            if not any(o in ex for o in open_exprs):
                rep.ok("R20.1")
    if n_ops < 12:
        raise AnalysisError(f"R20.1: only {n_ops} raising-capable operations recognised")
    # the handler paths must actually have been explored
    if not any(any(e.kind == "exc" for e in p.events) for p in paths_of[f"{H}:_parse_retry_after"]):
        raise AnalysisError("_parse_retry_after: no handler path explored (int() / parsedate_to_datetime not recognised as raising)")

    rep.rule("R20.2", "non-negative or absent: every value returned by _parse_retry_after / _coerce_retry_after is None, another parser's result, or bounded below by 0")
    for q in (f"{H}:_parse_retry_after", f"{H}:_coerce_retry_after"):
        fi = prog.func(q)
        for p in paths_of[q]:
            if p.exit[0] != "return":
                rep.instance("R20.2", f"{q.split(':')[1]}|{p.exit[0]}:{p.exit[1]}")
                rep.fail("R20.2", f"{q.split(':')[1]}|exit-{p.exit[0]}-{p.exit[1]}", f"{q}: a path ends by raising {p.exit[1]}", where=fi.where(), function=q, path=p.describe())
                continue
            r = p.exit[1]
            rep.instance("R20.2", f"{q.split(':')[1]}|{show(r)[:60]}")
            ok = r == ("const", None) or (r[0] == "call" and str(r[2]).endswith((":_parse_retry_after",)))
            if not ok:
                lc = lower_const(r)
                ok = lc is not None and lc >= 0
            if ok:
                rep.ok("R20.2")
            else:
                rep.fail("R20.2", f"{q.split(':')[1]}|negative|{show(r)[:40]}", f"{q} returns {show(r)}: not provably >= 0", where=fi.where(), function=q, path=p.describe())
    rep.floor("R20.2", 8)

    rep.rule("R20.3", "the hint is attached only to RATE_LIMIT and reaches Classification(retry_after_s=...) unchanged from _coerce_retry_after")
    q = f"{H}:http_retry_after_classifier"
    fi = prog.func(q)
    for p in paths_of[q]:
        if p.exit[0] != "return":
            continue
        r = p.exit[1]
        kc = [e for e in p.calls() if e.is_repo(":http_classifier")]
        cr = [e for e in p.calls() if e.is_repo(":_coerce_retry_after")]
        is_rl = any(a == ("cmp", "is", kc[0].result, ("enum", "ErrorClass", "RATE_LIMIT")) and pol for a, pol, _ in p.conds) if kc else False
        rep.instance("R20.3", f"rate_limit={is_rl}|{show(r)[:50]}")
        problem = None
        if len(kc) != 1 or kc[0].args != [("param", "exc")]:
            problem = "http_classifier(exc) is not consulted exactly once"
        elif r[0] == "pure" and r[1] == "new Classification":
            kw = dict(r[3])
            if not is_rl:
                problem = "a hint is attached to a class other than RATE_LIMIT"
            elif not cr or kw.get("retry_after_s") != cr[0].result or kw.get("klass") != kc[0].result or cr[0].args != [("param", "exc")]:
                problem = f"Classification built with {[(k, show(v)) for k, v in kw.items()]}"
            elif not any(a == ("cmp", "is", cr[0].result, ("const", None)) and not pol for a, pol, _ in p.conds):
                problem = "a Classification is built although no hint was found"
        elif r != kc[0].result:
            problem = f"returns {show(r)} instead of the class from http_classifier"
        elif cr and not is_rl:
            problem = "Retry-After is parsed for a class other than RATE_LIMIT"
        if problem:
            rep.fail("R20.3", f"http_retry_after_classifier|{problem[:50]}", f"http_retry_after_classifier: {problem}", where=fi.where(), function=q, path=p.describe())
        else:
            rep.ok("R20.3")
    rep.floor("R20.3", 3)

    rep.rule("R20.4", "honoured exactly: on the hint edge of retry_after_or the pre-cap delay ranges over [h, h + jitter] (h = max(0, hint), jitter = max(0, jitter_s)); the final delay is capped by remaining_s when given")
    q = "redress.strategies:retry_after_or.<locals>.f"
    fi = prog.func(q)
    rep.analysed(q)
    ctx = ("param", "ctx")
    hint = ("attr", ("attr", ctx, "classification"), "retry_after_s")
    rem = ("attr", ctx, "remaining_s")
    from .common import nonneg_local

    jitter = ("free", nonneg_local(prog, prog.func("redress.strategies:retry_after_or"), "jitter_s") or "jitter")
    n_hint = 0
    for p in E.paths(fi):
        if p.exit[0] != "return":
            continue
        # the hint edge = every path that is compatible with `a finite hint is present`: it is left only by the
        # literals `hint is None` / `not isfinite(hint)`.  (A truthiness test of the hint does not exclude 0.0.)
        excluded = any(a == ("cmp", "is", hint, ("const", None)) and pol for a, pol, _ in p.conds) or any(a[0] == "pure" and a[1] == "math.isfinite" and a[2] == (hint,) and not pol for a, pol, _ in p.conds)
        if excluded:
            continue
        # a finite hint plus a bounded draw is finite: the `not isfinite(delay)` branch is infeasible here
        if any(a[0] == "pure" and a[1] == "math.isfinite" and a[2] != (hint,) and contains(a[2][0], hint) and not pol for a, pol, _ in p.conds):
            continue
        n_hint += 1
        r = p.exit[1]
        with_jitter = any(a == jitter and pol for a, pol, _ in p.conds)
        has_rem = not any(a == ("cmp", "is", rem, ("const", None)) and pol for a, pol, _ in p.conds)
        rep.instance("R20.4", f"hint-edge|jitter={with_jitter}|remaining={has_rem}", {"value": show(r)})
        h = ("pure", "max", (("const", 0.0), ("pure", "float", (hint,), ())), ())
        h2 = ("pure", "max", (("pure", "float", (hint,), ()), ("const", 0.0)), ())
        hh = h if contains(r, h) else (h2 if contains(r, h2) else None)
        problem = None
        if hh is None:
            problem = f"the hinted delay max(0, hint) does not occur in the result {show(r)}"
        else:
            # strip the sanitisation wrappers that cannot change a finite non-negative value
            core = r
            if has_rem:
                if not (core[0] == "pure" and core[1] == "min" and rem in core[2]):
                    problem = "remaining_s may be given on this path but the result is not min(delay, remaining_s)"
                else:
                    core = core[2][0] if core[2][1] == rem else core[2][1]
            if problem is None:
                while core[0] == "pure" and core[1] == "max" and ("const", 0.0) in core[2] and core not in (h, h2):
                    core = core[2][0] if core[2][1] == ("const", 0.0) else core[2][1]
                lo, hi = interval(core, {hh: "h", jitter: "j"}, uniform_args(p))
                want_lo = form(0, h=1)
                want_hi = form(0, h=1, j=1) if with_jitter else form(0, h=1)
                if lo != want_lo or hi != want_hi:
                    problem = f"pre-cap delay {show(core)} ranges over [{fmt(lo)}, {fmt(hi)}], expected [{fmt(want_lo)}, {fmt(want_hi)}]"
        if problem:
            rep.fail("R20.4", f"retry_after_or|hint-edge|{problem[:50]}", f"retry_after_or (hint present): {problem}", where=fi.where(), function=q, path=p.describe())
        else:
            rep.ok("R20.4")
    if n_hint < 4:
        raise AnalysisError(f"retry_after_or: only {n_hint} hint-edge paths found")
    rep.floor("R20.4", 4)

    rep.rule("R20.5", "the hint reaches the strategy and survives the policy: the BackoffContext handed to the strategy carries the classifier's classification (retry_after_s included) and the true remaining time (deadline - elapsed), and the strategy's finite non-negative answer is changed by the policy only through the cap at that remaining time (= C05 R5.2 / R5.3)")
    from .c05 import check_sanitised, strategy_call_provenance

    strategy_call_provenance(rep, "R20.5", prog)
    check_sanitised(rep, "R20.5", prog)
    rep.floor("R20.5", 20)

    rep.rule("R20.6", "non-negative also for NaN: in every max(0.0, x) clamp of the Retry-After chain and of retry_after_or the constant is the first argument, so float('nan') from an SDK-supplied retry_after or a 'nan' header becomes 0.0 instead of a NaN hint (CPython's max returns its first argument when comparisons with NaN are false)")
    from .floats import nan_safe_clamps

    n_cl = nan_safe_clamps(rep, "R20.6", prog, {**{q: paths_of[q] for q in (f"{H}:_parse_retry_after", f"{H}:_coerce_retry_after")}, "redress.strategies:retry_after_or.<locals>.f": E.paths(prog.func("redress.strategies:retry_after_or.<locals>.f"))})
    if n_cl < 3:
        raise AnalysisError(f"R20.6: only {n_cl} clamps found")
    rep.floor("R20.6", 3)

    rep.rule("R20.7", "a Retry-After hint is computed afresh for every response: nothing in the parsing / strategy chain is memoised over a clock reading (an HTTP-date header cached with the delay it meant the first time would be honoured again, unchanged, an hour later)")
    from .foundations import memo_is_pure

    memo_is_pure(rep, "R20.7", prog, ("redress.extras", "redress.strategies", "redress.classify"))
    rep.floor("R20.7", 1)

    rep.rule("R20.8", "the hint is the header's value: every non-None result of _lookup_header is str(V) where V was obtained under the requested name - the answer of headers.get(name) / get(name.lower()), or the value half of an (key, value) pair whose key matched the name ignoring case on that path; never the key, never another pair's value")
    lf = prog.func(f"{H}:_lookup_header")
    rep.analysed(lf.qual)
    lpos = lf.positional_params()
    NAME = ("param", lpos[1] if len(lpos) > 1 else "name")  # the requested header name: second parameter, whatever it is called
    n_lk = 0
    seen_lk: set = set()
    for p in E.paths(lf):
        if p.exit[0] != "return" or p.exit[1] == ("const", None):
            continue
        r = p.exit[1]
        keyr = (repr(r), tuple(repr(a) for a, pol, _ in p.conds if "lower" in repr(a) and pol))
        if keyr in seen_lk:
            continue
        seen_lk.add(keyr)
        n_lk += 1
        rep.instance("R20.8", f"_lookup_header|{show(r)[:60]}")
        problem = None
        if not (r[0] == "pure" and r[1] == "str" and len(r[2]) == 1):
            problem = f"returns {show(r)}, not str(<value found>)"
        else:
            XV = r[2][0]
            matched = [a[2][2][0][2][0] for a, pol, _ in p.conds if pol and a[0] == "cmp" and a[1] == "==" and a[3] == ("pure", ".lower", (NAME,), ()) and a[2][0] == "pure" and a[2][1] == ".lower" and a[2][2] and a[2][2][0][0] == "pure" and a[2][2][0][1] == "str"]
            if XV[0] == "fresh":
                if not matched:
                    problem = f"returns the loop variable {show(XV)} without a key match on this path"
                elif XV in matched:
                    problem = f"returns str({show(XV)}): the header's *name* (the variable compared with the requested name), not its value"
                elif not any(k[0] == "fresh" and k[1] == XV[1] for k in matched):
                    problem = f"returns {show(XV)}, which does not belong to the pair whose key matched"
            elif XV[0] == "pure" and XV[1] == ".get":
                if len(XV[2]) < 2 or XV[2][1] not in (NAME, ("pure", ".lower", (NAME,), ())):
                    problem = f"looks up {show(XV)}: not the requested name"
            elif XV[0] == "call":
                ev = next((e for e in p.calls(pure=None) if e.result == XV), None)
                if ev is None or not ev.args or ev.args[0] not in (NAME, ("pure", ".lower", (NAME,), ())):
                    problem = f"returns {show(XV)}: not a lookup of the requested name"
            else:
                problem = f"returns str({show(XV)}): not a value found under the requested name"
        if problem:
            rep.fail("R20.8", f"_lookup_header|{problem[:50]}", f"_lookup_header {problem}", where=lf.where(), function=lf.qual, path=p.describe())
        else:
            rep.ok("R20.8")
    if n_lk < 3:
        raise AnalysisError(f"R20.8: only {n_lk} value-returning paths of _lookup_header")
    rep.floor("R20.8", 3)

    rep.rule("R20.9", "the headers that are searched are the response's: _coerce_retry_after hands _lookup_header the exception's own `headers` when it has some, else `exc.response.headers` (requests / httpx shape), and asks for `Retry-After` - decided by value over {headers present / absent} x {response headers present / absent}")
    cf9 = prog.func(f"{H}:_coerce_retry_after")
    rep.analysed(cf9.qual)
    from ..paths import CannotEval as _CE, evaluate as _ev, truth as _tr

    EXC9 = ("param", cf9.positional_params()[0])
    EH9 = ("pure", "getattr", (EXC9, ("const", "headers"), ("const", None)), ())
    RESP9 = ("pure", "getattr", (EXC9, ("const", "response"), ("const", None)), ())
    RH9 = ("pure", "getattr", (RESP9, ("const", "headers"), ("const", None)), ())
    n9 = 0
    bad9: set = set()
    for p in E.paths(cf9):
        lk = [e for e in p.calls(pure=None) if e.is_repo(":_lookup_header")]
        if not lk:
            continue
        for eh in (None, "EH"):
            for rh in (None, "RH"):
                def leaf9(t, eh=eh, rh=rh):
                    if t == EH9:
                        return eh
                    if t == RH9:
                        return rh
                    if t == RESP9:
                        return "RESP"
                    raise _CE(show(t))

                feasible = True
                for a, pol, _ in p.conds:
                    if a in (EH9, RH9):
                        if bool(leaf9(a)) != pol:
                            feasible = False
                if not feasible:
                    continue
                n9 += 1
                rep.instance("R20.9", f"_coerce_retry_after|exc.headers={'set' if eh else 'none'}|response.headers={'set' if rh else 'none'}")
                hv = lk[0].kwargs.get("headers")
                try:
                    got = _ev(hv, leaf9) if hv is not None else "<missing>"
                except _CE as exc9:
                    got = f"<{exc9}>"
                want = eh or rh
                nm = lk[0].kwargs.get("name")
                if got == want and nm == ("const", "Retry-After") and len(lk) == 1:
                    rep.ok("R20.9")
                elif (eh, rh, str(got)) not in bad9:
                    bad9.add((eh, rh, str(got)))
                    rep.fail("R20.9", f"_coerce_retry_after|headers-source|{eh}|{rh}", f"_coerce_retry_after searches {got!r} for {show(nm) if nm else '?'} when exc.headers is {'set' if eh else 'absent'} and exc.response.headers is {'set' if rh else 'absent'}; expected {want!r} and 'Retry-After'", where=cf9.where(), function=cf9.qual, path=p.describe())
                else:
                    rep.ok("R20.9")
    if n9 < 3:
        raise AnalysisError(f"R20.9: only {n9} header-source combinations reached in _coerce_retry_after")
    rep.floor("R20.9", 3)
