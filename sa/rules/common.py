"""Anchors and small decoders shared by the rule clients."""

from __future__ import annotations

from typing import Any

from ..model import AnalysisError, Program
from ..paths import PEvent, SymPath, match, show, subterms

STATE = "redress.policy.state"
HELPERS = "redress.policy.retry_helpers"
LOGIC = "redress.policy.runner.logic"
SYNC_CORE = "redress.policy.runner.sync_core"
ASYNC_CORE = "redress.policy.runner.async_core"
BASE = "redress.policy.base"

RUNNERS = {
    "sync_call": f"{SYNC_CORE}:_run_sync_call",
    "sync_execute": f"{SYNC_CORE}:_run_sync_execute",
    "async_call": f"{ASYNC_CORE}:_run_async_call",
    "async_execute": f"{ASYNC_CORE}:_run_async_execute",
}
HANDLE_FAILURE = f"{STATE}:_RetryState._handle_failure"
FINALIZE = f"{HELPERS}:_finalize_attempt"
DETERMINE = f"{LOGIC}:determine_action_from_outcome"

ERROR_CLASSES = ["AUTH", "PERMISSION", "PERMANENT", "CONCURRENCY", "RATE_LIMIT", "SERVER_ERROR", "TRANSIENT", "UNKNOWN"]
NON_RETRYABLE = {"PERMANENT", "AUTH", "PERMISSION"}

# stop reason <-> terminal event (docs/observability.md; events.py / errors.py)
REASON_EVENT = {
    "MAX_ATTEMPTS_PER_CLASS": "MAX_ATTEMPTS_EXCEEDED",
    "MAX_ATTEMPTS_GLOBAL": "MAX_ATTEMPTS_EXCEEDED",
    "NON_RETRYABLE_CLASS": "PERMANENT_FAIL",
    "MAX_UNKNOWN_ATTEMPTS": "MAX_UNKNOWN_ATTEMPTS_EXCEEDED",
    "DEADLINE_EXCEEDED": "DEADLINE_EXCEEDED",
    "NO_STRATEGY": "NO_STRATEGY_CONFIGURED",
    "BUDGET_EXHAUSTED": "BUDGET_EXHAUSTED",
    "SCHEDULED": "SCHEDULED",
    "ABORTED": "ABORTED",
}

SELF = ("param", "self")


def attr(base: Any, name: str) -> tuple:
    return ("attr", base, name)


def check_enums(prog: Program) -> None:
    ec = prog.cls("redress.errors:ErrorClass")
    have = prog.enum_members(ec)
    if sorted(have) != sorted(ERROR_CLASSES):
        raise AnalysisError(f"ErrorClass members changed: {have}")
    sr = prog.cls("redress.errors:StopReason")
    if sorted(prog.enum_members(sr)) != sorted(REASON_EVENT):
        raise AnalysisError(f"StopReason members changed: {prog.enum_members(sr)}")
    en = prog.cls("redress.events:EventName")
    for v in REASON_EVENT.values():
        if v not in prog.enum_members(en):
            raise AnalysisError(f"EventName.{v} vanished")


EMIT_PARAMS = ["event", "attempt", "sleep_s", "klass", "exc", "stop_reason", "cause", "classification"]


def is_emit(ev: PEvent) -> bool:
    return ev.kind == "call" and ev.is_repo("_RetryState.emit")


def emit_info(ev: PEvent) -> dict[str, Any]:
    out: dict[str, Any] = {p: None for p in EMIT_PARAMS}
    for i, a in enumerate(ev.args):
        if i < len(EMIT_PARAMS):
            out[EMIT_PARAMS[i]] = a
    for k, v in ev.kwargs.items():
        if k in out:
            out[k] = v
    e = out["event"]
    out["event_name"] = e[2] if isinstance(e, tuple) and e[0] == "enum" and e[1] == "EventName" else None
    s = out["stop_reason"]
    out["reason_name"] = s[2] if isinstance(s, tuple) and s[0] == "enum" and s[1] == "StopReason" else None
    out["recv"] = ev.recv
    return out


def enum_name(t: Any, cls: str) -> str | None:
    if isinstance(t, tuple) and len(t) == 3 and t[0] == "enum" and t[1] == cls:
        return t[2]
    return None


def ctor_args(t: Any, cls_name: str, fields: list[str]) -> dict[str, Any] | None:
    """decode ('pure', 'new X', args, kwargs) into a field dict"""
    if not (isinstance(t, tuple) and t[0] == "pure" and t[1] == f"new {cls_name}"):
        return None
    out: dict[str, Any] = {}
    for i, a in enumerate(t[2]):
        if i < len(fields):
            out[fields[i]] = a
    for k, v in t[3]:
        out[k] = v
    return out


def path_where(prog: Program, qual: str, p: SymPath) -> str:
    fi = prog.func(qual)
    ln = 0
    for it in reversed(p.items):
        n = it[3] if it[0] == "cond" else it[1].node
        if n.lineno:
            ln = n.lineno
            break
    return f"{fi.module.relpath}:{ln or fi.node.lineno}"


def has_call_result(t: Any, suffix: str) -> bool:
    return any(isinstance(x, tuple) and len(x) == 3 and x[0] == "call" and str(x[2]).endswith(suffix) for x in subterms(t))


def runner_raises(ev, cfg):
    """standard fault model for path enumeration of a runner: the operation may raise an
    ordinary exception or AbortRetryError, check_abort may raise AbortRetryError"""
    if ev.kind == "call" and (ev.callback() == "operation" or ev.is_repo(":_call_with_timeout")) and not ev.awaited:
        return ("OtherException", "AbortRetryError")
    if ev.kind == "call" and ev.is_repo("_RetryState.check_abort"):
        return ("AbortRetryError",)
    if ev.kind == "await" and ("func()" in ev.label):
        return ("OtherException", "AbortRetryError")
    return ()


def runner_paths(prog, name: str):
    from ..ctx import engine

    return engine(prog).paths(prog.func(RUNNERS[name]), raises=runner_raises, key="runner")


def is_loop_var(t) -> bool:
    """the variable of a `for` loop (any name): ('fresh', <iter node>, <name>)"""
    return isinstance(t, tuple) and len(t) == 3 and t[0] == "fresh"


def is_attempt_no(t, p=None) -> bool:
    """`t` is the 1-based number of the current iteration of the attempt loop: the loop variable of
    `range(1, ...)`, or `v + c` for the variable of `range(a, ...)` with a + c == 1 (a re-numbered loop)."""
    from ..paths import linear

    if not isinstance(t, tuple):
        return False
    lin = linear(t)
    if lin is None:
        return False
    c, terms = lin
    vs = [(k, v) for k, v in terms.items()]
    if len(vs) != 1 or not is_loop_var(vs[0][0]) or vs[0][1] != 1 or c != int(c):
        return False
    if p is None:
        return c == 0
    start = None
    for e in p.events:
        if e.kind == "iter" and e.recv is not None and e.recv[0] == "pure" and e.recv[1] == "range":
            fresh_id = vs[0][0][1]
            nid = e.node.id
            if fresh_id == nid or (isinstance(fresh_id, tuple) and fresh_id[-1] == nid):
                a = e.recv[2]
                start = ("const", 0) if len(a) == 1 else a[0]
    if start is None or start[0] != "const" or not isinstance(start[1], int):
        return c == 0
    return start[1] + int(c) == 1


def _known_funcs() -> set[str] | None:
    import os

    path = os.path.join(os.path.dirname(os.path.dirname(os.path.abspath(__file__))), "known_funcs.txt")
    try:
        with open(path) as fh:
            return {ln.strip() for ln in fh if ln.strip()}
    except OSError:
        return None


def callers_of(prog: Program, fi) -> list:
    """functions with a call site that resolves to `fi`"""
    out = []
    if getattr(fi, "is_property", False) and fi.cls is not None:
        # a property is "called" wherever it is read
        import ast as _ast

        for fn in prog.funcs.values():
            if fn is fi or fn.cls is None or not (fi.cls in prog.mro(fn.cls) or fn.cls in prog.mro(fi.cls)):
                continue
            if any(isinstance(n, _ast.Attribute) and n.attr == fi.name and isinstance(n.ctx, _ast.Load) for n in prog._own_nodes(fn.node)):
                if fn not in out:
                    out.append(fn)
        return out
    for caller, call in prog._call_sites_by_name().get(fi.name, []):
        try:
            tg = prog.resolve_call(call, caller)
        except AnalysisError:
            continue
        if any(t.func is fi for t in tg):
            out.append(caller)
    return out


def owned_by(prog: Program, fn, allowed, _seen: frozenset = frozenset()) -> bool:
    """who-may rule with helper extraction in mind: `fn` is one of the allowed functions, or it is a
    helper that did not exist when the rules were written (not in known_funcs.txt, hence inlined by
    the path engine into its callers, whose path rules then cover its body) and *every* call site
    of it sits in a function that is itself owned by the allowed set."""
    allowed = (allowed,) if isinstance(allowed, str) else tuple(allowed)
    if fn.qual in allowed:
        return True
    known = _known_funcs()
    if known is None or fn.qual in known or fn.qual in _seen:
        return False
    if fn.qual.split(":", 1)[-1] in {q.split(":", 1)[-1] for q in known} and "<locals>" not in fn.qual:
        return False  # a known function that moved to another module is not a new helper
    cs = callers_of(prog, fn)
    return bool(cs) and all(owned_by(prog, c, allowed, _seen | {fn.qual}) for c in cs)


def failure_entry(rep, rid: str, prog: Program) -> None:
    """every failure is judged on its own: handle_exception asks the policy's classifier exactly once about this very
    exception, normalises the answer and hands (classification, attempt, cause, exc, result) on to _handle_failure
    unchanged; handle_result hands on the classification it was given for this very result.  No verdict is cached,
    substituted or carried over."""
    from ..ctx import engine

    for m in ("handle_exception", "handle_result"):
        hf = prog.func(f"{STATE}:_RetryState.{m}")
        rep.analysed(hf.qual)
        n = 0
        for p in engine(prog).paths(hf):
            hfc = [e for e in p.calls() if e.is_repo("_RetryState._handle_failure")]
            cls = [e for e in p.calls() if e.callback() == "classifier"]
            norm = [e for e in p.calls(pure=None) if e.is_repo(":_normalize_classification")]
            n += 1
            rep.instance(rid, f"{m}|{'|'.join(p.describe()[-2:])[:80]}")
            problem = None
            if len(hfc) != 1 or p.exit != ("return", hfc[0].result):
                problem = f"must end by returning _handle_failure(...) exactly once (found {len(hfc)} calls, exit {p.exit[0]})"
            else:
                kw = hfc[0].kwargs
                want_cause = "exception" if m == "handle_exception" else "result"
                if kw.get("attempt") != ("param", "attempt") or kw.get("cause") != ("const", want_cause):
                    problem = f"attempt / cause are not forwarded unchanged: {[(k, show(v)) for k, v in kw.items() if k in ('attempt', 'cause')]}"
                elif m == "handle_exception":
                    if kw.get("exc") != ("param", "exc") or kw.get("result") != ("const", None):
                        problem = "exc / result are not forwarded as (exc, None)"
                    elif len(cls) != 1 or cls[0].args != [("param", "exc")] or not (cls[0].recv == attr(SELF, "policy") or cls[0].callee == attr(attr(SELF, "policy"), "classifier")):
                        problem = f"the policy's classifier must be asked exactly once about this very exception; found {[[show(a) for a in e.args] for e in cls]}"
                    elif len(norm) != 1 or norm[0].args != [cls[0].result] or kw.get("classification") != norm[0].result:
                        problem = f"the classification handed on is {show(kw.get('classification'))}, not the normalised answer the classifier just gave"
                    elif any(e.kind == "store" for e in p.events):
                        problem = "classifier verdicts are stored (a cache would let an earlier verdict decide a later failure)"
                else:
                    if kw.get("result") != ("param", "result") or kw.get("exc") != ("const", None) or kw.get("classification") != ("param", "classification"):
                        problem = f"(classification, result, None) are not forwarded unchanged: {[(k, show(v)) for k, v in kw.items()]}"
                    elif cls:
                        problem = "handle_result re-classifies"
            if problem:
                rep.fail(rid, f"{m}|{problem[:50]}", f"_RetryState.{m}: {problem}", where=path_where(prog, hf.qual, p), function=hf.qual, path=p.describe())
            else:
                rep.ok(rid)
        if n == 0:
            raise AnalysisError(f"{hf.qual}: no path")


class RuleView:
    """A rule of a sibling property re-run under another rule id, optionally restricted to the findings that concern
    one parameter / keyword (`keep`): obligations that do not concern it count as discharged under the new id."""

    def __init__(self, rep, rid: str, keep=None, only: tuple[str, ...] | None = None) -> None:
        self._rep, self._rid, self._keep, self._only = rep, rid, keep, only

    def __getattr__(self, name: str):
        return getattr(self._rep, name)

    def rule(self, rid: str, text: str) -> None:  # the caller declares the rule text itself
        return None

    def instance(self, rid: str, construct: str, sample=None) -> None:
        if self._only is None or rid in self._only:
            self._rep.instance(self._rid, construct, sample)

    def ok(self, rid: str, n: int = 1) -> None:
        if self._only is None or rid in self._only:
            self._rep.ok(self._rid, n)

    def fail(self, rid: str, key: str, message: str, where: str = "", function: str = "", **detail) -> None:
        if self._only is not None and rid not in self._only:
            return
        if self._keep is None or self._keep(key, message):
            self._rep.fail(self._rid, key, message, where=where, function=function, **detail)
        else:
            self._rep.ok(self._rid)

    def floor(self, rid: str, minimum: int) -> None:
        return None


def exit_value(p: SymPath) -> Any:
    """the returned term, decided by the path's own branch conditions where it is one of them (`ok = not full; if ok:
    ...; return ok` returns the constant the branch taken fixes)"""
    from ..paths import literal

    if p.exit[0] != "return" or len(p.exit) < 2:
        return None
    t = p.exit[1]
    atom, pol = literal(t)
    for a, want, _ in p.conds:
        if a == atom:
            return ("const", want == pol)
    return t


def nonneg_local(prog, outer, param: str) -> str | None:
    """name of the local of `outer` that is bound exactly once, to `max(0.0, <param>)` (either argument order): the
    normalised copy of a numeric parameter that a returned closure reads (whatever the local is called)"""
    import ast as _ast

    hits = []
    for n in prog._own_nodes(outer.node):
        tgt = val = None
        if isinstance(n, _ast.Assign) and len(n.targets) == 1:
            tgt, val = n.targets[0], n.value
        elif isinstance(n, _ast.AnnAssign) and n.value is not None:
            tgt, val = n.target, n.value
        if not (isinstance(tgt, _ast.Name) and isinstance(val, _ast.Call) and isinstance(val.func, _ast.Name) and val.func.id == "max" and len(val.args) == 2 and not val.keywords):
            continue
        a, b = val.args
        zero = lambda x: isinstance(x, _ast.Constant) and isinstance(x.value, (int, float)) and not isinstance(x.value, bool) and x.value == 0  # noqa: E731
        par = lambda x: isinstance(x, _ast.Name) and x.id == param  # noqa: E731
        if (zero(a) and par(b)) or (par(a) and zero(b)):
            hits.append(tgt.id)
    stores = [n.id for n in prog._own_nodes(outer.node) if isinstance(n, _ast.Name) and isinstance(n.ctx, _ast.Store)]
    return hits[0] if len(hits) == 1 and stores.count(hits[0]) == 1 else None


def forwarding_slice(rep, rid: str, prog, names: tuple[str, ...], text: str, floor: int = 50) -> None:
    """the obligations of C12 R12.3 (every parameter of every delegating layer - decorator, sugar, from_config, policy,
    retry, runner, context - reaches its delegate under its own name, unmodified) that concern the given parameters,
    re-run under rule `rid` of the property whose guarantee depends on those parameters arriving"""
    import re

    from .c12 import forwarding

    pat = re.compile(r"(?<![A-Za-z_])(" + "|".join(re.escape(n) for n in names) + r")(?![A-Za-z_])")
    rep.rule(rid, text)
    forwarding(RuleView(rep, rid, keep=lambda key, msg: bool(pat.search(key) or pat.search(msg))), prog, strict=False)
    rep.floor(rid, floor)


def timeline_hook_paths(prog):
    """(hook, how _resolve_timeline refers to it, its parameters without self, its paths) with the collector's `record`
    method - where there is one - read through: whether the timeline entry is built in a collector method or in the
    hook itself is the code's business"""
    from ..ctx import engine
    from ..model import AnalysisError

    hook, ref = timeline_hook(prog)
    if hook is None:
        raise AnalysisError("timeline wrapper (the function _resolve_timeline installs as the metric hook) not found")
    hp = hook.param_names()[1:] if hook.is_method and not hook.is_staticmethod else hook.param_names()
    eng = engine(prog)
    inline0 = eng.inline
    eng.inline = lambda f, inline0=inline0: bool(inline0 and inline0(f)) or f.qual.endswith(":_TimelineCollector.record")
    try:
        paths = eng.paths(hook, raises=lambda ev, cfg: (), key="timeline-hook")
    finally:
        eng.inline = inline0
    return hook, ref, hp, paths


def timeline_record(rep, rid: str, prog, fields: tuple[str, ...] = ("attempt", "event", "sleep_s")) -> None:
    """the captured timeline shows what the hooks were shown: the hook installed by `_resolve_timeline` (with the
    collector's `record(event, attempt, sleep_s, tags)` read through) builds its TimelineEvent with the like-named fields
    taken from those very parameters (`elapsed_s` is the collector's own clock reading, never one of the parameters)"""
    hook, _ref, hp, paths = timeline_hook_paths(prog)
    rep.analysed(hook.qual)
    if "redress.policy.runner.timeline:_TimelineCollector.record" in prog.funcs:
        rep.analysed("redress.policy.runner.timeline:_TimelineCollector.record")
    role = dict(zip(("event", "attempt", "sleep_s", "tags"), hp))
    n = 0
    for p in paths:
        evs = [e for e in p.calls(pure=None) if e.is_ctor("TimelineEvent")]
        if not evs:
            continue
        n += 1
        d = evs[0].kwargs
        rep.instance(rid, f"_TimelineCollector.record|{'|'.join(p.describe()[-2:])[:80]}")
        bad = {f: show(d.get(f)) for f in fields if d.get(f) != ("param", role.get(f, f))}
        el = d.get("elapsed_s")
        if "elapsed_s" not in fields and isinstance(el, tuple) and el and el[0] == "param":
            bad["elapsed_s"] = show(el)
        if bad or len(evs) != 1:
            rep.fail(rid, f"timeline-record|{sorted(bad)[0] if bad else 'count'}", f"_TimelineCollector.record builds the timeline entry with {bad or 'several TimelineEvent constructions'}; expected each of {fields} from the parameter of the same name", where=hook.where(), function=hook.qual, path=p.describe())
        else:
            rep.ok(rid)
    if n < 1:
        from ..model import AnalysisError

        raise AnalysisError(f"{rid}: no TimelineEvent construction found on the paths of the timeline hook")


def timeline_hook(prog):
    """(the function installed as the metric hook when a timeline is captured, how `_resolve_timeline` refers to it):
    a function nested in `_resolve_timeline` returned by name, or a method of the collector returned bound
    (`_TimelineCollector(timeline, forward_to=on_metric).hook`).  None when neither shape is found."""
    from ..ctx import engine

    tl = prog.func("redress.policy.runner.timeline:_resolve_timeline")
    for p in engine(prog).paths(tl):
        if p.exit[0] != "return":
            continue
        v = p.exit[1]
        if not (isinstance(v, tuple) and v[0] == "tuple" and len(v[1]) == 2):
            continue
        second = v[1][1]
        if isinstance(second, tuple) and len(second) == 2 and second[0] == "global" and second[1] in prog.funcs and prog.funcs[second[1]].parent is tl:
            return prog.funcs[second[1]], second
        if isinstance(second, tuple) and len(second) == 3 and second[0] == "attr":
            base = second[1]
            cname = None
            if isinstance(base, tuple) and base and base[0] == "pure" and isinstance(base[1], str) and base[1].startswith("new "):
                cname = base[1][4:]
            elif isinstance(base, tuple) and base and base[0] == "call":
                ev = next((e for e in p.calls(pure=None) if e.result == base), None)
                tg = ev.targets[0] if ev is not None and ev.targets else None
                cname = tg.cls.name if tg is not None and tg.kind == "ctor" and tg.cls is not None else None
            cands = [c for c in prog.classes.values() if c.name == cname] if cname else []
            if len(cands) == 1:
                m = prog.find_method(cands[0], second[2])
                if m is not None:
                    return m, second
    return None, None
